#!/usr/bin/env python3
"""Fail-closed translator of dispatch / error-branch structure  ->  coq/Gen/Dispatch.v

 1. boundary.boundaryConditionsTerm: class -> per-class builder (if-chain of issubclass / `type(..) is` tests)
 2. each boundaryConditionsTerm* builder: in which periodic branch (left/right, bottom/top, back/front) and for which
    classes `raise ValueError` is executed
 3. pdesolver.solvePDE: the chain that classifies the elements of eqnterms
 4. the per-class dispatchers of diffusion / advection / calculus: class -> builder, and whether *args is forwarded
"""
import ast, sys, os

CLS = {"Grid1D": "G1", "CylindricalGrid1D": "C1", "SphericalGrid1D": "S1", "Grid2D": "G2", "CylindricalGrid2D": "C2",
       "PolarGrid2D": "P2", "Grid3D": "G3", "CylindricalGrid3D": "C3", "SphericalGrid3D": "S3"}
ORDER = ["G1", "C1", "S1", "G2", "C2", "P2", "G3", "C3", "S3"]
SUB = {"Grid1D": ["G1", "C1", "S1"], "Grid2D": ["G2", "C2", "P2"], "Grid3D": ["G3", "C3", "S3"]}


class TranslateError(Exception):
    pass


def fn(tree, name):
    l = [n for n in tree.body if isinstance(n, ast.FunctionDef) and n.name == name]
    if len(l) != 1:
        raise TranslateError(f"function {name} not found")
    return l[0]


def strip_doc(body):
    return [s for s in body if not (isinstance(s, ast.Expr) and isinstance(s.value, ast.Constant))]


def class_test(t):
    """returns list of Coq classes matched by the test"""
    if isinstance(t, ast.BoolOp) and isinstance(t.op, ast.Or):
        out = []
        for v in t.values:
            out += class_test(v)
        return out
    if isinstance(t, ast.Compare) and len(t.ops) == 1 and isinstance(t.ops[0], ast.Is) and isinstance(t.left, ast.Call) \
            and isinstance(t.left.func, ast.Name) and t.left.func.id == "type" and isinstance(t.comparators[0], ast.Name) \
            and t.comparators[0].id in CLS:
        return [CLS[t.comparators[0].id]]
    if isinstance(t, ast.Call) and isinstance(t.func, ast.Name) and t.func.id == "issubclass" and len(t.args) == 2 \
            and isinstance(t.args[1], ast.Name) and t.args[1].id in SUB:
        return SUB[t.args[1].id]
    raise TranslateError("unsupported class test: " + ast.dump(t)[:160])


def dispatch_table(fd):
    """if-chain on the class -> {class: (callee, forwards_star_args)}"""
    body = strip_doc(fd.body)
    ifs = [s for s in body if isinstance(s, ast.If)]
    if len(ifs) != 1:
        raise TranslateError(f"{fd.name}: expected one if-chain")
    node = ifs[0]
    table = {}
    while True:
        calls = [n for n in ast.walk(ast.Module(body=node.body, type_ignores=[])) if isinstance(n, ast.Call) and isinstance(n.func, ast.Name)
                 and n.func.id not in ("Exception", "type", "issubclass")]
        if len(calls) != 1:
            raise TranslateError(f"{fd.name}: branch must call exactly one builder")
        star = any(isinstance(a, ast.Starred) for a in calls[0].args)
        for c in class_test(node.test):
            table.setdefault(c, (calls[0].func.id, star))
        if len(node.orelse) == 1 and isinstance(node.orelse[0], ast.If):
            node = node.orelse[0]
        else:
            break
    for c in ORDER:
        if c not in table:
            raise TranslateError(f"{fd.name}: class {c} not dispatched")
    return table


def periodic_raises(fd):
    """for one boundaryConditionsTerm* builder: {axis: set of classes (or 'ALL') for which the periodic branch raises ValueError}"""
    out = {}
    for node in ast.walk(fd):
        if not isinstance(node, ast.If):
            continue
        t = node.test
        # the non-periodic test: (not BC.<s1>.periodic) and (not BC.<s2>.periodic)
        if not (isinstance(t, ast.BoolOp) and isinstance(t.op, ast.And) and len(t.values) == 2
                and all(isinstance(v, ast.UnaryOp) and isinstance(v.op, ast.Not) and isinstance(v.operand, ast.Attribute)
                        and v.operand.attr == "periodic" for v in t.values)):
            continue
        sides = sorted(v.operand.value.attr for v in t.values)
        axis = {("left", "right"): "AX", ("bottom", "top"): "AY", ("back", "front"): "AZ"}.get(tuple(sides))
        if axis is None:
            raise TranslateError(f"{fd.name}: unexpected side pair {sides}")
        if len(node.orelse) != 1 or not isinstance(node.orelse[0], ast.If):
            raise TranslateError(f"{fd.name}: periodic branch of {sides} not found")
        pb = node.orelse[0]
        raising = set()
        for st in pb.body:
            if isinstance(st, ast.Raise):
                if not (isinstance(st.exc, ast.Call) and isinstance(st.exc.func, ast.Name) and st.exc.func.id == "ValueError"):
                    raise TranslateError(f"{fd.name}: periodic branch raises something else than ValueError")
                raising = "ALL"
                break
            if isinstance(st, ast.If):
                rs = [x for x in st.body if isinstance(x, ast.Raise)]
                if rs:
                    if not all(isinstance(x.exc, ast.Call) and isinstance(x.exc.func, ast.Name) and x.exc.func.id == "ValueError" for x in rs):
                        raise TranslateError(f"{fd.name}: periodic branch raises something else than ValueError")
                    raising = set(class_test(st.test))
                    break
            if any(isinstance(x, ast.Raise) for x in ast.walk(st)):
                raise TranslateError(f"{fd.name}: raise in an unexpected position")
        out[axis] = raising
    return out


def solve_chain(fd):
    """flags describing the term classification chain of solvePDE"""
    loops = [n for n in ast.walk(fd) if isinstance(n, ast.For) and isinstance(n.iter, ast.Name) and n.iter.id == "eqnterms"]
    if len(loops) != 1 or len(loops[0].body) != 1 or not isinstance(loops[0].body[0], ast.If):
        raise TranslateError("solvePDE: term loop not found")
    node = loops[0].body[0]
    flags = {"tuple_len_check": False, "tuple_ndim_check": False, "ndim_guard": False, "ndim1": False, "ndim2": False, "else_typeerror": False}
    def raises_typeerror(stmts):
        return any(isinstance(s, ast.Raise) and isinstance(s.exc, ast.Call) and isinstance(s.exc.func, ast.Name) and s.exc.func.id == "TypeError" for s in stmts)
    t = node.test
    if not (isinstance(t, ast.Call) and isinstance(t.func, ast.Name) and t.func.id == "isinstance" and isinstance(t.args[1], ast.Name) and t.args[1].id == "tuple"):
        raise TranslateError("solvePDE: first test must be isinstance(term, tuple)")
    seen_unpack = False
    for st in node.body:
        if isinstance(st, ast.If) and raises_typeerror(st.body):
            src = ast.dump(st.test)
            if "len" in src and not seen_unpack:
                flags["tuple_len_check"] = True
            elif "ndim" in src:
                # safe only if it cannot raise AttributeError: uses getattr(..., 'ndim', None)
                flags["tuple_ndim_check"] = "getattr" in src
        if isinstance(st, ast.Assign) and isinstance(st.targets[0], ast.Tuple):
            seen_unpack = True
    node = node.orelse[0] if len(node.orelse) == 1 and isinstance(node.orelse[0], ast.If) else None
    while node is not None:
        src = ast.dump(node.test)
        if "hasattr" in src and raises_typeerror(node.body) and not flags["ndim1"] and not flags["ndim2"]:
            flags["ndim_guard"] = True
        elif "ndim" in src and isinstance(node.test, ast.Compare) and isinstance(node.test.comparators[0], ast.Constant):
            if node.test.comparators[0].value == 1: flags["ndim1"] = True
            if node.test.comparators[0].value == 2: flags["ndim2"] = True
        else:
            raise TranslateError("solvePDE: unexpected test in the term chain")
        if len(node.orelse) == 1 and isinstance(node.orelse[0], ast.If):
            node = node.orelse[0]
        else:
            flags["else_typeerror"] = raises_typeerror(node.orelse)
            node = None
    return flags


# ---------------------------------------------------------------- the same facts by EXECUTION
PYCLS = {v: k for k, v in CLS.items()}
MESHARGS = {"G1": (3, 1.0), "C1": (3, 1.0), "S1": (3, 1.0), "G2": (3, 2, 1.0, 2.0), "C2": (3, 2, 1.0, 2.0), "P2": (3, 2, 1.0, 2.0),
            "G3": (3, 2, 2, 1.0, 2.0, 3.0), "C3": (3, 2, 2, 1.0, 2.0, 3.0), "S3": (3, 2, 2, 1.0, 2.0, 3.0)}
SIDEPAIRS = [("left", "right"), ("bottom", "top"), ("back", "front")]
DISPATCHERS = [("diffusionTerm", "diffusion"), ("convectionTerm", "advection"), ("convectionUpwindTerm", "advection"),
               ("convectionTVDupwindRHSTerm", "advection"), ("divergenceTerm", "calculus"),
               ("boundaryConditionsTerm", "boundary"), ("cellValuesWithBoundaries", "boundary")]


def exec_facts(repo):
    """periodic -> ValueError table, solvePDE term classification flags, class -> builder (+ whether extra positional arguments
    reach it), operator method lists: observed by running the library"""
    sys.path.insert(0, os.path.join(repo, "src"))
    try:
        import numpy as np
        import pyfvtool as pf
        import importlib
    except Exception as ex:
        raise TranslateError(f"cannot import pyfvtool from {repo}/src: {type(ex).__name__}: {ex}")
    import warnings
    warnings.simplefilter("ignore")
    meshes = {cq: getattr(pf, PYCLS[cq])(*MESHARGS[cq]) for cq in ORDER}
    # 1. periodic flags
    rad = {}
    for cq in ORDER:
        for ai, ax in enumerate(("AX", "AY", "AZ")):
            outs = set()
            for pattern in ((True, False), (False, True), (True, True)):
                bc = pf.BoundaryConditions(meshes[cq])
                for side, flag in zip(SIDEPAIRS[ai], pattern):
                    if flag:
                        getattr(bc, side).periodic = True
                try:
                    pf.boundaryConditionsTerm(bc); outs.add("ok")
                except ValueError:
                    outs.add("ValueError")
                except Exception as ex:
                    outs.add(type(ex).__name__)
            if outs == {"ValueError"}:
                rad[(cq, ax)] = True
            elif outs == {"ok"}:
                rad[(cq, ax)] = False
            else:
                raise TranslateError(f"{PYCLS[cq]}: periodic flags on axis {ax} give mixed outcomes {sorted(outs)}")
    # 2. solvePDE term classification
    m = meshes["G1"]
    def solve_with(term):
        phi = pf.CellVariable(m, 1.0)
        good = pf.linearSourceTerm(pf.CellVariable(m, 1.0))
        try:
            pf.solvePDE(phi, [good, term]); return "Accept"
        except TypeError:
            return "TypeErr"
        except ValueError:
            return "ValueErr"
        except AttributeError:
            return "AttrErr"
        except Exception as ex:
            return type(ex).__name__
    M = pf.linearSourceTerm(pf.CellVariable(m, 1.0)); v = pf.constantSourceTerm(pf.CellVariable(m, 1.0))
    flags = {
        "tuple_len_check": all(solve_with(t) == "TypeErr" for t in ((M,), (M, v, v), ())),
        "tuple_ndim_check": all(solve_with(t) == "TypeErr" for t in ((v, M), (M, M), (v, v), (None, v), (M, None), ("a", 3.0))),
        "ndim_guard": all(solve_with(t) == "TypeErr" for t in (None, "term", 3.0, object())),
        "ndim1": solve_with(v) == "Accept",
        "ndim2": solve_with(M) == "Accept" and solve_with((M, v)) == "Accept",
        "else_typeerror": all(solve_with(t) == "TypeErr" for t in (np.zeros((2, 2, 2)), np.float64(1.0))),
    }
    # 3. dispatch tables
    disp = {}
    FL = pf.fluxLimiter("SUPERBEE")
    for fname, modname in DISPATCHERS:
        mod = importlib.import_module("pyfvtool." + modname)
        fn = getattr(mod, fname)
        modfile = mod.__file__
        tab = {}
        for cq in ORDER:
            mesh = meshes[cq]
            u = pf.FaceVariable(mesh, 1.0); phi = pf.CellVariable(mesh, 1.0); bc = pf.BoundaryConditions(mesh)
            base = {"diffusionTerm": (u,), "convectionTerm": (u,), "convectionUpwindTerm": (u,), "convectionTVDupwindRHSTerm": (u, phi, FL),
                    "divergenceTerm": (u,), "boundaryConditionsTerm": (bc,), "cellValuesWithBoundaries": (np.ones(tuple(int(k) for k in mesh.dims)), bc)}[fname]
            extra = pf.FaceVariable(mesh, 1.0)
            def run(args):
                calls = []
                def prof(frame, event, arg):
                    if event == "call" and frame.f_code.co_filename == modfile:
                        nm = frame.f_code.co_name
                        if nm != fname and not nm.startswith("_") and not nm.startswith("<"):
                            calls.append((nm, any(val is extra for val in frame.f_locals.values())
                                          or any(isinstance(val, tuple) and any(x is extra for x in val) for val in frame.f_locals.values())))
                sys.setprofile(prof)
                try:
                    fn(*args)
                    err = None
                except Exception as ex:
                    err = ex
                finally:
                    sys.setprofile(None)
                return calls, err
            calls, err = run(base + (extra,))
            star = bool(calls) and calls[0][1]
            if not calls:
                calls, err = run(base)
            if not calls:
                raise TranslateError(f"{fname}: no per-class builder was called for {PYCLS[cq]} ({type(err).__name__ if err else 'no error'})")
            tab[cq] = (calls[0][0], star)
        disp[fname] = tab
    # 4. operator methods
    def dunders(cls):
        return [n for n, val in vars(cls).items() if n.startswith("__") and n.endswith("__") and callable(val)
                and n not in ("__class__", "__init_subclass__", "__subclasshook__", "__class_getitem__")]
    return rad, flags, disp, dunders(pf.CellVariable), dunders(pf.FaceVariable)


def translate(repo):
    ex_rad, ex_flags, ex_disp, ex_cell, ex_face = exec_facts(repo)
    try:
        return translate_ast(repo, (ex_rad, ex_flags, ex_disp, ex_cell, ex_face))
    except TranslateError as e:
        if "differ" in str(e):
            raise
        note = ("EXECUTION of the dispatchers / error branches on every grid class (the source text is not in the form the "
                "reader of the text accepts: " + str(e)[:140].replace("*)", "* )") + ")")
        return emit(ex_rad, ex_flags, ex_disp, ex_cell, ex_face, note)


def translate_ast(repo, ex):
    def parse(f):
        return ast.parse(open(os.path.join(repo, "src/pyfvtool", f)).read())
    b = parse("boundary.py"); p = parse("pdesolver.py")
    d = parse("diffusion.py"); a = parse("advection.py"); c = parse("calculus.py")
    bct = dispatch_table(fn(b, "boundaryConditionsTerm"))
    rad = {}
    for cq in ORDER:
        pr = periodic_raises(fn(b, bct[cq][0]))
        for ax in ("AX", "AY", "AZ"):
            r = pr.get(ax, set())
            rad[(cq, ax)] = (r == "ALL") or (cq in r)
    flags = solve_chain(fn(p, "solvePDE"))
    disp = {"diffusionTerm": dispatch_table(fn(d, "diffusionTerm")),
            "convectionTerm": dispatch_table(fn(a, "convectionTerm")),
            "convectionUpwindTerm": dispatch_table(fn(a, "convectionUpwindTerm")),
            "convectionTVDupwindRHSTerm": dispatch_table(fn(a, "convectionTVDupwindRHSTerm")),
            "divergenceTerm": dispatch_table(fn(c, "divergenceTerm")),
            "boundaryConditionsTerm": bct,
            "cellValuesWithBoundaries": dispatch_table(fn(b, "cellValuesWithBoundaries"))}
    def dunders(tree, cname):
        cl = [n for n in tree.body if isinstance(n, ast.ClassDef) and n.name == cname]
        if len(cl) != 1:
            raise TranslateError(f"class {cname} not found")
        out = []
        for fd in cl[0].body:
            if isinstance(fd, ast.FunctionDef) and fd.name.startswith("__") and fd.name.endswith("__"):
                # result must be a new object of the class built from operand values (never self)
                rets = [n for n in ast.walk(fd) if isinstance(n, ast.Return)]
                out.append(fd.name)
        return out
    cell_ops = dunders(parse("cell.py"), "CellVariable")
    face_ops = dunders(parse("face.py"), "FaceVariable")
    ex_rad, ex_flags, ex_disp, ex_cell, ex_face = ex
    if rad != ex_rad:
        raise TranslateError("periodic/ValueError table read from the text and observed by execution differ")
    if {k: bool(v) for k, v in flags.items()} != ex_flags:
        raise TranslateError(f"solvePDE term-chain flags read from the text and observed by execution differ: {flags} vs {ex_flags}")
    if {k: {c: tuple(v) for c, v in t.items()} for k, t in disp.items()} != ex_disp:
        raise TranslateError("dispatch tables read from the text and observed by execution differ")
    if set(cell_ops) - set(ex_cell) or set(face_ops) - set(ex_face):
        raise TranslateError("operator methods read from the text and found on the classes differ")
    return emit(rad, flags, disp, cell_ops, face_ops,
                "the source text (AST), cross-checked by executing the dispatchers / error branches on every grid class")


def emit(rad, flags, disp, cell_ops, face_ops, note):
    o = []
    w = o.append
    w("(* GENERATED by tools/tr_dispatch.py from boundary.py, pdesolver.py, diffusion.py, advection.py, calculus.py. DO NOT EDIT.")
    w("   derived from " + note + " *)")
    w("From Coq Require Import String List Bool.\nFrom PFV Require Import Grid.\nImport ListNotations.\nOpen Scope string_scope.")
    w("Definition periodic_raises_valueerror (g : gclass) (a : axis) : bool :=\n  match g, a with")
    for (cq, ax), v in rad.items():
        w(f"  | {cq}, {ax} => {'true' if v else 'false'}")
    w("  end.")
    for k, v in flags.items():
        w(f"Definition solve_{k} : bool := {'true' if v else 'false'}.")
    for name, tab in disp.items():
        w(f"Definition disp_{name} (g : gclass) : string * bool :=\n  match g with")
        for cq in ORDER:
            w(f'  | {cq} => ("{tab[cq][0]}", {"true" if tab[cq][1] else "false"})')
        w("  end.")
    w("Definition cell_dunders : list string := [" + "; ".join('"%s"' % x for x in cell_ops) + "].")
    w("Definition face_dunders : list string := [" + "; ".join('"%s"' % x for x in face_ops) + "].")
    return "\n".join(o) + "\n"


if __name__ == "__main__":
    repo = sys.argv[1] if len(sys.argv) > 1 else "/repo"
    dst = sys.argv[2] if len(sys.argv) > 2 else None
    try:
        txt = translate(repo)
    except TranslateError as e:
        print("TRANSLATE-ERROR:", e)
        sys.exit(2)
    if dst:
        old = open(dst).read() if os.path.exists(dst) else None
        if old != txt:
            open(dst, "w").write(txt)
    else:
        sys.stdout.write(txt)
