"""C05 - matrix terms vs explicit chain."""
import traceback
import lib
from common import run_suites
import probes

SUITES = ["diffusion", "conv_central", "conv_upwind", "tvd", "divergence", "gradient", "means"]
REL = lambda suite, b: suite != "means" or b.get("what") in ("linearMean", "upwindMean")


def run(ctx):
    import pyfvtool as pf
    ctx.rule = ("operator suites: seeded meshes of all 9 classes (N 1..3 quick / 1..5 thorough, graded dyadic faces, r=0 axis, offsets), "
                "dyadic coefficient fields with forced zeros and mixed signs; a case is non-trivial if some axis has N>=2 and spacing or a field "
                "is non-constant; distinct by content hash. impl_probe: the property's identity evaluated directly on the real code")
    ctx.prove("C05")
    from suites import symsuite
    run_suites(ctx, ["symbolic"], runner=symsuite.run_suite, relevant=symsuite.relevant_for(['diffusion', 'central', 'divergence', 'gradient', 'linmean', 'upwind', 'upwmean']))
    run_suites(ctx, SUITES, relevant=REL)
    try:
        n = probes.probe_c05(ctx, pf)
        ctx.add_cases("impl_probe", n, [f"c05probe{i}" for i in range(min(n, 50))])
    except Exception:
        ctx.broke("correspondence", "impl_probe/harness", traceback.format_exc()[-1200:])


def replay(path):
    import json
    print(open(path).read()[:4000])
    return 0
