(* C14: operators never write existing arrays, return fresh arrays, and carry the boundary conditions of the left-most
   variable operand -- for expression trees of any depth. *)
From Coq Require Import Arith List Bool Lia.
From PFV Require Import Algebra.
Import ListNotations.

Section AlgThy.
Variable fop : nat -> nat -> nat -> nat.
Variable ghost_of : nat -> list nat -> nat.
Local Notation binop := (binop fop ghost_of).
Local Notation unop := (unop fop ghost_of).
Local Notation eval := (eval fop ghost_of).

Definition extends (s s' : store) : Prop := exists ext, s' = s ++ ext.
Lemma extends_refl s : extends s s. Proof. exists []. rewrite app_nil_r. reflexivity. Qed.
Lemma extends_trans s1 s2 s3 : extends s1 s2 -> extends s2 s3 -> extends s1 s3.
Proof. intros [a ->] [b ->]. exists (a ++ b). rewrite app_assoc. reflexivity. Qed.
Lemma extends_content s s' l : extends s s' -> l < length s -> content s' l = content s l.
Proof. intros [ext ->] H. unfold content. apply app_nth1. exact H. Qed.
Lemma extends_length s s' : extends s s' -> length s <= length s'.
Proof. intros [ext ->]. rewrite app_length. lia. Qed.

Definition var_fresh (s : store) (r : avar) : Prop := length s <= a_val r /\ Forall (fun l => length s <= l) (a_bcs r).
Definition var_valid (s : store) (v : avar) : Prop := a_val v < length s /\ Forall (fun l => l < length s) (a_bcs v).

Lemma seq_ge a n : Forall (fun l => a <= l) (seq a n).
Proof. revert a. induction n as [|n IH]; intros a; cbn; constructor; [lia|]. eapply Forall_impl; [|apply IH]. cbn. intros; lia. Qed.
Lemma content_seq_app s cs : map (content (s ++ cs)) (seq (length s) (length cs)) = cs.
Proof.
  revert s. induction cs as [|c cs IH]; intros s; cbn; [reflexivity|]. f_equal.
  - unfold content. rewrite app_nth2 by lia. rewrite Nat.sub_diag. reflexivity.
  - replace (s ++ c :: cs) with ((s ++ [c]) ++ cs) by (rewrite <- app_assoc; reflexivity).
    replace (S (length s)) with (length (s ++ [c])) by (rewrite app_length; cbn; lia). apply IH.
Qed.

Lemma binop_spec code swap s v o s' r : binop code swap s v o = (s', r) ->
  extends s s' /\ var_fresh s r /\ map (content s') (a_bcs r) = map (content s) (a_bcs v) /\
  content s' (a_val r) = ghost_of (if swap then fop code (operand_content s o) (content s (a_val v))
                                   else fop code (content s (a_val v)) (operand_content s o))
                                  (map (content s) (a_bcs v)) /\
  var_valid s' r.
Proof.
  unfold Algebra.binop, alloc. intros E. injection E as <- <-. cbn [hd seq length a_val a_bcs].
  set (bcc := map (content s) (a_bcs v)). set (g := ghost_of _ bcc).
  repeat split.
  - exists (bcc ++ [g]). rewrite app_assoc. reflexivity.
  - cbn. rewrite app_length. lia.
  - cbn. apply seq_ge.
  - cbn [a_bcs]. 
    assert (E : map (content ((s ++ bcc) ++ [g])) (seq (length s) (length bcc)) = map (content (s ++ bcc)) (seq (length s) (length bcc))).
    { apply map_ext_in. intros l Hl. apply in_seq in Hl. apply extends_content; [exists [g]; reflexivity|rewrite app_length; lia]. }
    rewrite E. apply content_seq_app.
  - cbn [a_val]. unfold content. rewrite app_nth2 by lia. rewrite Nat.sub_diag. reflexivity.
  - cbn. rewrite !app_length. cbn. lia.
  - cbn [a_bcs]. apply Forall_forall. intros l Hl. apply in_seq in Hl. rewrite !app_length. cbn. lia.
Qed.

Definition is_application (e : expr) : bool := match e with EBin _ _ _ | EUn _ _ => true | _ => false end.
Definition operand_valid (s : store) (o : operand) : Prop :=
  match o with OVar v => var_valid s v | OArray l => l < length s | OScalar _ => True end.
Fixpoint expr_valid (s : store) (e : expr) : Prop :=
  match e with
  | EVar v => var_valid s v | EArray l => l < length s | EScalar _ => True
  | EUn _ e1 => expr_valid s e1 | EBin _ l r => expr_valid s l /\ expr_valid s r
  end.
Lemma var_valid_ext s s' v : extends s s' -> var_valid s v -> var_valid s' v.
Proof.
  intros Hx [A B]. pose proof (extends_length s s' Hx). split; [lia|]. eapply Forall_impl; [|exact B]. cbn. intros; lia.
Qed.
Lemma expr_valid_ext s s' e : extends s s' -> expr_valid s e -> expr_valid s' e.
Proof.
  intros Hx. pose proof (extends_length s s' Hx). induction e; cbn; intros H0; try tauto; try lia.
  apply (var_valid_ext s s'); assumption.
Qed.

(* the main induction: evaluation never writes existing arrays; the result operand is valid in the new store;
   the result is a variable iff the expression has a variable leaf, and then its BC contents are those of the
   left-most variable leaf (as they were before evaluation); results of operator applications are fresh *)
Definition result_ok (s s' : store) (e : expr) (o : operand) : Prop :=
  match o with
  | OVar r => exists v, leftmost e = Some v /\ map (content s') (a_bcs r) = map (content s) (a_bcs v)
                        /\ (is_application e = true -> var_fresh s r)
  | _ => leftmost e = None
  end.

Lemma bcs_carry s s2 s3 (v0 vl res : avar) :
  extends s2 s3 -> var_valid s2 vl ->
  map (content s3) (a_bcs res) = map (content s2) (a_bcs vl) ->
  map (content s2) (a_bcs vl) = map (content s) (a_bcs v0) ->
  map (content s3) (a_bcs res) = map (content s) (a_bcs v0).
Proof. intros _ _ E1 E2. rewrite E1. exact E2. Qed.

Lemma fresh_weaken s s2 r : extends s s2 -> var_fresh s2 r -> var_fresh s r.
Proof.
  intros X [Fa Fb]. pose proof (extends_length _ _ X). split; [lia|]. eapply Forall_impl; [|exact Fb]. cbn. intros; lia.
Qed.

Theorem eval_spec e : forall s s' o, expr_valid s e -> eval s e = (s', o) ->
  extends s s' /\ operand_valid s' o /\ result_ok s s' e o.
Proof.
  induction e as [v|c|l|code l IHl r IHr|code e1 IH]; intros s s' o Hv E; cbn [Algebra.eval] in E.
  - injection E as <- <-. split; [apply extends_refl|split; [exact Hv|]].
    exists v. split; [reflexivity|split; [reflexivity|intros Habs; discriminate Habs]].
  - injection E as <- <-. split; [apply extends_refl|split; [exact I|reflexivity]].
  - injection E as <- <-. split; [apply extends_refl|split; [exact Hv|reflexivity]].
  - destruct Hv as [Hvl Hvr].
    destruct (eval s l) as [s1 ol] eqn:El. destruct (eval s1 r) as [s2 or_] eqn:Er.
    destruct (IHl s s1 ol Hvl El) as (X1 & V1 & R1).
    destruct (IHr s1 s2 or_ (expr_valid_ext s s1 r X1 Hvr) Er) as (X2 & V2 & R2).
    pose proof (extends_trans _ _ _ X1 X2) as X12.
    destruct ol as [vl|cl|al].
    + (* left operand evaluates to a variable: its __op__ *)
      destruct (binop code false s2 vl or_) as [s3 res] eqn:Eb. injection E as <- <-.
      destruct (binop_spec _ _ _ _ _ _ _ Eb) as (X3 & F3 & B3 & _ & VV).
      split; [eapply extends_trans; eassumption|split; [exact VV|]].
      destruct R1 as (v0 & Lm & Bc & _). exists v0. cbn [leftmost]. rewrite Lm. split; [reflexivity|split].
      * rewrite B3, <- Bc. apply map_ext_in. intros x Hx. apply extends_content; [exact X2|].
        destruct V1 as [_ Vb]. rewrite Forall_forall in Vb. apply Vb. exact Hx.
      * intros _. apply (fresh_weaken s s2); assumption.
    + (* left is a scalar *)
      cbn in R1. destruct or_ as [vr|cr|ar].
      * destruct (binop code true s2 vr (OScalar cl)) as [s3 res] eqn:Eb. injection E as <- <-.
        destruct (binop_spec _ _ _ _ _ _ _ Eb) as (X3 & F3 & B3 & _ & VV).
        split; [eapply extends_trans; eassumption|split; [exact VV|]].
        destruct R2 as (v0 & Lm & Bc & _). exists v0. cbn [leftmost]. rewrite R1, Lm. split; [reflexivity|split].
        -- rewrite B3. rewrite Bc. apply map_ext_in. intros x Hx. apply extends_content; [exact X1|].
           (* v0 is a leaf of r, valid already in s *)
           clear -Hvr Lm Hx. revert v0 Lm x Hx. induction r; cbn in *; intros v0 Lm x Hx; try discriminate.
           ++ injection Lm as <-. destruct Hvr as [_ Vb]. rewrite Forall_forall in Vb. apply Vb. exact Hx.
           ++ destruct Hvr as [A B]. destruct (leftmost r1) eqn:Q; [injection Lm as <-; eapply IHr1; eauto|eapply IHr2; eauto].
           ++ eapply IHr; eauto.
        -- intros _. apply (fresh_weaken s s2); assumption.
      * injection E as <- <-. split; [exact X12|split; [exact I|]]. cbn [result_ok leftmost]. cbn in R2. rewrite R1, R2. reflexivity.
      * injection E as <- <-. split; [exact X12|split; [exact I|]]. cbn [result_ok leftmost]. cbn in R2. rewrite R1, R2. reflexivity.
    + (* left is a plain array *)
      cbn in R1. destruct or_ as [vr|cr|ar].
      * destruct (binop code true s2 vr (OArray al)) as [s3 res] eqn:Eb. injection E as <- <-.
        destruct (binop_spec _ _ _ _ _ _ _ Eb) as (X3 & F3 & B3 & _ & VV).
        split; [eapply extends_trans; eassumption|split; [exact VV|]].
        destruct R2 as (v0 & Lm & Bc & _). exists v0. cbn [leftmost]. rewrite R1, Lm. split; [reflexivity|split].
        -- rewrite B3. rewrite Bc. apply map_ext_in. intros x Hx. apply extends_content; [exact X1|].
           clear -Hvr Lm Hx. revert v0 Lm x Hx. induction r; cbn in *; intros v0 Lm x Hx; try discriminate.
           ++ injection Lm as <-. destruct Hvr as [_ Vb]. rewrite Forall_forall in Vb. apply Vb. exact Hx.
           ++ destruct Hvr as [A B]. destruct (leftmost r1) eqn:Q; [injection Lm as <-; eapply IHr1; eauto|eapply IHr2; eauto].
           ++ eapply IHr; eauto.
        -- intros _. apply (fresh_weaken s s2); assumption.
      * injection E as <- <-. split; [exact X12|split; [exact I|]]. cbn [result_ok leftmost]. cbn in R2. rewrite R1, R2. reflexivity.
      * injection E as <- <-. split; [exact X12|split; [exact I|]]. cbn [result_ok leftmost]. cbn in R2. rewrite R1, R2. reflexivity.
  - destruct (eval s e1) as [s1 o1] eqn:E1.
    destruct (IH s s1 o1 Hv E1) as (X1 & V1 & R1).
    destruct o1 as [v1|c1|a1].
    + destruct (unop code s1 v1) as [s2 res] eqn:Eb. injection E as <- <-.
      unfold Algebra.unop in Eb. destruct (binop_spec _ _ _ _ _ _ _ Eb) as (X3 & F3 & B3 & _ & VV).
      split; [eapply extends_trans; eassumption|split; [exact VV|]].
      destruct R1 as (v0 & Lm & Bc & _). exists v0. cbn [leftmost]. split; [exact Lm|split].
      * rewrite B3. exact Bc.
      * intros _. apply (fresh_weaken s s1); assumption.
    + injection E as <- <-. split; [exact X1|split; [exact I|exact R1]].
    + injection E as <- <-. split; [exact X1|split; [exact V1|exact R1]].
Qed.

(* corollaries in the words of the property *)
Corollary operands_unchanged e s s' o l : expr_valid s e -> eval s e = (s', o) -> l < length s -> content s' l = content s l.
Proof. intros Hv E Hl. destruct (eval_spec e s s' o Hv E) as (X & _). apply extends_content; assumption. Qed.
Corollary result_is_fresh e s s' r : expr_valid s e -> eval s e = (s', OVar r) -> is_application e = true -> var_fresh s r.
Proof. intros Hv E Ha. destruct (eval_spec e s s' _ Hv E) as (_ & _ & (v & _ & _ & F)). apply F. exact Ha. Qed.
Corollary result_carries_leftmost_bcs e s s' r : expr_valid s e -> eval s e = (s', OVar r) ->
  exists v, leftmost e = Some v /\ map (content s') (a_bcs r) = map (content s) (a_bcs v).
Proof. intros Hv E. destruct (eval_spec e s s' _ Hv E) as (_ & _ & (v & A & B & _)). exists v. split; assumption. Qed.

(* copy(): equal contents, fully fresh storage *)
Theorem copy_spec s v s' r : acopy s v = (s', r) ->
  extends s s' /\ var_fresh s r /\ content s' (a_val r) = content s (a_val v) /\ map (content s') (a_bcs r) = map (content s) (a_bcs v).
Proof.
  unfold acopy, alloc. intros E. injection E as <- <-. cbn [hd seq length a_val a_bcs].
  set (bcc := map (content s) (a_bcs v)). set (g := content s (a_val v)).
  repeat split.
  - exists (bcc ++ [g]). rewrite app_assoc. reflexivity.
  - cbn. rewrite app_length. lia.
  - cbn. apply seq_ge.
  - unfold content at 1. rewrite app_nth2 by lia. rewrite Nat.sub_diag. reflexivity.
  - assert (E : map (content ((s ++ bcc) ++ [g])) (seq (length s) (length bcc)) = map (content (s ++ bcc)) (seq (length s) (length bcc))).
    { apply map_ext_in. intros l Hl. apply in_seq in Hl. apply extends_content; [exists [g]; reflexivity|rewrite app_length; lia]. }
    rewrite E. apply content_seq_app.
Qed.
End AlgThy.
