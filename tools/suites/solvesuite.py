"""solve / explicit suites: solvePDE and solveExplicitPDE on random term lists and boundary conditions;
Coq evaluates the residual of the MODEL system (Model/Solver.v) at the implementation's answer."""
import random, traceback
import numpy as np
import lib, gen
from suites.operators import Emitter, coq_mesh, ql, case_key, ncases, nmax, finite, fv
from suites.bcsuite import set_random_bcs, coq_bcs, bc_label


def cv(name, mname, arr):
    return f"Definition {name} := cvar_of {mname} {ql(arr)}.\n"


def pad(mesh, inner):
    """interior array -> padded array with zero ghosts (model cvars are indexed on the padded grid)"""
    d = len(mesh.dims)
    full = np.zeros(tuple(int(n) + 2 for n in mesh.dims))
    full[tuple(slice(1, -1) for _ in range(d))] = inner
    return full


def random_terms(rng, pf, mesh, cname, phi_old, idx, mn, steady=False):
    """returns (python terms, coq defs, coq term list text, description, arrays)"""
    d = gen.DIM[cname]
    terms, defs, coq, desc, arrs = [], "", [], [], []
    def scale():
        return rng.choice([1.0, 1.0, 2.0, 0.5])
    dt = rng.choice([0.125, 0.5, 2.0])
    if not steady:
        if rng.random() < 0.5:
            alpha = rng.choice([1.0, 2.0, 0.5])
            terms.append(pf.transientTerm(phi_old, dt, alpha))
            a_arr = np.full(tuple(int(n) + 2 for n in mesh.dims), alpha)
            desc.append(f"transientTerm(dt={dt}, alpha={alpha})")
        else:
            a_in = np.abs(gen.cell_array(rng, mesh))[tuple(slice(1, -1) for _ in range(d))] + 0.5
            alpha = pf.CellVariable(mesh, a_in)
            terms.append(pf.transientTerm(phi_old, dt, alpha))
            a_arr = pad(mesh, a_in)
            desc.append(f"transientTerm(dt={dt}, alpha=CellVariable)")
        defs += cv(f"al{idx}", mn, a_arr)
        coq.append(f"TTrans QcOps al{idx} {lib.q_of(dt)} old{idx}")
        arrs.append(a_arr)
    kinds = ["diff", "upw", "cen", "lin", "const", "tvd", "diff"]
    rng.shuffle(kinds)
    nk = rng.randint(2, 5)
    chosen = kinds[:nk]
    if steady and "lin" not in chosen:
        chosen.append("lin")
    for j, kd in enumerate(chosen):
        s = scale()
        if kd == "diff":
            a = gen.face_arrays(rng, mesh, lo=0.0, hi=2.0, p0=0.1)
            D = pf.FaceVariable(mesh, *a)
            terms.append(-s * pf.diffusionTerm(D))
            defs += fv(f"D{idx}_{j}", mn, a)
            coq.append(f"TDiff QcOps {lib.q_of(-s)} D{idx}_{j}")
            desc.append(f"{-s}*diffusionTerm"); arrs += list(a)
        elif kd in ("upw", "cen"):
            a = gen.face_arrays(rng, mesh, lo=-1.0, hi=1.0, p0=0.2)
            u = pf.FaceVariable(mesh, *a)
            defs += fv(f"u{idx}_{j}", mn, a)
            if kd == "upw":
                terms.append(s * pf.convectionUpwindTerm(u))
                coq.append(f"TUpw QcOps {lib.q_of(s)} u{idx}_{j} u{idx}_{j}")
                desc.append(f"{s}*convectionUpwindTerm")
            else:
                terms.append(s * pf.convectionTerm(u))
                coq.append(f"TCen QcOps {lib.q_of(s)} u{idx}_{j}")
                desc.append(f"{s}*convectionTerm")
            arrs += list(a)
        elif kd == "lin":
            b_in = np.abs(gen.cell_array(rng, mesh))[tuple(slice(1, -1) for _ in range(d))] + (1.0 if steady else 0.0)
            beta = pf.CellVariable(mesh, b_in)
            terms.append(s * pf.linearSourceTerm(beta))
            defs += cv(f"be{idx}_{j}", mn, pad(mesh, b_in))
            coq.append(f"TLin QcOps {lib.q_of(s)} be{idx}_{j}")
            desc.append(f"{s}*linearSourceTerm"); arrs.append(b_in)
        elif kd == "const":
            g_in = gen.cell_array(rng, mesh)[tuple(slice(1, -1) for _ in range(d))]
            gamma = pf.CellVariable(mesh, g_in)
            sg = rng.choice([1.0, -1.0]) * s
            terms.append(sg * pf.constantSourceTerm(gamma))
            defs += cv(f"ga{idx}_{j}", mn, pad(mesh, g_in))
            coq.append(f"TConst QcOps {lib.q_of(sg)} ga{idx}_{j}")
            desc.append(f"{sg}*constantSourceTerm"); arrs.append(g_in)
        elif kd == "tvd":
            a = gen.face_arrays(rng, mesh, lo=-1.0, hi=1.0, p0=0.2)
            u = pf.FaceVariable(mesh, *a)
            FL = pf.fluxLimiter(rng.choice(["SUPERBEE", "Koren", "VanLeer"]))
            with np.errstate(all="ignore"):
                rhs = pf.convectionTVDupwindRHSTerm(u, phi_old, FL)
            if not np.all(np.isfinite(rhs)):
                continue
            terms.append(s * rhs)
            defs += cv(f"tv{idx}_{j}", mn, rhs)
            coq.append(f"TVec QcOps {lib.q_of(s)} tv{idx}_{j}")
            desc.append(f"{s}*TVD-RHS-vector"); arrs.append(rhs)
    order = list(range(len(terms)))
    rng.shuffle(order)
    terms = [terms[i] for i in order]; coq = [coq[i] for i in order]; desc = [desc[i] for i in order]
    return terms, defs, "[" + "; ".join(coq) + "]", desc, arrs, dt


def run_suite(suite, tier, seed):
    import pyfvtool as pf
    rng = random.Random(f"{suite}-{seed}")
    em = Emitter(suite)
    keys, samples, dist, skipped = [], [], {}, []
    ncase = 0
    reps = (ncases(tier) + 1) if tier == "quick" else 30
    for cname in gen.CLASSES:
        d = gen.DIM[cname]
        for k in range(reps):
            fs = gen.mesh_case(rng, cname, nmax=nmax(tier), uniform=(k % 5 == 4), nmin=1, big=(k % 20 == 1))
            mesh = gen.build_mesh(pf, cname, fs)
            label = {"cls": cname, "faces": [list(map(float, f)) for f in fs]}
            mn = f"m{ncase}"
            try:
                BC, bdesc, per = set_random_bcs(rng, mesh, cname)
                label["bc"] = bc_label(BC, d); label["kinds"] = bdesc
                ph = gen.cell_array(rng, mesh)
                inner = ph[tuple(slice(1, -1) for _ in range(d))]
                phi = pf.CellVariable(mesh, inner, BC)
                old_full = np.array(phi._value, dtype=float)
                label["phi_old_interior"] = inner.tolist()
                defs = coq_mesh(mn, cname, fs, mesh) + coq_bcs(f"b{ncase}", mn, BC, d) + cv(f"old{ncase}", mn, old_full)
                ver = []
                with np.errstate(all="ignore"):
                    if suite == "solve":
                        terms, tdefs, tcoq, tdesc, arrs, dt = random_terms(rng, pf, mesh, cname, phi, ncase, mn, steady=(k % 4 == 3))
                        label["terms"] = tdesc
                        from scipy.sparse.linalg import spsolve
                        spy = {}
                        def solver(M, RHS):
                            spy["M"], spy["RHS"] = M.copy(), RHS.copy()
                            spy["x"] = spsolve(M, RHS)
                            return spy["x"]
                        ret = pf.solvePDE(phi, terms, externalsolver=solver)
                        x = np.array(spy["x"], dtype=float).reshape(old_full.shape)
                        if not np.all(np.isfinite(x)) or np.max(np.abs(x)) > 1e6:
                            skipped.append({"cls": cname, "what": "solvePDE", "reason": "singular-or-ill-conditioned-case", "benign": True, "label": label})
                            ncase += 1
                            continue
                        defs += tdefs + cv(f"x{ncase}", mn, x)
                        ver.append(("solvePDE: residual of the model system at the solver's answer", f"check_solution {mn} b{ncase} {tcoq} x{ncase}"))
                        ver.append(("solvePDE: stored values = solved interior + recomputed boundary values", f"check_ghosts {mn} b{ncase} x{ncase} {ql(ret._value)}"))
                        ver.append(("solvePDE returns its argument", "true" if ret is phi else "false"))
                        # a second step on the SAME variable object: same dt, different alpha (stateful caches would show here)
                        if k % 2 == 0:
                            old2 = np.array(ret._value, dtype=float)
                            a2_in = np.abs(gen.cell_array(rng, mesh))[tuple(slice(1, -1) for _ in range(d))] + 0.75
                            D2a = gen.face_arrays(rng, mesh, lo=0.0, hi=2.0, p0=0.1)
                            t2 = [pf.transientTerm(ret, dt, pf.CellVariable(mesh, a2_in)), -pf.diffusionTerm(pf.FaceVariable(mesh, *D2a))]
                            spy2 = {}
                            def solver2(M, RHS):
                                spy2["x"] = spsolve(M, RHS); return spy2["x"]
                            pf.solvePDE(ret, t2, externalsolver=solver2)
                            x2 = np.array(spy2["x"], dtype=float).reshape(old_full.shape)
                            if np.all(np.isfinite(x2)) and np.max(np.abs(x2)) < 1e6:
                                defs += cv(f"sec_old{ncase}", mn, old2) + cv(f"sec_al{ncase}", mn, pad(mesh, a2_in)) + fv(f"sec_D{ncase}", mn, D2a) + cv(f"sec_x{ncase}", mn, x2)
                                ver.append(("solvePDE: second step on the same variable (same dt, new alpha)",
                                            f"check_solution {mn} b{ncase} [TTrans QcOps sec_al{ncase} {lib.q_of(dt)} sec_old{ncase}; TDiff QcOps {lib.q_of(-1.0)} sec_D{ncase}] sec_x{ncase}"))
                        # the default solver gives the same values
                        phi2 = pf.CellVariable(mesh, inner, BC)
                        first_val = np.array(x)
                        pf.solvePDE(phi2, terms)
                        ver.append(("solvePDE default solver = spied external solver", "true" if np.allclose(np.asarray(phi2._value)[tuple(slice(1, -1) for _ in range(d))], first_val[tuple(slice(1, -1) for _ in range(d))], rtol=1e-9, atol=1e-12) else "false"))
                    else:
                        a = gen.face_arrays(rng, mesh, lo=0.0, hi=2.0)
                        D = pf.FaceVariable(mesh, *a)
                        u = pf.FaceVariable(mesh, *gen.face_arrays(rng, mesh, lo=-1.0, hi=1.0))
                        rhs = pf.divergenceTerm(pf.FaceVariable(mesh, *[x * y for x, y in zip((D._xvalue, D._yvalue, D._zvalue),
                                                (pf.gradientTerm(phi)._xvalue, pf.gradientTerm(phi)._yvalue, pf.gradientTerm(phi)._zvalue))]))
                        rhs = rhs - pf.convectionUpwindTerm(u) @ phi._value.ravel()
                        dt = rng.choice([0.0625, 0.25, 1.0])
                        before = np.array(phi._value, dtype=float)
                        new = pf.solveExplicitPDE(phi, dt, rhs)
                        arrs = list(a)
                        label["dt"] = dt
                        defs += cv(f"r{ncase}", mn, rhs)
                        ver.append(("solveExplicitPDE", f"check_explicit {mn} b{ncase} old{ncase} {lib.q_of(dt)} r{ncase} {ql(new._value)}"))
                        ver.append(("solveExplicitPDE leaves its input untouched",
                                    "true" if (np.array_equal(before, phi._value) and new is not phi and not np.shares_memory(new._value, phi._value)) else "false"))
                em.add(defs, ver, label)
            except Exception:
                skipped.append({"cls": cname, "what": suite, "reason": "implementation raised", "trace": traceback.format_exc()[-700:], "label": label})
                ncase += 1
                continue
            if any(len(f) >= 3 for f in fs):
                keys.append(case_key(cname, fs, *arrs) + str(ncase))
            if len(samples) < 2 and ncase % 13 == 6:
                samples.append(label)
            dist[cname] = dist.get(cname, 0) + 1
            ncase += 1
    nchecks, bad, errors = em.run()
    skipped_real = [s for s in skipped if not s.get("benign")]
    dist["skipped_singular"] = len(skipped) - len(skipped_real)
    return {"suite": suite, "cases": ncase, "checks": nchecks, "bad": bad, "errors": errors, "skipped": skipped_real,
            "keys": sorted(set(keys)), "samples": samples, "dist": dist}
