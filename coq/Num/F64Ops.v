(* The binary64 instance of the operations record: Coq's primitive floats (IEEE 754 binary64, round to nearest even),
   i.e. the arithmetic numpy's float64 performs.  NOT a field: only the operations are used (generated definitions are
   functions of a FieldOps), no FieldLaws instance exists.  Imports PrimFloat only. *)
From Coq Require Import PrimFloat.
From PFV Require Import OField.

Definition FOps : FieldOps :=
  mkFieldOps float zero one PrimFloat.add PrimFloat.mul PrimFloat.sub PrimFloat.div PrimFloat.opp
    (fun x => PrimFloat.div one x) PrimFloat.leb PrimFloat.ltb PrimFloat.eqb.

(* comparison used by the bit-exact correspondence: equal as numbers (0 = -0), or both not finite *)
Definition fsame (a b : float) : bool :=
  if PrimFloat.eqb a b then true
  else andb (negb (PrimFloat.is_finite a)) (negb (PrimFloat.is_finite b)).
