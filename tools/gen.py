"""Seeded generators of structured, exactly representable inputs (meshes, coefficient fields)."""
import random
import numpy as np

CLASSES = ["Grid1D", "CylindricalGrid1D", "SphericalGrid1D", "Grid2D", "CylindricalGrid2D", "PolarGrid2D",
           "Grid3D", "CylindricalGrid3D", "SphericalGrid3D"]
COQCLS = {"Grid1D": "G1", "CylindricalGrid1D": "C1", "SphericalGrid1D": "S1", "Grid2D": "G2",
          "CylindricalGrid2D": "C2", "PolarGrid2D": "P2", "Grid3D": "G3", "CylindricalGrid3D": "C3",
          "SphericalGrid3D": "S3"}
DIM = {"Grid1D": 1, "CylindricalGrid1D": 1, "SphericalGrid1D": 1, "Grid2D": 2, "CylindricalGrid2D": 2,
       "PolarGrid2D": 2, "Grid3D": 3, "CylindricalGrid3D": 3, "SphericalGrid3D": 3}
# kind of each axis: 'len' (length-like), 'rad' (radial), 'ang' (angle up to 2pi), 'pol' (polar angle up to pi)
AXKIND = {"Grid1D": ["len"], "CylindricalGrid1D": ["rad"], "SphericalGrid1D": ["rad"],
          "Grid2D": ["len", "len"], "CylindricalGrid2D": ["rad", "len"], "PolarGrid2D": ["rad", "ang"],
          "Grid3D": ["len", "len", "len"], "CylindricalGrid3D": ["rad", "ang", "len"],
          "SphericalGrid3D": ["rad", "pol", "ang"]}


def faces(rng, kind, n, uniform=False):
    """n cells -> n+1 strictly increasing dyadic face positions"""
    if uniform:
        h = rng.choice([0.25, 0.5, 1.0, 0.125])
        steps = [h] * n
    else:
        steps = [rng.choice([0.125, 0.25, 0.375, 0.5, 0.75, 1.0, 1.5]) for _ in range(n)]
    if kind == "len":
        x0 = rng.choice([0.0, 0.0, -1.5, 2.0, 0.25])
    elif kind == "rad":
        x0 = rng.choice([0.0, 0.0, 0.5, 1.0, 0.125])
    elif kind == "ang":
        x0 = rng.choice([0.0, 0.0, 0.5])
        tot = sum(steps)
        lim = 6.25 - x0
        if tot > lim:
            sc = 2.0 ** -int(np.ceil(np.log2(tot / lim)))
            steps = [s * sc for s in steps]
    else:  # 'pol'
        x0 = rng.choice([0.0, 0.25, 0.5])
        tot = sum(steps)
        lim = 3.125 - x0
        if tot > lim:
            sc = 2.0 ** -int(np.ceil(np.log2(tot / lim)))
            steps = [s * sc for s in steps]
    xs = [x0]
    for s in steps:
        xs.append(xs[-1] + s)
    return np.array(xs, dtype=float)


BIG = {1: [(7, 9)], 2: [(5, 7), (4, 6)], 3: [(4, 5), (3, 4), (2, 4)]}


def mesh_case(rng, cname, nmax=3, uniform=False, nmin=1, big=False):
    """big=True: a case with many cells per axis (7-9 in 1D, about 6 x 5 in 2D, about 4 x 4 x 3 in 3D): index arithmetic that is right
    for the first few cells only (hard-coded extents, off-by-one beyond a size) needs more than the 1-3 cells of the other cases"""
    d = DIM[cname]
    cap = nmax if d < 3 else min(nmax, 3)
    ns = [rng.randint(nmin, cap) for _ in range(d)]
    if big:
        ns = [rng.randint(lo, hi) for lo, hi in BIG[d]]
        rng.shuffle(ns)
    fs = [faces(rng, AXKIND[cname][a], ns[a], uniform=uniform) for a in range(d)]
    return fs


def build_mesh(pf, cname, fs):
    return getattr(pf, cname)(*[np.array(f, dtype=float) for f in fs])


def dy(rng, lo=-3.0, hi=3.0, q=4, p0=0.15):
    """random dyadic in [lo,hi] with step 1/q; exact zero with probability p0"""
    if rng.random() < p0:
        return 0.0
    return rng.randint(int(lo * q), int(hi * q)) / q


def face_arrays(rng, mesh, lo=-3.0, hi=3.0, p0=0.15, q=4):
    dims = [int(n) for n in mesh.dims]
    d = len(dims)
    def arr(shape):
        return np.array([dy(rng, lo, hi, q, p0) for _ in range(int(np.prod(shape)))], dtype=float).reshape(shape)
    if d == 1:
        return arr((dims[0] + 1,)), np.array([]), np.array([])
    if d == 2:
        return arr((dims[0] + 1, dims[1])), arr((dims[0], dims[1] + 1)), np.array([])
    return (arr((dims[0] + 1, dims[1], dims[2])), arr((dims[0], dims[1] + 1, dims[2])),
            arr((dims[0], dims[1], dims[2] + 1)))


def cell_array(rng, mesh, lo=-2.0, hi=2.0, p0=0.1, q=4):
    shape = tuple(int(n) + 2 for n in mesh.dims)
    return np.array([dy(rng, lo, hi, q, p0) for _ in range(int(np.prod(shape)))], dtype=float).reshape(shape)


def nontrivial(fs, *arrays):
    """some axis has N>=2 and (non-uniform spacing or a non-constant array)"""
    if not any(len(f) >= 3 for f in fs):
        return False
    nonuni = any(len(set(np.round(np.diff(f), 12))) > 1 for f in fs)
    noncst = any(a.size > 1 and np.ptp(a) > 0 for a in arrays if isinstance(a, np.ndarray))
    return nonuni or noncst
