"""bc_ghost / bc_rows suites: cellValuesWithBoundaries and boundaryConditionsTerm of every class  vs  Model/Boundary.v"""
import random, traceback
import numpy as np
import lib, gen
from suites.operators import Emitter, coq_mesh, coq_rows, ql, case_key, ncases, nmax, AXN, finite

SIDES = [("left", "right"), ("bottom", "top"), ("back", "front")]


def set_random_bcs(rng, mesh, cname, allow_periodic=True, kinds=None):
    """returns (BC object, description dict).  Robin coefficients are face-wise arrays."""
    import pyfvtool as pf
    BC = pf.BoundaryConditions(mesh)
    d = gen.DIM[cname]
    desc = {}
    per = [False, False, False]
    for ax in range(d):
        radial = gen.AXKIND[cname][ax] == "rad"
        if allow_periodic and not radial and rng.random() < 0.3:
            which = rng.choice(["lo", "hi", "both"])
            if which in ("lo", "both"):
                getattr(BC, SIDES[ax][0]).periodic = True
            if which in ("hi", "both"):
                getattr(BC, SIDES[ax][1]).periodic = True
            per[ax] = True
            desc[SIDES[ax][0]] = desc[SIDES[ax][1]] = "periodic(" + which + ")"
        for s, side in enumerate(SIDES[ax]):
            face = getattr(BC, side)
            shape = face.a.shape
            kind = rng.choice(kinds or ["dirichlet", "neumann", "robin", "robin", "default"])
            n = int(np.prod(shape))
            if kind == "dirichlet":
                face.a[:] = 0.0; face.b[:] = 1.0
                face.c[:] = np.array([gen.dy(rng, -2, 2, 4, 0.1) for _ in range(n)]).reshape(face.c.shape)
            elif kind == "neumann":
                face.a[:] = 1.0; face.b[:] = 0.0
                face.c[:] = np.array([gen.dy(rng, -2, 2, 4, 0.3 if kinds is None else 0.0) or 0.75 for _ in range(n)]).reshape(face.c.shape) if kinds else \
                    np.array([gen.dy(rng, -2, 2, 4, 0.3) for _ in range(n)]).reshape(face.c.shape)
            elif kind == "robin":
                sgn = 1.0 if s == 1 else -1.0     # outward normal: keeps a/h + b/2 away from 0
                face.a[:] = sgn * np.array([rng.choice([0.25, 0.5, 1.0, 2.0]) for _ in range(n)]).reshape(shape)
                face.b[:] = np.array([rng.choice([0.5, 1.0, 3.0, 0.25]) for _ in range(n)]).reshape(shape)
                face.c[:] = np.array([gen.dy(rng, -2, 2, 4, 0.1) for _ in range(n)]).reshape(face.c.shape)
            if side not in desc:
                desc[side] = kind
            elif not desc[side].startswith("periodic"):
                desc[side] = kind
    return BC, desc, per


def coq_bcs(name, mname, BC, d):
    def lists(ax):
        if ax >= d:
            return "[]"
        lo = getattr(BC, SIDES[ax][0]); hi = getattr(BC, SIDES[ax][1])
        return "[" + "; ".join(ql(np.asarray(x)) for x in (lo.a, lo.b, lo.c, hi.a, hi.b, hi.c)) + "]"
    per = []
    for ax in range(3):
        if ax < d:
            lo = getattr(BC, SIDES[ax][0]); hi = getattr(BC, SIDES[ax][1])
            per.append("true" if (lo.periodic or hi.periodic) else "false")
        else:
            per.append("false")
    return f"Definition {name} := mk_bcs {mname} {per[0]} {per[1]} {per[2]} {lists(0)} {lists(1)} {lists(2)}.\n"


def bc_label(BC, d):
    out = {}
    for ax in range(d):
        for side in SIDES[ax]:
            f = getattr(BC, side)
            out[side] = {"a": np.asarray(f.a).tolist(), "b": np.asarray(f.b).tolist(), "c": np.asarray(f.c).tolist(),
                         "periodic": bool(f.periodic)}
    return out


def run_suite(suite, tier, seed):
    import pyfvtool as pf
    from pyfvtool import boundary as bmod
    rng = random.Random(f"{suite}-{seed}")
    em = Emitter(suite)
    keys, samples, dist, skipped = [], [], {}, []
    ncase = 0
    reps = 16 if tier == "quick" else 60
    SYSTEMATIC = ["robin", "neumann", "dirichlet"]
    for cname in gen.CLASSES:
        d = gen.DIM[cname]
        for k in range(reps):
            if k < len(SYSTEMATIC):
                # systematic: graded mesh with N = 3 on every axis (first and last cell sizes differ), every side of the same
                # non-periodic kind with face-wise coefficients
                fs = [gen.faces(rng, gen.AXKIND[cname][a], 3) for a in range(d)]
                for f in fs:
                    if abs((f[1] - f[0]) - (f[-1] - f[-2])) < 1e-12:
                        f[-1] = f[-1] + (f[-1] - f[-2]) / 2
            else:
                fs = gen.mesh_case(rng, cname, nmax=nmax(tier), uniform=(k % 5 == 4), nmin=1, big=(k % 20 == 7))
            mesh = gen.build_mesh(pf, cname, fs)
            label = {"cls": cname, "faces": [list(map(float, f)) for f in fs]}
            try:
                if k < len(SYSTEMATIC):
                    BC, desc, per = set_random_bcs(rng, mesh, cname, allow_periodic=False, kinds=[SYSTEMATIC[k]])
                else:
                    BC, desc, per = set_random_bcs(rng, mesh, cname)
                label["bc"] = bc_label(BC, d); label["kinds"] = desc
                mn = f"m{ncase}"
                defs = coq_mesh(mn, cname, fs, mesh) + coq_bcs(f"b{ncase}", mn, BC, d)
                ver = []
                with np.errstate(all="ignore"):
                    if suite == "bc_rows":
                        M, rhs = pf.boundaryConditionsTerm(BC)
                        ver.append(("boundaryConditionsTerm[M]", f"check_bc_matrix {mn} b{ncase} {coq_rows(M)}"))
                        ver.append(("boundaryConditionsTerm[RHS]", f"check_bc_rhs {mn} b{ncase} {ql(rhs)}"))
                        ok = finite(M, rhs)
                        arrs = ()
                    else:
                        ph = gen.cell_array(rng, mesh)
                        inner = ph[tuple(slice(1, -1) for _ in range(d))]
                        full = pf.boundary.cellValuesWithBoundaries(inner, BC)
                        label["phi_interior"] = inner.tolist()
                        defs += f"Definition p{ncase} := cvar_of {mn} {ql(ph)}.\n"
                        ver.append(("cellValuesWithBoundaries", f"check_ghosts {mn} b{ncase} p{ncase} {ql(full)}"))
                        ok = finite(full)
                        arrs = (ph,)
                        # the same through the CellVariable constructor and apply_BCs
                        cv = pf.CellVariable(mesh, inner, BC)
                        ver.append(("CellVariable(mesh, interior, BC)._value", f"check_ghosts {mn} b{ncase} p{ncase} {ql(cv._value)}"))
                if not ok:
                    skipped.append({"cls": cname, "what": suite, "reason": "non-finite output", "label": label})
                    ncase += 1
                    continue
                em.add(defs, ver, label)
            except Exception:
                skipped.append({"cls": cname, "what": suite, "reason": "implementation raised", "trace": traceback.format_exc()[-700:], "label": label})
                ncase += 1
                continue
            if any(len(f) >= 3 for f in fs):
                keys.append(case_key(cname, fs, *arrs) + str(ncase))
            if len(samples) < 2 and ncase % 11 == 5:
                samples.append(label)
            dist[cname] = dist.get(cname, 0) + 1
            for sd, kd in desc.items():
                dist["kind:" + kd] = dist.get("kind:" + kd, 0) + 1
            ncase += 1
    nchecks, bad, errors = em.run()
    return {"suite": suite, "cases": ncase, "checks": nchecks, "bad": bad, "errors": errors, "skipped": skipped,
            "keys": sorted(set(keys)), "samples": samples, "dist": dist}
