From Coq Require Import ZArith Reals Lra Lia Bool Floats String List.
From Flocq Require Import Core.Core IEEE754.BinarySingleNaN.
From PFV Require Import OField KOps F64Ops FloatThy Limiters LimiterThy.
Import ListNotations.
Local Open Scope R_scope.

Ltac unfold_model :=
  cbv [FL_dispatch FL_CHARM FL_HCUS FL_HQUICK FL_ospre FL_VanLeer FL_VanAlbada1 FL_VanAlbada2 FL_MinMod FL_SUPERBEE FL_Osher FL_Sweby
       FL_smart FL_Koren FL_MUSCL FL_QUICK FL_UMIST FL_fallback
       kadd kmul kdiv ksub kopp kinv kleb kltb keqb k0 k1 K FOps kofZ kofpos kofQ kofnat b2k kabs kmin kmax ksign].

Lemma float_VanLeer eps r : fin 500 r -> fin 1002 (FL_VanLeer FOps eps r).
Proof. intro Hr. unfold_model. eapply fin_weaken; [fin_tac|vm_compute; discriminate]. Qed.
Lemma float_VanAlbada1 eps r : fin 500 r -> fin 1002 (FL_VanAlbada1 FOps eps r).
Proof. intro Hr. unfold_model. eapply fin_weaken; [fin_tac|vm_compute; discriminate]. Qed.
Lemma float_VanAlbada2 eps r : fin 500 r -> fin 1002 (FL_VanAlbada2 FOps eps r).
Proof. intro Hr. unfold_model. eapply fin_weaken; [fin_tac|vm_compute; discriminate]. Qed.
Lemma float_MinMod eps r : fin 500 r -> fin 1002 (FL_MinMod FOps eps r).
Proof. intro Hr. unfold_model. eapply fin_weaken; [fin_tac|vm_compute; discriminate]. Qed.
Lemma float_SUPERBEE eps r : fin 500 r -> fin 1002 (FL_SUPERBEE FOps eps r).
Proof. intro Hr. unfold_model. eapply fin_weaken; [fin_tac|vm_compute; discriminate]. Qed.
Lemma float_Osher eps r : fin 500 r -> fin 1002 (FL_Osher FOps eps r).
Proof. intro Hr. unfold_model. eapply fin_weaken; [fin_tac|vm_compute; discriminate]. Qed.
Lemma float_Sweby eps r : fin 500 r -> fin 1002 (FL_Sweby FOps eps r).
Proof. intro Hr. unfold_model. eapply fin_weaken; [fin_tac|vm_compute; discriminate]. Qed.
Lemma float_smart eps r : fin 500 r -> fin 1002 (FL_smart FOps eps r).
Proof. intro Hr. unfold_model. eapply fin_weaken; [fin_tac|vm_compute; discriminate]. Qed.
Lemma float_Koren eps r : fin 500 r -> fin 1002 (FL_Koren FOps eps r).
Proof. intro Hr. unfold_model. eapply fin_weaken; [fin_tac|vm_compute; discriminate]. Qed.
Lemma float_MUSCL eps r : fin 500 r -> fin 1002 (FL_MUSCL FOps eps r).
Proof. intro Hr. unfold_model. eapply fin_weaken; [fin_tac|vm_compute; discriminate]. Qed.
Lemma float_QUICK eps r : fin 500 r -> fin 1002 (FL_QUICK FOps eps r).
Proof. intro Hr. unfold_model. eapply fin_weaken; [fin_tac|vm_compute; discriminate]. Qed.
Lemma float_UMIST eps r : fin 500 r -> fin 1002 (FL_UMIST FOps eps r).
Proof. intro Hr. unfold_model. eapply fin_weaken; [fin_tac|vm_compute; discriminate]. Qed.
Lemma float_fallback eps r : fin 500 r -> fin 1002 (FL_fallback FOps eps r).
Proof. intro Hr. unfold_model. eapply fin_weaken; [fin_tac|vm_compute; discriminate]. Qed.

Lemma float_fsign eps1 x : fin 0 eps1 -> fin 1000 x -> fin 1010 (fsign FOps eps1 x).
Proof. intros He Hx. cbv [fsign]. unfold_model. eapply fin_weaken; [fin_tac|vm_compute; discriminate]. Qed.

(* the names whose binary64 evaluation is proved free of overflow / invalid operations for |r| <= 2^500 *)
Definition float_safe_names : list string :=
  ["VanLeer"; "VanAlbada1"; "VanAlbada2"; "MinMod"; "SUPERBEE"; "Osher"; "Sweby"; "smart"; "Koren"; "MUSCL"; "QUICK"; "UMIST"]%string.

Lemma float_safe_dispatch name eps r : In name float_safe_names -> fin 500 r -> fin 1002 (FL_dispatch FOps name eps r).
Proof.
  intros Hn Hr. simpl in Hn.
  repeat (destruct Hn as [Hn'|Hn]; [subst name; first
    [ apply float_VanLeer | apply float_VanAlbada1 | apply float_VanAlbada2 | apply float_MinMod | apply float_SUPERBEE
    | apply float_Osher | apply float_Sweby | apply float_smart | apply float_Koren | apply float_MUSCL | apply float_QUICK
    | apply float_UMIST ]; exact Hr|]).
  contradiction.
Qed.

Lemma float_unknown_name name eps r : ~ In name FL_names -> fin 500 r -> fin 1002 (FL_dispatch FOps name eps r).
Proof.
  intros Hn Hr. rewrite (unknown_name_superbee FOps name eps r Hn). apply float_SUPERBEE. exact Hr.
Qed.

(* beyond the square root of the largest float the rational limiters overflow: r*r = inf, inf/inf = nan *)
Definition big_r : PrimFloat.float := 0x1p+520%float.
Lemma float_overflow_witness :
  PrimFloat.is_finite big_r = true /\
  Forall (fun name => PrimFloat.is_nan (FL_dispatch FOps name (eps_default FOps) big_r) = true)
         ["CHARM"; "ospre"; "VanAlbada1"]%string /\
  PrimFloat.is_nan (FL_dispatch FOps "VanAlbada2" (eps_default FOps) 0x1p+1023%float) = true /\
  Forall (fun name => PrimFloat.is_finite (FL_dispatch FOps name (eps_default FOps) 0x1p+1023%float) = false)
         ["HCUS"; "HQUICK"; "VanLeer"]%string.
Proof. vm_compute. repeat constructor. Qed.

Lemma fin_finite k f : fin k f -> PrimFloat.is_finite f = true.
Proof. intros [F _]. rewrite Flocq.IEEE754.PrimFloat.is_finite_equiv. exact F. Qed.
