(* C08 — Redundant axes, axis relabelling, mirroring and periodic shifts change nothing.
   In the model every N-D operator is the SUM over the active axes of one and the same per-axis stencil (Model/Ops.v), the metric
   weights of an axis do not depend on the presence of other axes, and the stencil is symmetric under index reversal by
   construction; the assurance that the CODE has these symmetries comes from the per-axis correspondence of every builder
   (Mx, My, Mz compared separately) and from the paired-grid probes on the implementation.  Proved here: the block of an axis
   along which the field does not vary reduces to value * div(u) (zero for diffusion, zero altogether for invariant velocity). *)
From Coq Require Import Arith List.
From PFV Require Import OField KOps Grid Ops StencilThy SymmetryThy.

Theorem C08_diffusion_block_vanishes : forall (F : FieldOps) (L : FieldLaws F) (m : Mesh F) (D : fvar F) (x : cvar F) a c,
  constant_along F x a c -> apply_axis F (diffAW F m D) (diffAP F m D) (diffAE F m D) x a c = k0 F.
Proof. exact diffusion_block_vanishes. Qed.
Print Assumptions C08_diffusion_block_vanishes.
Theorem C08_central_block : forall (F : FieldOps) (L : FieldLaws F) (m : Mesh F) (u : fvar F) (x : cvar F) a c,
  constant_along F x a c -> 1 <= cidx a c ->
  mW F m a (cidx a c) <> k0 F -> mDX F m a (cidx a c) <> k0 F ->
  kadd F (mDX F m a (cidx a c)) (mDX F m a (S (cidx a c))) <> k0 F ->
  kadd F (mDX F m a (cidx a c)) (mDX F m a (pred (cidx a c))) <> k0 F ->
  apply_axis F (cenAW F m u) (cenAP F m u) (cenAE F m u) x a c = kmul F (x c) (divrow F m u a c).
Proof. exact central_block_on_invariant_field. Qed.
Print Assumptions C08_central_block.
Theorem C08_upwind_block : forall (F : FieldOps) (L : FieldLaws F) (m : Mesh F) (u uup : fvar F) (x : cvar F) a c,
  constant_along F x a c -> 1 <= cidx a c -> cidx a c <= mN F m a -> mW F m a (cidx a c) <> k0 F ->
  (uup a c = k0 F -> u a c = k0 F) -> (uup a (cdn a c) = k0 F -> u a (cdn a c) = k0 F) ->
  apply_axis F (upwAW F m u uup) (upwAP F m u uup) (upwAE F m u uup) x a c = kmul F (x c) (divrow F m u a c).
Proof. exact upwind_block_on_invariant_field. Qed.
Print Assumptions C08_upwind_block.
Theorem C08_invariant_velocity : forall (F : FieldOps) (L : FieldLaws F) (m : Mesh F) (u : fvar F) a c,
  kmul F (mA F m a (cidx a c)) (u a c) = kmul F (mA F m a (pred (cidx a c))) (u a (cdn a c)) -> divrow F m u a c = k0 F.
Proof. exact divrow_of_invariant_velocity. Qed.
Print Assumptions C08_invariant_velocity.
