(* C11: cell-to-face means. Generic-field identities (constants, linear exactness, donor cell) and, over R,
   bounds and the ordering harmonic <= geometric <= arithmetic with the same width weights. *)
From Coq Require Import Reals Lra Psatz Arith List Bool Field Lia.
From PFV Require Import OField KOps Grid Ops StencilThy.
Local Close Scope R_scope.

Section MeansGeneric.
Variable F : FieldOps.
Variable L : FieldLaws F.
Add Field FFmn : (FL_field F L).
Local Notation K := (K F).
Local Notation "0" := (k0 F).
Local Infix "+" := (kadd F).
Local Infix "*" := (kmul F).
Local Infix "-" := (ksub F).
Local Infix "/" := (kdiv F).
Local Notation two := (kadd F (k1 F) (k1 F)).
Local Notation Mesh := (Mesh F).

Theorem linmean_const (m : Mesh) (k : K) a c :
  mDX F m a (S (cidx a c)) + mDX F m a (cidx a c) <> 0 -> linmean F m (fun _ => k) a c = k.
Proof. intros H. unfold linmean. field. exact H. Qed.
Theorem arithmean_const (m : Mesh) (k : K) a c :
  mDX F m a (S (cidx a c)) + mDX F m a (cidx a c) <> 0 -> arithmean F m (fun _ => k) a c = k.
Proof. intros H. unfold arithmean. field. exact H. Qed.
Theorem harmmean_const (m : Mesh) (k : K) a c :
  k <> 0 -> mDX F m a (S (cidx a c)) + mDX F m a (cidx a c) <> 0 -> harmmean F m (fun _ => k) a c = k.
Proof.
  intros Hk H. unfold harmmean.
  assert (E : keqb F k 0 = false).
  { destruct (keqb F k 0) eqn:E; [|reflexivity]. apply (FL_eqb F L) in E. contradiction. }
  rewrite E. cbn [orb]. field. split; [exact Hk|].
  intro H1. apply H. rewrite <- H1. ring.
Qed.
(* linearMean reproduces linear fields exactly at the face, for any spacing: the two cell centres sit half a
   cell size to the left / right of the face (ghost centres included, by the ghost size) *)
Theorem linmean_linear_exact (m : Mesh) (al be xf : K) (phi : cvar F) a c :
  mDX F m a (S (cidx a c)) + mDX F m a (cidx a c) <> 0 ->
  phi c = al + be * (xf - mDX F m a (cidx a c) / two) ->
  phi (cup a c) = al + be * (xf + mDX F m a (S (cidx a c)) / two) ->
  linmean F m phi a c = al + be * xf.
Proof.
  intros H E1 E2. unfold linmean. rewrite E1, E2. pose proof (two_neq_0 F L) as H2. field. auto.
Qed.
(* upwindMean: donor cell (boundary-averaged on boundary faces) *)
Theorem upwindmean_donor (m : Mesh) (phi : cvar F) (u : fvar F) a c :
  (kltb F 0 (u a c) = true -> upwindmean F m phi u a c = bval F m phi a c) /\
  (kltb F (u a c) 0 = true -> upwindmean F m phi u a c = bval F m phi a (cup a c)).
Proof.
  unfold upwindmean, b2k.
  destruct (ltb_tri F L (u a c)) as [(A & B & C)|[(A & B & C)|(A & B & C)]]; rewrite A, B, C; split; intros H;
    try discriminate H; ring.
Qed.
End MeansGeneric.

(* ---------------- over R ---------------- *)
Local Open Scope R_scope.
(* the three weighted means of two positive numbers a, b with positive weights w1, w2 (w1 = size of the cell
   holding a), exactly as in averaging.py *)
Definition Amean (w1 w2 a b : R) : R := (w1 * a + w2 * b) / (w2 + w1).
Definition Gmean (w1 w2 a b : R) : R := exp ((w1 * ln a + w2 * ln b) / (w2 + w1)).
Definition Hmean (w1 w2 a b : R) : R := (w2 + w1) / (w2 / b + w1 / a).
Definition Lmean (w1 w2 a b : R) : R := (w2 * a + w1 * b) / (w2 + w1).   (* linearMean: swapped weights *)

Lemma arithmean_R (m : Mesh ROps) phi a c :
  arithmean ROps m phi a c = Amean (mDX ROps m a (cidx a c)) (mDX ROps m a (S (cidx a c))) (phi c) (phi (cup a c)).
Proof. reflexivity. Qed.
Lemma linmean_R (m : Mesh ROps) phi a c :
  linmean ROps m phi a c = Lmean (mDX ROps m a (cidx a c)) (mDX ROps m a (S (cidx a c))) (phi c) (phi (cup a c)).
Proof. reflexivity. Qed.
Lemma harmmean_R (m : Mesh ROps) phi a c : phi c <> 0 -> phi (cup a c) <> 0 ->
  harmmean ROps m phi a c = Hmean (mDX ROps m a (cidx a c)) (mDX ROps m a (S (cidx a c))) (phi c) (phi (cup a c)).
Proof.
  intros H1 H2. unfold harmmean, Hmean. cbn [keqb ROps K k0]. unfold R_eqb.
  destruct (Req_EM_T (phi c) 0); [contradiction|]. destruct (Req_EM_T (phi (cup a c)) 0); [contradiction|].
  reflexivity.
Qed.

Lemma div_between w1 w2 x lo hi : 0 < w1 -> 0 < w2 -> lo * (w2 + w1) <= x <= hi * (w2 + w1) -> lo <= x / (w2 + w1) <= hi.
Proof.
  intros H1 H2 [Hl Hh]. assert (Hs : 0 < w2 + w1) by lra. split.
  - apply Rmult_le_reg_r with (w2 + w1); [exact Hs|]. unfold Rdiv. rewrite Rmult_assoc, Rinv_l by lra. lra.
  - apply Rmult_le_reg_r with (w2 + w1); [exact Hs|]. unfold Rdiv. rewrite Rmult_assoc, Rinv_l by lra. lra.
Qed.
Theorem Amean_between w1 w2 a b : 0 < w1 -> 0 < w2 -> Rmin a b <= Amean w1 w2 a b <= Rmax a b.
Proof.
  intros H1 H2. unfold Amean. apply div_between; try assumption.
  unfold Rmin, Rmax. destruct (Rle_dec a b); split; nra.
Qed.
Theorem Lmean_between w1 w2 a b : 0 < w1 -> 0 < w2 -> Rmin a b <= Lmean w1 w2 a b <= Rmax a b.
Proof.
  intros H1 H2. unfold Lmean. apply div_between; try assumption.
  unfold Rmin, Rmax. destruct (Rle_dec a b); split; nra.
Qed.
(* weighted AM-GM from 1 + x <= exp x *)
Theorem G_le_A w1 w2 a b : 0 < w1 -> 0 < w2 -> 0 < a -> 0 < b -> Gmean w1 w2 a b <= Amean w1 w2 a b.
Proof.
  intros H1 H2 Ha Hb. unfold Gmean, Amean.
  set (s := w2 + w1). assert (Hs : 0 < s) by (unfold s; lra).
  set (mm := (w1 * ln a + w2 * ln b) / s).
  assert (Ea : a = exp mm * exp (ln a - mm)) by (rewrite <- exp_plus; replace (mm + (ln a - mm)) with (ln a) by ring; symmetry; apply exp_ln; exact Ha).
  assert (Eb : b = exp mm * exp (ln b - mm)) by (rewrite <- exp_plus; replace (mm + (ln b - mm)) with (ln b) by ring; symmetry; apply exp_ln; exact Hb).
  pose proof (exp_ineq1_le (ln a - mm)) as Ia. pose proof (exp_ineq1_le (ln b - mm)) as Ib.
  pose proof (exp_pos mm) as Hg.
  assert (Hmm : w1 * (ln a - mm) + w2 * (ln b - mm) = 0).
  { unfold mm, s. field. lra. }
  assert (Goal' : exp mm * s <= w1 * a + w2 * b).
  { assert (H : w1 * (exp mm * (1 + (ln a - mm))) + w2 * (exp mm * (1 + (ln b - mm)))
                <= w1 * (exp mm * exp (ln a - mm)) + w2 * (exp mm * exp (ln b - mm))).
    { apply Rplus_le_compat; apply Rmult_le_compat_l; try lra; apply Rmult_le_compat_l; lra. }
    assert (E : w1 * (exp mm * (1 + (ln a - mm))) + w2 * (exp mm * (1 + (ln b - mm)))
                = exp mm * s + exp mm * (w1 * (ln a - mm) + w2 * (ln b - mm))).
    { unfold s. ring. }
    rewrite E, Hmm in H. rewrite <- Ea, <- Eb in H. lra. }
  apply Rmult_le_reg_r with s; [exact Hs|].
  replace ((w1 * a + w2 * b) / s * s) with (w1 * a + w2 * b) by (field; lra). exact Goal'.
Qed.
Theorem H_le_G w1 w2 a b : 0 < w1 -> 0 < w2 -> 0 < a -> 0 < b -> Hmean w1 w2 a b <= Gmean w1 w2 a b.
Proof.
  intros H1 H2 Ha Hb.
  pose proof (G_le_A w1 w2 (/ a) (/ b) H1 H2 (Rinv_0_lt_compat _ Ha) (Rinv_0_lt_compat _ Hb)) as H.
  unfold Gmean, Amean in H. rewrite !ln_Rinv in H by assumption.
  unfold Hmean, Gmean.
  set (s := w2 + w1) in *. assert (Hs : 0 < s) by (unfold s; lra).
  set (mm := (w1 * ln a + w2 * ln b) / s).
  replace ((w1 * - ln a + w2 * - ln b) / s) with (- mm) in H by (unfold mm; field; lra).
  rewrite exp_Ropp in H.
  assert (Hd : 0 < w2 / b + w1 / a).
  { apply Rplus_lt_0_compat; apply Rdiv_lt_0_compat; assumption. }
  assert (Hq : (w1 * / a + w2 * / b) / s = (w2 / b + w1 / a) / s) by (unfold Rdiv; ring).
  rewrite Hq in H. pose proof (exp_pos mm) as Hg.
  (* / exp mm <= d / s  ->  s / d <= exp mm *)
  apply Rmult_le_reg_r with (w2 / b + w1 / a); [exact Hd|].
  unfold Rdiv at 1. rewrite Rmult_assoc, Rinv_l by lra. rewrite Rmult_1_r.
  apply Rmult_le_compat_l with (r := exp mm * s) in H; [|nra].
  replace (exp mm * s * / exp mm) with s in H by (field; lra).
  replace (exp mm * s * ((w2 / b + w1 / a) / s)) with (exp mm * (w2 / b + w1 / a)) in H by (field; lra).
  exact H.
Qed.
Lemma div_between' n d lo hi : 0 < d -> lo * d <= n <= hi * d -> lo <= n / d <= hi.
Proof.
  intros Hd [Hl Hh]. split.
  - apply Rmult_le_reg_r with d; [exact Hd|]. replace (n / d * d) with n by (field; lra). exact Hl.
  - apply Rmult_le_reg_r with d; [exact Hd|]. replace (n / d * d) with n by (field; lra). exact Hh.
Qed.
Theorem Hmean_between w1 w2 a b : 0 < w1 -> 0 < w2 -> 0 < a -> 0 < b -> Rmin a b <= Hmean w1 w2 a b <= Rmax a b.
Proof.
  intros H1 H2 Ha Hb. unfold Hmean.
  assert (Hden : w2 * a + w1 * b <> 0) by nra.
  replace ((w2 + w1) / (w2 / b + w1 / a)) with ((w2 + w1) * (a * b) / (w2 * a + w1 * b)).
  2: { field. repeat split; try lra. }
  apply div_between'; [nra|].
  unfold Rmin, Rmax. destruct (Rle_dec a b) as [Hab|Hab].
  - assert (0 <= w2 * a * (b - a)) by (repeat apply Rmult_le_pos; lra).
    assert (0 <= w1 * b * (b - a)) by (repeat apply Rmult_le_pos; lra). split; nra.
  - assert (0 <= w2 * a * (a - b)) by (repeat apply Rmult_le_pos; lra).
    assert (0 <= w1 * b * (a - b)) by (repeat apply Rmult_le_pos; lra). split; nra.
Qed.
Theorem Gmean_between w1 w2 a b : 0 < w1 -> 0 < w2 -> 0 < a -> 0 < b -> Rmin a b <= Gmean w1 w2 a b <= Rmax a b.
Proof.
  intros H1 H2 Ha Hb. split.
  - eapply Rle_trans; [apply (Hmean_between w1 w2 a b); assumption|apply H_le_G; assumption].
  - eapply Rle_trans; [apply G_le_A; assumption|apply (Amean_between w1 w2 a b); assumption].
Qed.
