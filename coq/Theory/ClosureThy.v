(* From the boundary rows of is_solution to the closure hypotheses of the comparison principle (Theory/ComparisonThy.v):
   two fields that satisfy the SAME non-periodic boundary rows (Dirichlet, Neumann, Robin with b and b/2 -+ a/h of one sign)
   differ across every boundary face by  z_ghost = rho * z_inner  with rho <= 1.  Hence uniqueness / stability / the limits of
   C12 hold for solutions of the assembled system with hypotheses on the DATA (mesh, coefficients, boundary coefficients) only. *)
From Coq Require Import Arith List Bool Field Lia.
From PFV Require Import OField KOps Grid Ops Boundary Solver StencilThy ConservThy BoundaryThy.
Import ListNotations.

Section Numbering.
Variable F : FieldOps.
Local Notation Mesh := (Mesh F).

(* a cell of the padded array: indices within 0..N+1 on the active axes, 0 on the others *)
Definition wfcell (m : Mesh) (c : cell) : Prop :=
  forall a, (active F m a = true -> cidx a c <= S (mN F m a)) /\ (active F m a = false -> cidx a c = 0).

Lemma cell_of_no_cellno (m : Mesh) (c : cell) : wfcell m c -> cell_of_no F m (cellno F m c) = c.
Proof.
  intros H. destruct c as [[i j] k].
  pose proof (H AX) as [HX _]. pose proof (H AY) as [HY HY0]. pose proof (H AZ) as [HZ HZ0].
  unfold cellno, cell_of_no, active in *. cbn [cidx] in *.
  destruct (gdim (mcls F m)) as [|[|[|[|n]]]] eqn:Eg; cbn [Nat.leb] in *.
  - (* dimension 0 does not occur, but the definitions default to the 3-D formulas *)
    destruct (mcls F m); discriminate.
  - rewrite (HY0 eq_refl), (HZ0 eq_refl). reflexivity.
  - rewrite (HZ0 eq_refl). specialize (HY eq_refl).
    assert (E1 : (i * (mN F m AY + 2) + j) / (mN F m AY + 2) = i).
    { symmetry. apply (Nat.div_unique _ _ i j); lia. }
    assert (E2 : (i * (mN F m AY + 2) + j) mod (mN F m AY + 2) = j).
    { symmetry. apply (Nat.mod_unique _ _ i j); lia. }
    rewrite E1, E2. reflexivity.
  - specialize (HY eq_refl). specialize (HZ eq_refl).
    set (q := i * (mN F m AY + 2) + j).
    assert (E0 : (q * (mN F m AZ + 2) + k) / (mN F m AZ + 2) = q).
    { symmetry. apply (Nat.div_unique _ _ q k); lia. }
    assert (E3 : (q * (mN F m AZ + 2) + k) mod (mN F m AZ + 2) = k).
    { symmetry. apply (Nat.mod_unique _ _ q k); lia. }
    assert (E1 : q / (mN F m AY + 2) = i).
    { symmetry. apply (Nat.div_unique _ _ i j); unfold q; lia. }
    assert (E2 : q mod (mN F m AY + 2) = j).
    { symmetry. apply (Nat.mod_unique _ _ i j); unfold q; lia. }
    cbv zeta. rewrite E0, E3, E1, E2. reflexivity.
  - destruct (mcls F m); discriminate.
Qed.
End Numbering.

Section Rows.
Variable F : FieldOps.
Variable L : FieldLaws F.
Add Field FFcl : (FL_field F L).
Local Notation K := (K F).
Local Notation Mesh := (Mesh F).
Local Notation two := (kadd F (k1 F) (k1 F)).

(* the boundary row of a face ghost cell, applied to a field *)
Lemma bc_lhs_hi (m : Mesh) (bc : BCs F) (x : cvar F) a g :
  interior F m g = false -> ghost_axis F m g = Some (a, true) -> bper F bc a = false ->
  wfcell F m g -> wfcell F m (cdn a g) ->
  bc_lhs F m bc x g
  = kadd F (kmul F (kadd F (kdiv F (bcb F bc a true g) two) (aoh F m bc a true g)) (x g))
           (kmul F (ksub F (kdiv F (bcb F bc a true g) two) (aoh F m bc a true g)) (x (cdn a g))).
Proof.
  intros Hi Hg Hp W1 W2. unfold bc_lhs, bc_row. rewrite Hi, Hg, Hp. cbn [row_apply fold_right fst snd].
  rewrite (cell_of_no_cellno F m g W1), (cell_of_no_cellno F m (cdn a g) W2). ring.
Qed.
Lemma bc_lhs_lo (m : Mesh) (bc : BCs F) (x : cvar F) a g :
  interior F m g = false -> ghost_axis F m g = Some (a, false) -> bper F bc a = false ->
  wfcell F m g -> wfcell F m (cup a g) ->
  bc_lhs F m bc x g
  = kadd F (kmul F (kopp F (kadd F (kdiv F (bcb F bc a false g) two) (aoh F m bc a false g))) (x (cup a g)))
           (kmul F (kopp F (ksub F (kdiv F (bcb F bc a false g) two) (aoh F m bc a false g))) (x g)).
Proof.
  intros Hi Hg Hp W1 W2. unfold bc_lhs, bc_row. rewrite Hi, Hg, Hp. cbn [row_apply fold_right fst snd].
  rewrite (cell_of_no_cellno F m g W1), (cell_of_no_cellno F m (cup a g) W2). ring.
Qed.
End Rows.

Lemma axis_eq_dec (a b : axis) : {a = b} + {a <> b}.
Proof. decide equality. Qed.

Section Neighbours.
Variable F : FieldOps.
Variable L : FieldLaws F.
Local Notation Mesh := (Mesh F).

Lemma wfcell_interior (m : Mesh) c : interior F m c = true -> (forall a, active F m a = false -> cidx a c = 0) -> wfcell F m c.
Proof.
  intros Hi H0 a. split; [|apply H0]. intros Ha. pose proof (proj1 (interior_iff F m c) Hi a Ha). lia.
Qed.

(* inactive indices are 0 for the cells we talk about: cells of the list interior_cells *)
Definition flat (m : Mesh) (c : cell) : Prop := forall a, active F m a = false -> cidx a c = 0.
Lemma flat_cset (m : Mesh) a c n : active F m a = true -> flat m c -> flat m (cset a c n).
Proof.
  intros Ha Hf b Hb. rewrite cidx_cset_other; [apply Hf; exact Hb|]. intros ->. rewrite Ha in Hb. discriminate.
Qed.

Ltac kill_eqb :=
  repeat match goal with
  | |- context [Nat.eqb ?x ?y] => destruct (Nat.eqb_spec x y); try lia
  | H : context [Nat.eqb ?x ?y] |- _ => destruct (Nat.eqb_spec x y); try lia
  | H : context [Nat.leb ?x ?y] |- _ => destruct (Nat.leb_spec x y); try discriminate; try lia
  end.

Lemma nbr_lo (m : Mesh) a c : interior F m c = true -> flat m c -> active F m a = true -> cidx a c = 1 ->
  interior F m (cdn a c) = false /\ ghost_axis F m (cdn a c) = Some (a, false) /\ wfcell F m (cdn a c) /\ cup a (cdn a c) = c.
Proof.
  intros Hi Hf Ha H1.
  assert (Hb := proj1 (interior_iff F m c) Hi).
  assert (Ecup : cup a (cdn a c) = c) by (apply cup_cdn; lia).
  assert (Hw : wfcell F m (cdn a c)).
  { intros b. split.
    - intros Hb'. destruct (axis_eq_dec a b) as [<-|Hne].
      + unfold cdn. rewrite cidx_cset. lia.
      + unfold cdn. rewrite cidx_cset_other by exact Hne. pose proof (Hb b Hb'). lia.
    - intros Hb'. apply (flat_cset m a c _ Ha Hf b Hb'). }
  split; [|split; [|split; [exact Hw|exact Ecup]]].
  - destruct (interior F m (cdn a c)) eqn:E; [|reflexivity].
    pose proof (proj1 (interior_iff F m (cdn a c)) E a Ha) as Hx. unfold cdn in Hx. rewrite cidx_cset in Hx. lia.
  - destruct c as [[i j] k]. unfold ghost_axis, nghost, on_lo, on_hi, cdn, active in *.
    pose proof (Hb AX) as BX. pose proof (Hb AY) as BY. pose proof (Hb AZ) as BZ. cbn [cidx] in *.
    unfold axes_of. destruct (gdim (mcls F m)) as [|[|[|[|n]]]] eqn:Eg;
      try (destruct (mcls F m); discriminate);
      destruct a; cbn [Nat.leb] in *; try discriminate;
      cbn [cset cidx filter length pred orb] in *; subst;
      try specialize (BX eq_refl); try specialize (BY eq_refl); try specialize (BZ eq_refl);
      do 3 (cbn -[mN] in *; kill_eqb); try reflexivity; try (exfalso; lia); try (exfalso; cbn in *; congruence).
Qed.

Lemma nbr_hi (m : Mesh) a c : interior F m c = true -> flat m c -> active F m a = true -> cidx a c = mN F m a ->
  interior F m (cup a c) = false /\ ghost_axis F m (cup a c) = Some (a, true) /\ wfcell F m (cup a c) /\ cdn a (cup a c) = c.
Proof.
  intros Hi Hf Ha H1.
  assert (Hb := proj1 (interior_iff F m c) Hi).
  assert (Ecup : cdn a (cup a c) = c) by apply cdn_cup.
  assert (Hw : wfcell F m (cup a c)).
  { intros b. split.
    - intros Hb'. destruct (axis_eq_dec a b) as [<-|Hne].
      + unfold cup. rewrite cidx_cset. lia.
      + unfold cup. rewrite cidx_cset_other by exact Hne. pose proof (Hb b Hb'). lia.
    - intros Hb'. apply (flat_cset m a c _ Ha Hf b Hb'). }
  split; [|split; [|split; [exact Hw|exact Ecup]]].
  - destruct (interior F m (cup a c)) eqn:E; [|reflexivity].
    pose proof (proj1 (interior_iff F m (cup a c)) E a Ha) as Hx. unfold cup in Hx. rewrite cidx_cset in Hx. lia.
  - destruct c as [[i j] k]. unfold ghost_axis, nghost, on_lo, on_hi, cup, active in *.
    pose proof (Hb AX) as BX. pose proof (Hb AY) as BY. pose proof (Hb AZ) as BZ. cbn [cidx] in *.
    unfold axes_of. destruct (gdim (mcls F m)) as [|[|[|[|n]]]] eqn:Eg;
      try (destruct (mcls F m); discriminate);
      destruct a; cbn [Nat.leb] in *; try discriminate;
      cbn [cset cidx filter length pred orb] in *; subst;
      try specialize (BX eq_refl); try specialize (BY eq_refl); try specialize (BZ eq_refl);
      do 3 (cbn -[mN] in *; kill_eqb); try reflexivity; try (exfalso; lia); try (exfalso; cbn in *; congruence).
Qed.
End Neighbours.

(* ---- the list of interior cells ---- *)
Section InteriorCells.
Variable F : FieldOps.
Local Notation Mesh := (Mesh F).

Lemma interior_cells_spec (m : Mesh) c : In c (interior_cells F m) <-> (interior F m c = true /\ flat F m c).
Proof.
  destruct c as [[i j] k]. unfold interior_cells, flat, range1. rewrite (interior_iff F). unfold active.
  destruct (gdim (mcls F m)) as [|[|[|[|n]]]] eqn:Eg; try (destruct (mcls F m); discriminate); cbn [Nat.leb].
  - rewrite in_map_iff. split.
    + intros (i' & E & Hin). inversion E; subst. apply in_seq in Hin. split.
      * intros a Ha. destruct a; try discriminate. cbn. lia.
      * intros a Ha. destruct a; try discriminate; reflexivity.
    + intros [H1 H2]. exists i. pose proof (H1 AX eq_refl) as B. pose proof (H2 AY eq_refl) as Y. pose proof (H2 AZ eq_refl) as Z. cbn in *. subst.
      split; [reflexivity|apply in_seq; lia].
  - rewrite in_flat_map. split.
    + intros (i' & Hi' & Hin). rewrite in_map_iff in Hin. destruct Hin as (j' & E & Hj'). inversion E; subst.
      apply in_seq in Hi'. apply in_seq in Hj'. split.
      * intros a Ha. destruct a; try discriminate; cbn; lia.
      * intros a Ha. destruct a; try discriminate; reflexivity.
    + intros [H1 H2]. pose proof (H1 AX eq_refl) as BX. pose proof (H1 AY eq_refl) as BY. pose proof (H2 AZ eq_refl) as Z. cbn in *. subst.
      exists i. split; [apply in_seq; lia|]. rewrite in_map_iff. exists j. split; [reflexivity|apply in_seq; lia].
  - rewrite in_flat_map. split.
    + intros (i' & Hi' & Hin). rewrite in_flat_map in Hin. destruct Hin as (j' & Hj' & Hin). rewrite in_map_iff in Hin.
      destruct Hin as (k' & E & Hk'). inversion E; subst. apply in_seq in Hi'. apply in_seq in Hj'. apply in_seq in Hk'. split.
      * intros a Ha. destruct a; cbn; lia.
      * intros a Ha. destruct a; discriminate.
    + intros [H1 H2]. pose proof (H1 AX eq_refl) as BX. pose proof (H1 AY eq_refl) as BY. pose proof (H1 AZ eq_refl) as BZ. cbn in *.
      exists i. split; [apply in_seq; lia|]. rewrite in_flat_map. exists j. split; [apply in_seq; lia|].
      rewrite in_map_iff. exists k. split; [reflexivity|apply in_seq; lia].
Qed.

Lemma interior_cdn (m : Mesh) a c : interior F m c = true -> active F m a = true -> 2 <= cidx a c -> interior F m (cdn a c) = true.
Proof.
  intros Hi Ha H2. apply (interior_iff F). intros b Hb. pose proof (proj1 (interior_iff F m c) Hi b Hb) as B.
  destruct (axis_eq_dec a b) as [<-|Hne]; unfold cdn; [rewrite cidx_cset; lia|rewrite cidx_cset_other by exact Hne; exact B].
Qed.
Lemma interior_cup (m : Mesh) a c : interior F m c = true -> active F m a = true -> S (cidx a c) <= mN F m a -> interior F m (cup a c) = true.
Proof.
  intros Hi Ha H2. apply (interior_iff F). intros b Hb. pose proof (proj1 (interior_iff F m c) Hi b Hb) as B.
  destruct (axis_eq_dec a b) as [<-|Hne]; unfold cup; [rewrite cidx_cset; lia|rewrite cidx_cset_other by exact Hne; exact B].
Qed.
End InteriorCells.

(* ---- over the reals: the closure hypotheses of the comparison principle follow from the boundary rows ---- *)
From Coq Require Import Reals Lra.
From PFV Require Import MaxPrincipleThy MaxPrincipleModel ComparisonThy.
Section ClosureR.
Local Open Scope R_scope.
Variable m : Mesh ROps.
Variable bc : BCs ROps.

Definition bc_rows (x : cvar ROps) : Prop :=
  forall g, Grid.interior ROps m g = false -> in_range ROps m g -> bc_lhs ROps m bc x g = bc_rhs ROps m bc g.

(* non-periodic; on every boundary face the coefficient of the ghost value, d = b/2 +- a/h, is non-zero and has the sign of b
   (Dirichlet: a = 0; Neumann: b = 0; Robin with a (outward normal) and b of one sign) *)
Definition bc_sign_ok : Prop :=
  forall a, active ROps m a = true ->
    bper ROps bc a = false /\
    (forall g, bcb ROps bc a true g / 2 + aoh ROps m bc a true g <> 0 /\
               0 <= bcb ROps bc a true g * (bcb ROps bc a true g / 2 + aoh ROps m bc a true g)) /\
    (forall g, bcb ROps bc a false g / 2 - aoh ROps m bc a false g <> 0 /\
               0 <= bcb ROps bc a false g * (bcb ROps bc a false g / 2 - aoh ROps m bc a false g)).

Lemma wf_in_range g : wfcell ROps m g -> in_range ROps m g.
Proof. intros H a Ha. exact (proj1 (H a) Ha). Qed.

Lemma closure_hi (x e : cvar ROps) a c :
  bc_sign_ok -> bc_rows x -> bc_rows e ->
  Grid.interior ROps m c = true -> flat ROps m c -> active ROps m a = true -> cidx a c = mN ROps m a ->
  exists rho, rho <= 1 /\ x (cup a c) - e (cup a c) = rho * (x c - e c).
Proof.
  intros Hs Hx He Hi Hf Ha HN.
  destruct (nbr_hi ROps m a c Hi Hf Ha HN) as (G1 & G2 & G3 & G4).
  destruct (Hs a Ha) as (Hp & Hhi & _). destruct (Hhi (cup a c)) as [Hd Hsg].
  pose proof (Hx (cup a c) G1 (wf_in_range _ G3)) as Ex. pose proof (He (cup a c) G1 (wf_in_range _ G3)) as Ee.
  assert (W2 : wfcell ROps m (cdn a (cup a c))) by (rewrite G4; apply wfcell_interior; assumption).
  rewrite (bc_lhs_hi ROps RLaws m bc x a (cup a c) G1 G2 Hp G3 W2) in Ex.
  rewrite (bc_lhs_hi ROps RLaws m bc e a (cup a c) G1 G2 Hp G3 W2) in Ee.
  rewrite G4 in Ex, Ee. cbn [kadd kmul ksub kdiv k1 ROps K] in Ex, Ee.
  replace (1 + 1) with 2 in Ex, Ee by lra.
  exact (robin_ghost_ratio _ _ _ _ _ _ _ Hd Hsg Ex Ee).
Qed.
Lemma closure_lo (x e : cvar ROps) a c :
  bc_sign_ok -> bc_rows x -> bc_rows e ->
  Grid.interior ROps m c = true -> flat ROps m c -> active ROps m a = true -> cidx a c = 1%nat ->
  exists rho, rho <= 1 /\ x (cdn a c) - e (cdn a c) = rho * (x c - e c).
Proof.
  intros Hs Hx He Hi Hf Ha H1.
  destruct (nbr_lo ROps m a c Hi Hf Ha H1) as (G1 & G2 & G3 & G4).
  destruct (Hs a Ha) as (Hp & _ & Hlo). destruct (Hlo (cdn a c)) as [Hd Hsg].
  pose proof (Hx (cdn a c) G1 (wf_in_range _ G3)) as Ex. pose proof (He (cdn a c) G1 (wf_in_range _ G3)) as Ee.
  assert (W2 : wfcell ROps m (cup a (cdn a c))) by (rewrite G4; apply wfcell_interior; assumption).
  rewrite (bc_lhs_lo ROps RLaws m bc x a (cdn a c) G1 G2 Hp G3 W2) in Ex.
  rewrite (bc_lhs_lo ROps RLaws m bc e a (cdn a c) G1 G2 Hp G3 W2) in Ee.
  rewrite G4 in Ex, Ee. cbn [kadd kmul ksub kdiv kopp k1 ROps K] in Ex, Ee.
  replace (1 + 1) with 2 in Ex, Ee by lra.
  set (b := bcb ROps bc a false (cdn a c)) in *. set (A := aoh ROps m bc a false (cdn a c)) in *.
  apply (robin_ghost_ratio b (- A) (- bc_rhs ROps m bc (cdn a c))); [| | lra | lra].
  - replace (b / 2 + - A) with (b / 2 - A) by lra. exact Hd.
  - replace (b / 2 + - A) with (b / 2 - A) by lra. exact Hsg.
Qed.

(* the closure hypothesis of ComparisonThy.stability for the list of interior cells *)
Theorem closure_from_rows (x e : cvar ROps) :
  bc_sign_ok -> bc_rows x -> bc_rows e ->
  forall c a, In c (interior_cells ROps m) -> In a (active_axes ROps m) ->
    nb_homog (interior_cells ROps m) (fun c => x c - e c) c (cdn a c) /\
    nb_homog (interior_cells ROps m) (fun c => x c - e c) c (cup a c).
Proof.
  intros Hs Hx He c a Hc Ha.
  apply interior_cells_spec in Hc. destruct Hc as [Hi Hf].
  pose proof (axes_active ROps m a Ha) as Hact.
  pose proof (proj1 (interior_iff ROps m c) Hi a Hact) as B.
  split.
  - destruct (Nat.eq_dec (cidx a c) 1) as [E1|E1].
    + right; right. exact (closure_lo x e a c Hs Hx He Hi Hf Hact E1).
    + left. apply interior_cells_spec. split; [apply interior_cdn; [assumption|assumption|lia]|].
      unfold cdn. apply flat_cset; assumption.
  - destruct (Nat.eq_dec (cidx a c) (mN ROps m a)) as [E1|E1].
    + right; right. exact (closure_hi x e a c Hs Hx He Hi Hf Hact E1).
    + left. apply interior_cells_spec. split; [apply interior_cup; [assumption|assumption|lia]|].
      unfold cup. apply flat_cset; assumption.
Qed.
End ClosureR.

(* ---- the theorems of ComparisonThy for solutions of the assembled system, with hypotheses on the data only ---- *)
Section FromIsSolution.
Local Open Scope R_scope.
Variable m : Mesh ROps.
Variable bc : BCs ROps.
Variable D u : fvar ROps.
Hypothesis Hne : interior_cells ROps m <> [].
Hypothesis Hcells : forall c a, In c (interior_cells ROps m) -> In a (active_axes ROps m) ->
  (1 <= cidx a c <= mN ROps m a)%nat /\ signs_ok m D c a.
Hypothesis Hdiv : forall c, In c (interior_cells ROps m) -> rsuml (fun a => divrow ROps m u a c) (active_axes ROps m) = 0.
Hypothesis Hbc : bc_sign_ok m bc.

Theorem stability_of_solutions (kap x e f g : cvar ROps) (E : R) :
  bc_rows m bc x -> bc_rows m bc e ->
  (forall c, In c (interior_cells ROps m) -> Lrow m D u kap x c = f c) ->
  (forall c, In c (interior_cells ROps m) -> Lrow m D u kap e c = g c) ->
  (forall c, In c (interior_cells ROps m) -> 0 < kap c) ->
  0 <= E -> (forall c, In c (interior_cells ROps m) -> Rabs (f c - g c) <= kap c * E) ->
  forall c, In c (interior_cells ROps m) -> Rabs (x c - e c) <= E.
Proof.
  intros Hx He Rx Re Hk HE Hfg.
  apply (stability m D u kap x e f g E (interior_cells ROps m) Hne Hcells Rx Re Hdiv Hk HE Hfg).
  apply (closure_from_rows m bc); assumption.
Qed.

(* the documented term list: transient, -diffusion, upwind advection, linear sink, constant source *)
Definition tlist (alpha beta s old : cvar ROps) (dt : R) : list (term ROps) :=
  [TTrans ROps alpha dt old; TDiff ROps (-1) D; TUpw ROps 1 u u; TLin ROps 1 beta; TConst ROps 1 s].

Lemma in_cells_interior c : In c (interior_cells ROps m) -> Grid.interior ROps m c = true.
Proof. intros H. apply interior_cells_spec in H. exact (proj1 H). Qed.

Theorem solution_is_unique (alpha beta s old x y : cvar ROps) (dt : R) :
  0 < dt -> (forall c, In c (interior_cells ROps m) -> 0 < alpha c /\ 0 <= beta c) ->
  is_solution ROps m bc (tlist alpha beta s old dt) x -> is_solution ROps m bc (tlist alpha beta s old dt) y ->
  forall c, In c (interior_cells ROps m) -> x c = y c.
Proof.
  intros Hdt Hco Sx Sy.
  assert (Hd0 : dt <> 0) by lra.
  apply (unique_general m D u (fun c => alpha c / dt + beta c) x y (fun c => s c + alpha c / dt * old c) (interior_cells ROps m) Hne Hcells).
  - intros c Hc. apply be_row_Lrow. apply (is_solution_be_row m bc D u x alpha beta s old dt c Hd0 Sx). apply in_cells_interior; exact Hc.
  - intros c Hc. apply be_row_Lrow. apply (is_solution_be_row m bc D u y alpha beta s old dt c Hd0 Sy). apply in_cells_interior; exact Hc.
  - exact Hdiv.
  - intros c Hc. destruct (Hco c Hc) as [Ha Hb]. assert (0 < alpha c / dt) by (apply Rdiv_lt_0_compat; assumption). lra.
  - apply (closure_from_rows m bc); [exact Hbc|exact (proj2 Sx)|exact (proj2 Sy)].
Qed.

(* C12 for solutions of the assembled systems: the backward-Euler step tends to the steady solution as dt -> infinity ... *)
Theorem solution_step_to_steady (alpha beta s old x y : cvar ROps) (dt W A B : R) :
  0 < dt -> 0 <= W -> 0 < B ->
  (forall c, In c (interior_cells ROps m) -> 0 < alpha c <= A /\ B <= beta c) ->
  is_solution ROps m bc (tlist alpha beta s old dt) x ->
  is_solution ROps m bc [TDiff ROps (-1) D; TUpw ROps 1 u u; TLin ROps 1 beta; TConst ROps 1 s] y ->
  (forall c, In c (interior_cells ROps m) -> Rabs (old c - y c) <= W) ->
  forall c, In c (interior_cells ROps m) -> Rabs (x c - y c) <= W * A / (A + dt * B).
Proof.
  intros Hdt HW HB Hco Sx Sy Hold.
  assert (Hd0 : dt <> 0) by lra.
  apply (step_to_steady m D u (interior_cells ROps m) Hne Hcells Hdiv alpha beta s old x y dt W A B Hdt HW HB Hco).
  - intros c Hc. apply (is_solution_be_row m bc D u x alpha beta s old dt c Hd0 Sx). apply in_cells_interior; exact Hc.
  - intros c Hc. apply (is_solution_steady_row m bc D u y beta s c Sy). apply in_cells_interior; exact Hc.
  - exact Hold.
  - apply (closure_from_rows m bc); [exact Hbc|exact (proj2 Sx)|exact (proj2 Sy)].
Qed.
End FromIsSolution.

(* ---- C07 for solutions of the assembled system: one-sided bounds with inhomogeneous boundary data ---- *)
Section BoundsFromIsSolution.
Local Open Scope R_scope.
Variable m : Mesh ROps.
Variable bc : BCs ROps.
Variable D u : fvar ROps.
Hypothesis Hne : interior_cells ROps m <> [].
Hypothesis Hcells : forall c a, In c (interior_cells ROps m) -> In a (active_axes ROps m) ->
  (1 <= cidx a c <= mN ROps m a)%nat /\ signs_ok m D c a.
Hypothesis Hdiv : forall c, In c (interior_cells ROps m) -> rsuml (fun a => divrow ROps m u a c) (active_axes ROps m) = 0.
Hypothesis Hbc : bc_sign_ok m bc.

(* the boundary data do not push the solution above M: (c - b*M) has the sign opposite to the ghost coefficient d = b/2 +- a/h
   (Dirichlet: c/b <= M; homogeneous Neumann: always; Robin with outflow-type data) *)
Definition data_below (M : R) : Prop :=
  forall a, active ROps m a = true ->
    (forall g, (bcc ROps bc a true g - bcb ROps bc a true g * M) * (bcb ROps bc a true g / 2 + aoh ROps m bc a true g) <= 0) /\
    (forall g, (bcc ROps bc a false g - bcb ROps bc a false g * M) * (bcb ROps bc a false g / 2 - aoh ROps m bc a false g) <= 0).

Lemma ghost_below (b A c d xg xi M : R) :
  d <> 0 -> 0 <= b * d -> (c - b * M) * d <= 0 -> d = b / 2 + A ->
  d * xg + (b / 2 - A) * xi = c -> M < xi -> xg <= xi.
Proof.
  intros Hd Hs Hc Ed E Hx.
  assert (E1 : d * (xg - xi) = c - b * xi) by (rewrite <- E; rewrite Ed; lra).
  assert (E2 : (c - b * xi) * d <= 0).
  { replace ((c - b * xi) * d) with ((c - b * M) * d - b * d * (xi - M)) by ring.
    assert (0 <= b * d * (xi - M)) by (apply Rmult_le_pos; lra). lra. }
  assert (E3 : d * d * (xg - xi) <= 0) by (replace (d * d * (xg - xi)) with ((d * (xg - xi)) * d) by ring; rewrite E1; exact E2).
  assert (Hdd : 0 < d * d) by nra.
  assert (xg - xi <= 0) by nra. lra.
Qed.

Theorem upper_closure_from_rows (x : cvar ROps) (M : R) :
  bc_rows m bc x -> data_below M ->
  forall c a, In c (interior_cells ROps m) -> In a (active_axes ROps m) ->
    nb_upper x M (interior_cells ROps m) c (cdn a c) /\ nb_upper x M (interior_cells ROps m) c (cup a c).
Proof.
  intros Hx Hdat c a Hc Ha.
  apply interior_cells_spec in Hc. destruct Hc as [Hi Hf].
  pose proof (axes_active ROps m a Ha) as Hact.
  pose proof (proj1 (interior_iff ROps m c) Hi a Hact) as B.
  destruct (Hbc a Hact) as (Hp & Hhi & Hlo). destruct (Hdat a Hact) as [Dhi Dlo].
  split.
  - destruct (Nat.eq_dec (cidx a c) 1) as [E1|E1].
    + right; right. intros HM.
      destruct (nbr_lo ROps m a c Hi Hf Hact E1) as (G1 & G2 & G3 & G4).
      destruct (Hlo (cdn a c)) as [Hd Hsg].
      pose proof (Hx (cdn a c) G1 (wf_in_range m _ G3)) as Ex.
      assert (W2 : wfcell ROps m (cup a (cdn a c))) by (rewrite G4; apply wfcell_interior; assumption).
      rewrite (bc_lhs_lo ROps RLaws m bc x a (cdn a c) G1 G2 Hp G3 W2) in Ex. rewrite G4 in Ex.
      unfold bc_rhs in Ex. rewrite G1, G2, Hp in Ex. cbn [kadd kmul ksub kdiv kopp k1 ROps K] in Ex.
      replace (1 + 1) with 2 in Ex by lra.
      set (b := bcb ROps bc a false (cdn a c)) in *. set (A := aoh ROps m bc a false (cdn a c)) in *.
      apply (ghost_below b (- A) (bcc ROps bc a false (cdn a c)) (b / 2 - A) (x (cdn a c)) (x c) M); try assumption; try lra.
      apply Dlo.
    + left. apply interior_cells_spec. split; [apply interior_cdn; [assumption|assumption|lia]|]. unfold cdn. apply flat_cset; assumption.
  - destruct (Nat.eq_dec (cidx a c) (mN ROps m a)) as [E1|E1].
    + right; right. intros HM.
      destruct (nbr_hi ROps m a c Hi Hf Hact E1) as (G1 & G2 & G3 & G4).
      destruct (Hhi (cup a c)) as [Hd Hsg].
      pose proof (Hx (cup a c) G1 (wf_in_range m _ G3)) as Ex.
      assert (W2 : wfcell ROps m (cdn a (cup a c))) by (rewrite G4; apply wfcell_interior; assumption).
      rewrite (bc_lhs_hi ROps RLaws m bc x a (cup a c) G1 G2 Hp G3 W2) in Ex. rewrite G4 in Ex.
      unfold bc_rhs in Ex. rewrite G1, G2, Hp in Ex. cbn [kadd kmul ksub kdiv kopp k1 ROps K] in Ex.
      replace (1 + 1) with 2 in Ex by lra.
      set (b := bcb ROps bc a true (cup a c)) in *. set (A := aoh ROps m bc a true (cup a c)) in *.
      apply (ghost_below b A (bcc ROps bc a true (cup a c)) (b / 2 + A) (x (cup a c)) (x c) M); try assumption; try lra.
      apply Dhi.
    + left. apply interior_cells_spec. split; [apply interior_cup; [assumption|assumption|lia]|]. unfold cup. apply flat_cset; assumption.
Qed.

(* upper bound for the backward-Euler step of  transient - diffusion + upwind + sink = source *)
Theorem solution_upper_bound (alpha beta s old x : cvar ROps) (dt M : R) :
  0 < dt -> (forall c, In c (interior_cells ROps m) -> 0 < alpha c /\ 0 <= beta c) ->
  is_solution ROps m bc (tlist D u alpha beta s old dt) x ->
  (forall c, In c (interior_cells ROps m) -> old c <= M /\ s c <= beta c * M) -> data_below M ->
  forall c, In c (interior_cells ROps m) -> x c <= M.
Proof.
  intros Hdt Hco Sx Hold Hdat.
  assert (Hd0 : dt <> 0) by lra.
  apply (comparison_upper m D u (fun c => alpha c / dt + beta c) x (fun c => s c + alpha c / dt * old c) M (interior_cells ROps m) Hne Hcells).
  - intros c Hc. apply be_row_Lrow. apply (is_solution_be_row m bc D u x alpha beta s old dt c Hd0 Sx). apply (in_cells_interior m); exact Hc.
  - exact Hdiv.
  - intros c Hc. destruct (Hco c Hc) as [Ha Hb]. assert (0 < alpha c / dt) by (apply Rdiv_lt_0_compat; assumption). lra.
  - intros c Hc. destruct (Hco c Hc) as [Ha Hb]. destruct (Hold c Hc) as [Ho Hs].
    assert (Hq : 0 < alpha c / dt) by (apply Rdiv_lt_0_compat; assumption).
    assert (alpha c / dt * old c <= alpha c / dt * M) by (apply Rmult_le_compat_l; lra). lra.
  - apply upper_closure_from_rows; [exact (proj2 Sx)|exact Hdat].
Qed.

(* the symmetric statements (lower bounds) *)
Definition data_above (lo : R) : Prop :=
  forall a, active ROps m a = true ->
    (forall g, 0 <= (bcc ROps bc a true g - bcb ROps bc a true g * lo) * (bcb ROps bc a true g / 2 + aoh ROps m bc a true g)) /\
    (forall g, 0 <= (bcc ROps bc a false g - bcb ROps bc a false g * lo) * (bcb ROps bc a false g / 2 - aoh ROps m bc a false g)).

Lemma ghost_above (b A c d xg xi lo : R) :
  d <> 0 -> 0 <= b * d -> 0 <= (c - b * lo) * d -> d = b / 2 + A ->
  d * xg + (b / 2 - A) * xi = c -> xi < lo -> xi <= xg.
Proof.
  intros Hd Hs Hc Ed E Hx.
  assert (H : - xg <= - xi).
  { apply (ghost_below b A (- c) d (- xg) (- xi) (- lo)); try assumption; try lra; try nra. }
  lra.
Qed.

Theorem lower_closure_from_rows (x : cvar ROps) (lo : R) :
  bc_rows m bc x -> data_above lo ->
  forall c a, In c (interior_cells ROps m) -> In a (active_axes ROps m) ->
    nb_upper (fun c => - x c) (- lo) (interior_cells ROps m) c (cdn a c) /\ nb_upper (fun c => - x c) (- lo) (interior_cells ROps m) c (cup a c).
Proof.
  intros Hx Hdat c a Hc Ha.
  apply interior_cells_spec in Hc. destruct Hc as [Hi Hf].
  pose proof (axes_active ROps m a Ha) as Hact.
  pose proof (proj1 (interior_iff ROps m c) Hi a Hact) as B.
  destruct (Hbc a Hact) as (Hp & Hhi & Hlo). destruct (Hdat a Hact) as [Dhi Dlo].
  split.
  - destruct (Nat.eq_dec (cidx a c) 1) as [E1|E1].
    + right; right. intros HM.
      destruct (nbr_lo ROps m a c Hi Hf Hact E1) as (G1 & G2 & G3 & G4).
      destruct (Hlo (cdn a c)) as [Hd Hsg].
      pose proof (Hx (cdn a c) G1 (wf_in_range m _ G3)) as Ex.
      assert (W2 : wfcell ROps m (cup a (cdn a c))) by (rewrite G4; apply wfcell_interior; assumption).
      rewrite (bc_lhs_lo ROps RLaws m bc x a (cdn a c) G1 G2 Hp G3 W2) in Ex. rewrite G4 in Ex.
      unfold bc_rhs in Ex. rewrite G1, G2, Hp in Ex. cbn [kadd kmul ksub kdiv kopp k1 ROps K] in Ex.
      replace (1 + 1) with 2 in Ex by lra.
      set (b := bcb ROps bc a false (cdn a c)) in *. set (A := aoh ROps m bc a false (cdn a c)) in *.
      assert (x c <= x (cdn a c)); [|lra].
      apply (ghost_above b (- A) (bcc ROps bc a false (cdn a c)) (b / 2 - A) (x (cdn a c)) (x c) lo); try assumption; try lra.
      apply Dlo.
    + left. apply interior_cells_spec. split; [apply interior_cdn; [assumption|assumption|lia]|]. unfold cdn. apply flat_cset; assumption.
  - destruct (Nat.eq_dec (cidx a c) (mN ROps m a)) as [E1|E1].
    + right; right. intros HM.
      destruct (nbr_hi ROps m a c Hi Hf Hact E1) as (G1 & G2 & G3 & G4).
      destruct (Hhi (cup a c)) as [Hd Hsg].
      pose proof (Hx (cup a c) G1 (wf_in_range m _ G3)) as Ex.
      assert (W2 : wfcell ROps m (cdn a (cup a c))) by (rewrite G4; apply wfcell_interior; assumption).
      rewrite (bc_lhs_hi ROps RLaws m bc x a (cup a c) G1 G2 Hp G3 W2) in Ex. rewrite G4 in Ex.
      unfold bc_rhs in Ex. rewrite G1, G2, Hp in Ex. cbn [kadd kmul ksub kdiv kopp k1 ROps K] in Ex.
      replace (1 + 1) with 2 in Ex by lra.
      set (b := bcb ROps bc a true (cup a c)) in *. set (A := aoh ROps m bc a true (cup a c)) in *.
      assert (x c <= x (cup a c)); [|lra].
      apply (ghost_above b A (bcc ROps bc a true (cup a c)) (b / 2 + A) (x (cup a c)) (x c) lo); try assumption; try lra.
      apply Dhi.
    + left. apply interior_cells_spec. split; [apply interior_cup; [assumption|assumption|lia]|]. unfold cup. apply flat_cset; assumption.
Qed.

Theorem solution_lower_bound (alpha beta s old x : cvar ROps) (dt lo : R) :
  0 < dt -> (forall c, In c (interior_cells ROps m) -> 0 < alpha c /\ 0 <= beta c) ->
  is_solution ROps m bc (tlist D u alpha beta s old dt) x ->
  (forall c, In c (interior_cells ROps m) -> lo <= old c /\ beta c * lo <= s c) -> data_above lo ->
  forall c, In c (interior_cells ROps m) -> lo <= x c.
Proof.
  intros Hdt Hco Sx Hold Hdat c Hc.
  assert (Hd0 : dt <> 0) by lra.
  assert (H : - x c <= - lo); [|lra].
  apply (comparison_upper m D u (fun c => alpha c / dt + beta c) (fun c => - x c) (fun c => - (s c + alpha c / dt * old c)) (- lo) (interior_cells ROps m) Hne Hcells); [| | | | |exact Hc].
  - intros c0 Hc0. rewrite Lrow_neg. f_equal. apply be_row_Lrow. apply (is_solution_be_row m bc D u x alpha beta s old dt c0 Hd0 Sx). apply (in_cells_interior m); exact Hc0.
  - exact Hdiv.
  - intros c0 Hc0. destruct (Hco c0 Hc0) as [Ha Hb]. assert (0 < alpha c0 / dt) by (apply Rdiv_lt_0_compat; assumption). lra.
  - intros c0 Hc0. destruct (Hco c0 Hc0) as [Ha Hb]. destruct (Hold c0 Hc0) as [Ho Hs].
    assert (Hq : 0 < alpha c0 / dt) by (apply Rdiv_lt_0_compat; assumption).
    assert (alpha c0 / dt * lo <= alpha c0 / dt * old c0) by (apply Rmult_le_compat_l; lra). lra.
  - apply lower_closure_from_rows; [exact (proj2 Sx)|exact Hdat].
Qed.
End BoundsFromIsSolution.

(* ---- non-vacuity of the is_solution-level theorems ---- *)
Section ExampleSolution.
Local Open Scope R_scope.
(* the one-cell mesh [0,1] of ComparisonThy, homogeneous Dirichlet data on both sides, one backward-Euler step (dt = 1) of pure
   diffusion from the field 1: the solution is 1/5 (ghost values -1/5) *)
Definition exbc : BCs ROps := mkBCs ROps (fun _ _ _ => 0) (fun _ _ _ => 1) (fun _ _ _ => 0) (fun _ => false).
Definition exx : cvar ROps := fun c => match c with (S O, _, _) => 1 / 5 | _ => - (1 / 5) end.
Example is_solution_example :
  is_solution ROps exR exbc (tlist exD exu (fun _ => 1) (fun _ => 0) (fun _ => 0) (fun _ => 1) 1) exx.
Proof.
  split.
  - intros c Hc. pose proof (proj1 (interior_iff ROps exR c) Hc AX eq_refl) as B. cbn in B.
    destruct c as [[i j] k]. cbn [cidx] in B. assert (i = 1%nat) by lia. subst i.
    unfold sys_lhs, sys_rhs, tlist. cbn [map ksum fold_right term_lhs term_rhs].
    unfold apply_stencil, sum_axes, apply_axis. cbn. rewrite !exu_max, !exu_min. unfold exD. field_simplify. lra.
  - intros g Hg Hr. pose proof (Hr AX eq_refl) as B. cbn in B. destruct g as [[i j] k]. cbn [cidx] in B.
    assert (Hi : i = 0%nat \/ i = 1%nat \/ i = 2%nat) by lia.
    destruct Hi as [E|[E|E]]; subst i.
    + unfold bc_lhs, bc_rhs. cbn. field_simplify. lra.
    + cbn in Hg. discriminate.
    + unfold bc_lhs, bc_rhs. cbn. field_simplify. lra.
Qed.

(* ... and every hypothesis of solution_upper_bound / solution_lower_bound holds for it: the theorems apply and give 0 <= 1/5 <= 1 *)
Example bounds_apply : 0 <= exx (1, 0, 0)%nat <= 1.
Proof.
  destruct comparison_hyps_satisfiable as (_ & Hcells & _ & Hdiv & _).
  assert (Hne : interior_cells ROps exR <> []) by (cbn; discriminate).
  assert (Hsg : bc_sign_ok exR exbc).
  { intros a Ha. destruct a; try (cbn in Ha; discriminate). split; [reflexivity|]. unfold aoh. cbn. split; intros g; split; lra. }
  assert (Hin : In (1, 0, 0)%nat (interior_cells ROps exR)) by (cbn; left; reflexivity).
  split.
  - apply (solution_lower_bound exR exbc exD exu Hne Hcells Hdiv Hsg (fun _ => 1) (fun _ => 0) (fun _ => 0) (fun _ => 1) exx 1 0);
      [lra|intros; lra|exact is_solution_example|intros; lra| |exact Hin].
    intros a Ha. destruct a; try (cbn in Ha; discriminate). unfold aoh. cbn. split; intros g; lra.
  - apply (solution_upper_bound exR exbc exD exu Hne Hcells Hdiv Hsg (fun _ => 1) (fun _ => 0) (fun _ => 0) (fun _ => 1) exx 1 1);
      [lra|intros; lra|exact is_solution_example|intros; lra| |exact Hin].
    intros a Ha. destruct a; try (cbn in Ha; discriminate). unfold aoh. cbn. split; intros g; lra.
Qed.
End ExampleSolution.
