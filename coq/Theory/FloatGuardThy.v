(* Binary64: the zero guard _fsign returns a float of magnitude at least eps1 (exactly x, eps1 or -eps1: every operation in it is exact),
   so the gradient ratio a / _fsign(x) is a finite float for |a| <= 2^900. *)
From Coq Require Import ZArith Reals Lra Lia Bool Floats String List.
From Flocq Require Import Core.Core IEEE754.BinarySingleNaN.
From PFV Require Import OField KOps F64Ops FloatThy Limiters LimiterThy FloatLimThy FloatLim2Thy FloatLim3Thy.
Local Open Scope R_scope.
Local Instance prec_pos5 : Prec_gt_0 prec := eq_refl.
Local Instance fexp_valid5 : Valid_exp fexp := FLT_exp_valid emin prec.

(* f is a finite float denoting exactly v, |v| <= 2^1000 *)
Definition ex (f : PrimFloat.float) (v : R) : Prop := fin 1000 f /\ FR f = v.

Lemma ex_fmt f v : ex f v -> generic_format radix2 fexp v.
Proof. intros [_ E]. rewrite <- E. apply fmt_FR. Qed.

Lemma ex_add a b va vb : ex a va -> ex b vb -> generic_format radix2 fexp (va + vb) -> Rabs (va + vb) <= bpow radix2 1000 ->
  ex (PrimFloat.add a b) (va + vb).
Proof.
  intros [Ha Ea] [Hb Eb] G B. destruct (fin_add 1000 1000 a b Ha Hb eq_refl) as [[F _] R].
  assert (E : FR (PrimFloat.add a b) = va + vb) by (rewrite R, Ea, Eb; apply round_generic; [auto with typeclass_instances|exact G]).
  split; [split; [exact F|rewrite E; exact B]|exact E].
Qed.
Lemma ex_mul a b va vb : ex a va -> ex b vb -> generic_format radix2 fexp (va * vb) -> Rabs (va * vb) <= bpow radix2 1000 ->
  Rabs va <= bpow radix2 1 -> ex (PrimFloat.mul a b) (va * vb).
Proof.
  intros [Ha Ea] [Hb Eb] G B Bs.
  assert (Ha' : fin 1 a) by (split; [exact (proj1 Ha)|rewrite Ea; exact Bs]).
  destruct (fin_mul 1 1000 a b Ha' Hb eq_refl) as [[F _] R].
  assert (E : FR (PrimFloat.mul a b) = va * vb) by (rewrite R, Ea, Eb; apply round_generic; [auto with typeclass_instances|exact G]).
  split; [split; [exact F|rewrite E; exact B]|exact E].
Qed.
Lemma ex_opp a va : ex a va -> ex (PrimFloat.opp a) (- va).
Proof. intros [Ha Ea]. destruct (fin_opp 1000 a Ha) as [F E]. split; [exact F|rewrite E, Ea; reflexivity]. Qed.
Lemma ex_zero : ex zero 0.
Proof. destruct FR_zero as [F E]. split; [split; [exact F|rewrite E, Rabs_R0; apply bpow_ge_0]|exact E]. Qed.
Lemma ex_one : ex one 1.
Proof.
  destruct FR_one as [F E]. split; [split; [exact F|]|exact E]. rewrite E, Rabs_pos_eq by lra.
  change 1 with (bpow radix2 0). apply bpow_le. lia.
Qed.

Lemma b1000 : 2 <= bpow radix2 1000.
Proof. change 2 with (bpow radix2 1). apply bpow_le. lia. Qed.

Lemma bp1 : bpow radix2 1 = 2.
Proof. simpl. lra. Qed.
Ltac side := try (rewrite ?bp1, ?Rabs_R1, ?Rabs_R0; lra).
Ltac as_value v := match goal with |- ex ?f ?w => replace w with v by ring end.

Theorem fsign_exact eps x : fin 0 eps -> 0 < FR eps -> fin 1000 x ->
  exists v, ex (fsign FOps eps x) v /\ (v = FR x \/ v = FR eps \/ v = - FR eps) /\ FR eps <= Rabs v.
Proof.
  intros He Hp Hx. cbv [fsign]. unfold_model.
  pose proof b1000 as B2.
  assert (Xe : ex x (FR x)) by (split; [exact Hx|reflexivity]).
  assert (Ee : ex eps (FR eps)) by (split; [eapply fin_weaken; [exact He|lia]|reflexivity]).
  assert (Be : Rabs (FR eps) <= 1) by (destruct He as [_ B]; simpl in B; lra).
  assert (Bx : Rabs (FR x) <= bpow radix2 1000) by exact (proj2 Hx).
  destruct FR_zero as [Fz Ez]. destruct FR_one as [F1 E1].
  destruct (fin_opp 1000 x Hx) as [Hox Eox].
  assert (G0 : generic_format radix2 fexp 0) by apply generic_format_0.
  assert (Gx := fmt_FR x). assert (Ge := fmt_FR eps).
  assert (Gme : generic_format radix2 fexp (- FR eps)) by (apply generic_format_opp; exact Ge).
  (* the comparisons, as comparisons of reals *)
  rewrite (ltb_FR x zero (proj1 Hx) Fz), (ltb_FR zero x Fz (proj1 Hx)), (eqb_FR x zero (proj1 Hx) Fz), Ez.
  destruct (Rlt_bool_spec (FR x) 0) as [Hneg|Hnn].
  - (* x < 0 *)
    rewrite (leb_FR eps (PrimFloat.opp x) (proj1 He) (proj1 Hox)), (ltb_FR (PrimFloat.opp x) eps (proj1 Hox) (proj1 He)), Eox.
    rewrite (Rlt_bool_false 0 (FR x)) by lra. rewrite (Req_bool_false (FR x) 0) by lra.
    destruct (Rle_bool_spec (FR eps) (- FR x)) as [Hbig|Hsmall].
    + rewrite (Rlt_bool_false (- FR x) (FR eps)) by lra.
      exists (FR x). split; [|split; [left; reflexivity|rewrite Rabs_left by lra; lra]].
      as_value ((1 * FR x + FR eps * 0) + (FR eps * 0) * (- 1)).
      apply ex_add; [apply ex_add; [apply ex_mul; [apply ex_one|exact Xe| | | ]|apply ex_mul; [exact Ee|apply ex_zero| | | ]| | ]
                    |apply ex_mul; [apply ex_mul; [exact Ee|apply ex_zero| | | ]|apply ex_opp, ex_one| | | ]| | ];
        rewrite ?Rmult_1_l, ?Rmult_0_r, ?Rmult_0_l, ?Rplus_0_r, ?Rabs_R0; try assumption; try lra; side.
    + rewrite (Rlt_bool_true (- FR x) (FR eps)) by lra.
      exists (- FR eps). split; [|split; [right; right; reflexivity|rewrite Rabs_Ropp, Rabs_pos_eq by lra; lra]].
      as_value ((0 * FR x + FR eps * 0) + (FR eps * 1) * (- 1)).
      apply ex_add; [apply ex_add; [apply ex_mul; [apply ex_zero|exact Xe| | | ]|apply ex_mul; [exact Ee|apply ex_zero| | | ]| | ]
                    |apply ex_mul; [apply ex_mul; [exact Ee|apply ex_one| | | ]|apply ex_opp, ex_one| | | ]| | ];
        rewrite ?Rmult_1_r, ?Rmult_0_r, ?Rmult_0_l, ?Rplus_0_r, ?Rplus_0_l, ?Rabs_R0, ?Rabs_Ropp; try assumption; try lra;
        try (replace (FR eps * -1) with (- FR eps) by ring; rewrite ?Rabs_Ropp; try assumption; lra); side.
  - (* x >= 0 *)
    rewrite (leb_FR eps x (proj1 He) (proj1 Hx)), (ltb_FR x eps (proj1 Hx) (proj1 He)).
    destruct (Rlt_bool_spec 0 (FR x)) as [Hpos|Hz].
    + rewrite (Req_bool_false (FR x) 0) by lra.
      destruct (Rle_bool_spec (FR eps) (FR x)) as [Hbig|Hsmall].
      * rewrite (Rlt_bool_false (FR x) (FR eps)) by lra.
        exists (FR x). split; [|split; [left; reflexivity|rewrite Rabs_pos_eq by lra; lra]].
        as_value ((1 * FR x + FR eps * 0) + (FR eps * 0) * 1).
        apply ex_add; [apply ex_add; [apply ex_mul; [apply ex_one|exact Xe| | | ]|apply ex_mul; [exact Ee|apply ex_zero| | | ]| | ]
                      |apply ex_mul; [apply ex_mul; [exact Ee|apply ex_zero| | | ]|apply ex_one| | | ]| | ];
          rewrite ?Rmult_1_l, ?Rmult_0_r, ?Rmult_0_l, ?Rplus_0_r, ?Rabs_R0; try assumption; try lra; side.
      * rewrite (Rlt_bool_true (FR x) (FR eps)) by lra.
        exists (FR eps). split; [|split; [right; left; reflexivity|rewrite Rabs_pos_eq by lra; lra]].
        as_value ((0 * FR x + FR eps * 0) + (FR eps * 1) * 1).
        apply ex_add; [apply ex_add; [apply ex_mul; [apply ex_zero|exact Xe| | | ]|apply ex_mul; [exact Ee|apply ex_zero| | | ]| | ]
                      |apply ex_mul; [apply ex_mul; [exact Ee|apply ex_one| | | ]|apply ex_one| | | ]| | ];
          rewrite ?Rmult_1_r, ?Rmult_0_r, ?Rmult_0_l, ?Rplus_0_r, ?Rplus_0_l, ?Rabs_R0; try assumption; try lra; side.
    + assert (X0 : FR x = 0) by lra. rewrite X0 in *.
      rewrite Req_bool_true by reflexivity. rewrite (Rle_bool_false (FR eps) 0) by lra. rewrite (Rlt_bool_true 0 (FR eps)) by lra.
      exists (FR eps). split; [|split; [right; left; reflexivity|rewrite Rabs_pos_eq by lra; lra]].
      as_value ((0 * 0 + FR eps * 1) + (FR eps * 1) * 0).
      apply ex_add; [apply ex_add; [apply ex_mul; [apply ex_zero|exact Xe| | | ]|apply ex_mul; [exact Ee|apply ex_one| | | ]| | ]
                    |apply ex_mul; [apply ex_mul; [exact Ee|apply ex_one| | | ]|apply ex_zero| | | ]| | ];
        rewrite ?Rmult_1_r, ?Rmult_0_r, ?Rmult_0_l, ?Rplus_0_r, ?Rplus_0_l, ?Rabs_R0; try assumption; try lra; side.
Qed.

(* the gradient ratio a / _fsign(x): finite, and of magnitude <= 2^(k+100) for |a| <= 2^k, whatever x (zero, tiny, huge) *)
Theorem ratio_finite k eps a x : fin 0 eps -> pos (-100) eps -> fin k a -> fin 1000 x -> okexp (k - -100) = true ->
  fin (k - -100) (PrimFloat.div a (fsign FOps eps x)).
Proof.
  intros He Hp Ha Hx Hk.
  assert (Hp0 : 0 < FR eps) by (unfold pos in Hp; pose proof (bpow_gt_0 radix2 (-100)); lra).
  destruct (fsign_exact eps x He Hp0 Hx) as (v & [Hf Ev] & _ & Hv).
  refine (proj1 (fin_div k (-100) a _ Ha (proj1 Hf) _ Hk)).
  rewrite Ev. unfold pos in Hp. lra.
Qed.

From PFV Require Import FloatLim4Thy FloatAllThy.
(* ... so the limited value psi-factor FL(a / _fsign(x)) is a finite float for every pair of face gradients with |a| <= 2^400 *)
Theorem limited_ratio_finite name epsL eps1 a x : fin 0 epsL -> 0 < FR epsL -> fin 0 eps1 -> pos (-100) eps1 -> fin 400 a -> fin 1000 x ->
  ffin (FL_dispatch FOps name epsL (PrimFloat.div a (fsign FOps eps1 x))).
Proof.
  intros HL HLp H1 H1p Ha Hx. apply float_all_dispatch; [exact HL|exact HLp|].
  exact (ratio_finite 400 eps1 a x H1 H1p Ha Hx eq_refl).
Qed.

Lemma eps1_default_ok : fin 0 (eps1_default FOps) /\ pos (-100) (eps1_default FOps).
Proof.
  let v := eval vm_compute in (eps1_default FOps) in
    replace (eps1_default FOps) with v by (vm_compute; reflexivity).
  split.
  - eapply fin_weaken; [fin_tac|vm_compute; discriminate].
  - eapply pos_weaken; [pos_tac|vm_compute; discriminate].
Qed.
