(* C02 — Solutions converge to the exact solution of the documented PDE on every grid.
   PARTIAL by design: a convergence theorem (stability + consistency on nine curvilinear grids, non-uniform spacing) is not
   attempted.  Proved: on uniform spacing every metric factor, sign convention and coefficient placement of the diffusion and
   central advection stencils reproduces the continuous operator EXACTLY on a polynomial family that separates the factors
   (Cartesian: d*phi'' ; cylindrical r: (1/r)(r d phi_r)_r incl. the cell at the axis ; spherical r: (1/r^2)(r^2 d phi_r)_r ;
   angular: d*phi_thth / r^2), the SphericalGrid3D radial block (midpoint volume) with its exact second-order remainder, and
   (u phi)' = u beta.  The boundary relation is exact for fields linear in the normal coordinate (C03 theorems).  Convergence
   itself is exercised by manufactured-solution refinement on the implementation (all 9 classes, Dirichlet and Robin data). *)
From Coq Require Import Arith List.
From PFV Require Import OField KOps Grid Ops StencilThy MeasureThy ExactnessThy.

Theorem C02_exact_cartesian : forall (F : FieldOps) (L : FieldLaws F) (m : Mesh F) a c (h xi d al be ga : F),
  h <> k0 F -> mdxf F m a (cidx a c) = h /\ mdxf F m a (pred (cidx a c)) = h ->
  forall (D : fvar F), D a c = d /\ D a (cdn a c) = d ->
  forall (x : cvar F), x (cdn a c) = quad F al be ga (ksub F xi h) /\ x c = quad F al be ga xi /\ x (cup a c) = quad F al be ga (kadd F xi h) ->
  mfac F m a c = k1 F -> mA F m a (cidx a c) = k1 F -> mA F m a (pred (cidx a c)) = k1 F -> mW F m a (cidx a c) = h ->
  apply_axis F (diffAW F m D) (diffAP F m D) (diffAE F m D) x a c = kmul F (kmul F (kadd F (k1 F) (k1 F)) ga) d.
Proof. exact exact_cartesian. Qed.
Print Assumptions C02_exact_cartesian.

Theorem C02_exact_cylindrical_radial : forall (F : FieldOps) (L : FieldLaws F) (m : Mesh F) a c (h xi d al be ga : F),
  h <> k0 F -> mdxf F m a (cidx a c) = h /\ mdxf F m a (pred (cidx a c)) = h ->
  forall (D : fvar F), D a c = d /\ D a (cdn a c) = d ->
  forall (x : cvar F), x (cdn a c) = quad F al be ga (ksub F xi h) /\ x c = quad F al be ga xi /\ x (cup a c) = quad F al be ga (kadd F xi h) ->
  be = k0 F -> xi <> k0 F ->
  mfac F m a c = k1 F -> mA F m a (cidx a c) = kadd F xi (kdiv F h (kadd F (k1 F) (k1 F))) ->
  mA F m a (pred (cidx a c)) = ksub F xi (kdiv F h (kadd F (k1 F) (k1 F))) -> mW F m a (cidx a c) = kmul F xi h ->
  apply_axis F (diffAW F m D) (diffAP F m D) (diffAE F m D) x a c
  = kmul F (kmul F (kmul F (kadd F (k1 F) (k1 F)) (kadd F (k1 F) (k1 F))) ga) d.
Proof. exact exact_cylindrical_radial. Qed.
Print Assumptions C02_exact_cylindrical_radial.

Theorem C02_exact_spherical1D_radial : forall (F : FieldOps) (L : FieldLaws F) (m : Mesh F) a c (h xi d al be ga : F),
  h <> k0 F -> mdxf F m a (cidx a c) = h /\ mdxf F m a (pred (cidx a c)) = h ->
  forall (D : fvar F), D a c = d /\ D a (cdn a c) = d ->
  forall (x : cvar F), x (cdn a c) = quad F al be ga (ksub F xi h) /\ x c = quad F al be ga xi /\ x (cup a c) = quad F al be ga (kadd F xi h) ->
  be = k0 F ->
  let re := kadd F xi (kdiv F h (kadd F (k1 F) (k1 F))) in let rw := ksub F xi (kdiv F h (kadd F (k1 F) (k1 F))) in
  ksub F (kmul F (kmul F re re) re) (kmul F (kmul F rw rw) rw) <> k0 F ->
  mfac F m a c = k1 F -> mA F m a (cidx a c) = kmul F re re -> mA F m a (pred (cidx a c)) = kmul F rw rw ->
  mW F m a (cidx a c) = kdiv F (ksub F (kmul F (kmul F re re) re) (kmul F (kmul F rw rw) rw)) (kadd F (k1 F) (kadd F (k1 F) (k1 F))) ->
  apply_axis F (diffAW F m D) (diffAP F m D) (diffAE F m D) x a c
  = kmul F (kmul F (kmul F (kadd F (k1 F) (k1 F)) (kadd F (k1 F) (kadd F (k1 F) (k1 F)))) ga) d.
Proof. exact exact_spherical1D_radial. Qed.
Print Assumptions C02_exact_spherical1D_radial.

Theorem C02_spherical3D_radial_second_order : forall (F : FieldOps) (L : FieldLaws F) (m : Mesh F) a c (h xi d al be ga : F),
  h <> k0 F -> mdxf F m a (cidx a c) = h /\ mdxf F m a (pred (cidx a c)) = h ->
  forall (D : fvar F), D a c = d /\ D a (cdn a c) = d ->
  forall (x : cvar F), x (cdn a c) = quad F al be ga (ksub F xi h) /\ x c = quad F al be ga xi /\ x (cup a c) = quad F al be ga (kadd F xi h) ->
  be = k0 F -> xi <> k0 F ->
  let re := kadd F xi (kdiv F h (kadd F (k1 F) (k1 F))) in let rw := ksub F xi (kdiv F h (kadd F (k1 F) (k1 F))) in
  mfac F m a c = k1 F -> mA F m a (cidx a c) = kmul F re re -> mA F m a (pred (cidx a c)) = kmul F rw rw ->
  mW F m a (cidx a c) = kmul F (kmul F xi xi) h ->
  apply_axis F (diffAW F m D) (diffAP F m D) (diffAE F m D) x a c
  = kadd F (kmul F (kmul F (kmul F (kadd F (k1 F) (k1 F)) (kadd F (k1 F) (kadd F (k1 F) (k1 F)))) ga) d)
           (kdiv F (kmul F (kmul F (kmul F ga d) h) h) (kmul F (kmul F (kadd F (k1 F) (k1 F)) xi) xi)).
Proof. exact spherical3D_radial_remainder. Qed.
Print Assumptions C02_spherical3D_radial_second_order.

Theorem C02_exact_angular : forall (F : FieldOps) (L : FieldLaws F) (m : Mesh F) a c (h xi d al be ga : F),
  h <> k0 F -> mdxf F m a (cidx a c) = h /\ mdxf F m a (pred (cidx a c)) = h ->
  forall (D : fvar F), D a c = d /\ D a (cdn a c) = d ->
  forall (x : cvar F), x (cdn a c) = quad F al be ga (ksub F xi h) /\ x c = quad F al be ga xi /\ x (cup a c) = quad F al be ga (kadd F xi h) ->
  forall r : F, r <> k0 F ->
  mfac F m a c = kdiv F (k1 F) r -> mA F m a (cidx a c) = k1 F -> mA F m a (pred (cidx a c)) = k1 F -> mW F m a (cidx a c) = h ->
  apply_axis F (diffAW F m D) (diffAP F m D) (diffAE F m D) x a c = kdiv F (kmul F (kmul F (kadd F (k1 F) (k1 F)) ga) d) (kmul F r r).
Proof. exact exact_angular. Qed.
Print Assumptions C02_exact_angular.

Theorem C02_exact_central : forall (F : FieldOps) (L : FieldLaws F) (m : Mesh F) (u : fvar F) (x : cvar F) a c (h xi uc al be : F),
  h <> k0 F -> kadd F (k1 F) (k1 F) <> k0 F ->
  mfac F m a c = k1 F -> mA F m a (cidx a c) = k1 F -> mA F m a (pred (cidx a c)) = k1 F -> mW F m a (cidx a c) = h ->
  mDX F m a (cidx a c) = h -> mDX F m a (S (cidx a c)) = h -> mDX F m a (pred (cidx a c)) = h ->
  u a c = uc -> u a (cdn a c) = uc ->
  x (cdn a c) = kadd F al (kmul F be (ksub F xi h)) -> x c = kadd F al (kmul F be xi) -> x (cup a c) = kadd F al (kmul F be (kadd F xi h)) ->
  apply_axis F (cenAW F m u) (cenAP F m u) (cenAE F m u) x a c = kmul F uc be.
Proof. exact exact_central_cartesian. Qed.
Print Assumptions C02_exact_central.

From Coq Require Import Reals.
From PFV Require Import Boundary Solver StencilThy ConservThy MaxPrincipleThy MaxPrincipleModel ComparisonThy.

(* ---- stability half of convergence, on every grid class and dimension, non-uniform spacing included (Theory/ComparisonThy.v):
   if the exact solution e (sampled at the cell centres, extended to the ghost cells by the boundary relations) satisfies the rows
   of the assembled system up to a truncation error tau, the discrete solution x is within  max|tau| / min(kap)  of it.
   kap = alpha/dt + beta > 0;  D >= 0;  u discretely divergence-free, upwind scheme;  closures: Dirichlet, no-flux, Robin of one
   sign, periodic.  With the exactness theorems above (tau = 0 on the polynomial families, i.e. second-order truncation on smooth
   solutions) this is the Lax argument; the Taylor remainder bound is formalised for the Cartesian uniform axis only (end of this file). ---- *)
Section C02b.
Import ListNotations.
Local Open Scope R_scope.
Theorem C02_error_bounded_by_truncation : forall (m : Mesh ROps) (D u : fvar ROps) (cells : list cell),
  cells <> [] ->
  (forall c a, In c cells -> In a (active_axes ROps m) -> (1 <= cidx a c <= mN ROps m a)%nat /\ signs_ok m D c a) ->
  (forall c, In c cells -> rsuml (fun a => divrow ROps m u a c) (active_axes ROps m) = 0) ->
  forall (kap s x e tau : cvar ROps) (T k0' : R),
  0 <= T -> 0 < k0' ->
  (forall c, In c cells -> k0' <= kap c) ->
  (forall c, In c cells -> Lrow m D u kap x c = s c) ->
  (forall c, In c cells -> Lrow m D u kap e c = s c + tau c) ->
  (forall c, In c cells -> Rabs (tau c) <= T) ->
  (forall c a, In c cells -> In a (active_axes ROps m) ->
     nb_homog cells (fun c => x c - e c) c (cdn a c) /\ nb_homog cells (fun c => x c - e c) c (cup a c)) ->
  forall c, In c cells -> Rabs (x c - e c) <= T / k0'.
Proof. exact error_bounded_by_truncation. Qed.
Theorem C02_stability : forall (m : Mesh ROps) (D u : fvar ROps) (kap x e f g : cvar ROps) (E : R) (cells : list cell),
  cells <> [] ->
  (forall c a, In c cells -> In a (active_axes ROps m) -> (1 <= cidx a c <= mN ROps m a)%nat /\ signs_ok m D c a) ->
  (forall c, In c cells -> Lrow m D u kap x c = f c) ->
  (forall c, In c cells -> Lrow m D u kap e c = g c) ->
  (forall c, In c cells -> rsuml (fun a => divrow ROps m u a c) (active_axes ROps m) = 0) ->
  (forall c, In c cells -> 0 < kap c) ->
  0 <= E -> (forall c, In c cells -> Rabs (f c - g c) <= kap c * E) ->
  (forall c a, In c cells -> In a (active_axes ROps m) ->
     nb_homog cells (fun c => x c - e c) c (cdn a c) /\ nb_homog cells (fun c => x c - e c) c (cup a c)) ->
  forall c, In c cells -> Rabs (x c - e c) <= E.
Proof. exact stability. Qed.
(* the closure hypothesis follows from the boundary rows *)
Theorem C02_robin_closure : forall b aoh c xg xi eg ei : R,
  b / 2 + aoh <> 0 -> 0 <= b * (b / 2 + aoh) ->
  (b / 2 + aoh) * xg + (b / 2 - aoh) * xi = c ->
  (b / 2 + aoh) * eg + (b / 2 - aoh) * ei = c ->
  exists rho, rho <= 1 /\ xg - eg = rho * (xi - ei).
Proof. exact robin_ghost_ratio. Qed.
End C02b.
Print Assumptions C02_error_bounded_by_truncation.
Print Assumptions C02_stability.
Print Assumptions C02_robin_closure.

(* stability for fields that satisfy the boundary rows of the assembled system: hypotheses on the data only (Theory/ClosureThy.v) *)
From PFV Require Import ClosureThy.
Theorem C02_stability_of_solutions : forall (m : Mesh ROps) (bc : BCs ROps) (D u : fvar ROps),
  interior_cells ROps m <> nil ->
  (forall c a, In c (interior_cells ROps m) -> In a (active_axes ROps m) -> (1 <= cidx a c <= mN ROps m a)%nat /\ signs_ok m D c a) ->
  (forall c, In c (interior_cells ROps m) -> rsuml (fun a => divrow ROps m u a c) (active_axes ROps m) = 0%R) ->
  bc_sign_ok m bc ->
  forall (kap x e f g : cvar ROps) (E : R),
  bc_rows m bc x -> bc_rows m bc e ->
  (forall c, In c (interior_cells ROps m) -> Lrow m D u kap x c = f c) ->
  (forall c, In c (interior_cells ROps m) -> Lrow m D u kap e c = g c) ->
  (forall c, In c (interior_cells ROps m) -> (0 < kap c)%R) ->
  (0 <= E)%R -> (forall c, In c (interior_cells ROps m) -> (Rabs (f c - g c) <= kap c * E)%R) ->
  forall c, In c (interior_cells ROps m) -> (Rabs (x c - e c) <= E)%R.
Proof. exact stability_of_solutions. Qed.
Print Assumptions C02_stability_of_solutions.

(* ---- consistency for ARBITRARY smooth functions (session 3): the Taylor remainder of the second difference, with its constant, from
   Coquelicot's Taylor-Lagrange formula; and in the form of the model's diffusion stencil on a uniform Cartesian axis with constant d.
   Together with C02_error_bounded_by_truncation this bounds the contribution of interior rows by |d| max|f^(4)| h^2 / (12 min kap).
   Still not formalised: the remainder on the curvilinear axes and on non-uniform spacing, and the boundary rows (whose truncation
   error in the cell-centred ghost-cell form is O(1) for Dirichlet data, so that second-order convergence needs a finer argument
   than stability x truncation). ---- *)
From Coquelicot Require Import Coquelicot.
From Coq Require Import Lra.
From PFV Require Import TaylorThy.
Theorem C02_taylor_second_difference : forall f : R -> R, (forall t k, (k <= 4)%nat -> ex_derive_n f k t) ->
  forall x h M : R, (0 < h)%R ->
  (forall t, (x - h < t < x + h)%R -> (Rabs (Derive_n f 4 t) <= M)%R) ->
  (Rabs ((f (x + h) - 2 * f x + f (x - h)) / (h * h) - Derive_n f 2 x) <= M * (h * h) / 12)%R.
Proof. exact second_difference_remainder. Qed.
Print Assumptions C02_taylor_second_difference.
Theorem C02_taylor_cartesian_axis : forall (f : R -> R) (m : Mesh ROps) (a : axis) (c : cell) (h xi d M : R) (D : fvar ROps) (x : cvar ROps),
  (forall t k, (k <= 4)%nat -> ex_derive_n f k t) ->
  (0 < h)%R -> mdxf ROps m a (cidx a c) = h /\ mdxf ROps m a (pred (cidx a c)) = h ->
  D a c = d /\ D a (cdn a c) = d ->
  x (cdn a c) = f (xi - h)%R /\ x c = f xi /\ x (cup a c) = f (xi + h)%R ->
  mfac ROps m a c = 1%R -> mA ROps m a (cidx a c) = 1%R -> mA ROps m a (pred (cidx a c)) = 1%R -> mW ROps m a (cidx a c) = h ->
  (forall t, (xi - h < t < xi + h)%R -> (Rabs (Derive_n f 4 t) <= M)%R) ->
  (Rabs (apply_axis ROps (diffAW ROps m D) (diffAP ROps m D) (diffAE ROps m D) x a c - d * Derive_n f 2 xi)
   <= Rabs d * (M * (h * h) / 12))%R.
Proof. exact taylor_cartesian_axis. Qed.
Print Assumptions C02_taylor_cartesian_axis.
(* non-vacuity, and the constant is sharp: for f = x^4 (f^(4) = 24) the remainder is exactly 2 h^2 = 24 h^2 / 12 *)
Example C02_taylor_nonvacuous : forall x h : R, (0 < h)%R ->
  (Rabs (((x + h) ^ 4 - 2 * x ^ 4 + (x - h) ^ 4) / (h * h) - Derive_n (fun t => t ^ 4) 2 x) <= 24 * (h * h) / 12)%R.
Proof.
  intros x h Hh. apply (C02_taylor_second_difference (fun t => t ^ 4)%R); [|exact Hh|].
  - intros t k _. apply ex_derive_n_pow.
  - intros t _. rewrite Derive_n_pow_smalli by apply le_n. rewrite Nat.sub_diag. simpl.
    replace ((1 + 1 + 1 + 1) * ((1 + 1 + 1) * ((1 + 1) * 1)) / 1 * 1)%R with 24%R by field.
    rewrite Rabs_pos_eq by lra. lra.
Qed.

(* ---- a CONVERGENCE theorem (consistency x stability) in the simplest configuration: uniform Cartesian axis (Grid1D), constant
   diffusivity d >= 0, no advection, kap = alpha/dt + beta >= k0 > 0; the closure of the error across the ends of the cell range is
   `nb_homog` (periodic wrap, or boundary rows satisfied exactly by both the discrete solution and the sampled exact solution):
   the discrete solution of  kap x - d Laplace_h x = kap f - d f''  is within  d max|f''''| h^2 / (12 k0)  of the exact solution f
   at every cell centre -- second order, with the constant. ---- *)
Theorem C02_convergence_cartesian_1D : forall (f : R -> R) (m : Mesh ROps) (D u : fvar ROps) (kap x : cvar ROps) (xi : cell -> R)
  (cells : list cell) (h d M k0' : R),
  mcls ROps m = G1 ->
  cells <> nil ->
  (forall c a, In c cells -> In a (active_axes ROps m) -> (1 <= cidx a c <= mN ROps m a)%nat /\ signs_ok m D c a) ->
  (forall a c, u a c = 0%R) ->
  (0 < h)%R -> (0 <= d)%R -> (0 < k0')%R -> (forall c, In c cells -> (k0' <= kap c)%R) ->
  (forall c, In c cells ->
     mdxf ROps m AX (cidx AX c) = h /\ mdxf ROps m AX (pred (cidx AX c)) = h /\ mfac ROps m AX c = 1%R /\
     mA ROps m AX (cidx AX c) = 1%R /\ mA ROps m AX (pred (cidx AX c)) = 1%R /\ mW ROps m AX (cidx AX c) = h /\
     D AX c = d /\ D AX (cdn AX c) = d) ->
  (forall t k, (k <= 4)%nat -> ex_derive_n f k t) ->
  (forall t, (Rabs (Derive_n f 4 t) <= M)%R) ->
  (forall c, In c cells -> xi (cup AX c) = (xi c + h)%R /\ xi (cdn AX c) = (xi c - h)%R) ->
  (forall c, In c cells -> Lrow m D u kap x c = (kap c * f (xi c) - d * Derive_n f 2 (xi c))%R) ->
  (forall c a, In c cells -> In a (active_axes ROps m) ->
     nb_homog cells (fun c => (x c - f (xi c))%R) c (cdn a c) /\ nb_homog cells (fun c => (x c - f (xi c))%R) c (cup a c)) ->
  forall c, In c cells -> (Rabs (x c - f (xi c)) <= d * (M * (h * h) / 12) / k0')%R.
Proof. exact convergence_cartesian_1D. Qed.
Print Assumptions C02_convergence_cartesian_1D.
(* its hypotheses are satisfiable (one-cell mesh, f = t^2 sampled at the cell and ghost centres: the scheme is exact on quadratics) *)
Example C02_convergence_nonvacuous :
  let cells := ((1, 0, 0)%nat :: nil) in
  let x := fun c => exf (exxi c) in
  mcls ROps exR = G1 /\ cells <> nil /\
  (forall c a, In c cells -> In a (active_axes ROps exR) -> (1 <= cidx a c <= mN ROps exR a)%nat /\ signs_ok exR exD c a) /\
  (forall a c, exu a c = 0%R) /\
  (forall c, In c cells ->
     mdxf ROps exR AX (cidx AX c) = 1%R /\ mdxf ROps exR AX (pred (cidx AX c)) = 1%R /\ mfac ROps exR AX c = 1%R /\
     mA ROps exR AX (cidx AX c) = 1%R /\ mA ROps exR AX (pred (cidx AX c)) = 1%R /\ mW ROps exR AX (cidx AX c) = 1%R /\
     exD AX c = 1%R /\ exD AX (cdn AX c) = 1%R) /\
  (forall t k, (k <= 4)%nat -> ex_derive_n exf k t) /\
  (forall t, (Rabs (Derive_n exf 4 t) <= 0)%R) /\
  (forall c, In c cells -> exxi (cup AX c) = (exxi c + 1)%R /\ exxi (cdn AX c) = (exxi c - 1)%R) /\
  (forall c, In c cells -> Lrow exR exD exu (fun _ => 1%R) x c = (1 * exf (exxi c) - 1 * Derive_n exf 2 (exxi c))%R) /\
  (forall c a, In c cells -> In a (active_axes ROps exR) ->
     nb_homog cells (fun c => (x c - exf (exxi c))%R) c (cdn a c) /\ nb_homog cells (fun c => (x c - exf (exxi c))%R) c (cup a c)).
Proof. exact convergence_hyps_satisfiable. Qed.

(* ---- consistency of the ADVECTION stencil for arbitrary C3 functions (Theory/Taylor1Thy.v): the Taylor remainder of the central
   first difference, and its form for the model's central convection stencil (convectionTerm) with constant face velocity on a
   uniform Cartesian axis:  | stencil - u f'(xi) | <= |u| max|f'''| h^2 / 6. ---- *)
From PFV Require Import Taylor1Thy.
Theorem C02_taylor_central_difference : forall f : R -> R, (forall t k, (k <= 3)%nat -> ex_derive_n f k t) ->
  forall x h M : R, (0 < h)%R ->
  (forall t, (x - h < t < x + h)%R -> (Rabs (Derive_n f 3 t) <= M)%R) ->
  (Rabs ((f (x + h) - f (x - h)) / (2 * h) - Derive_n f 1 x) <= M * (h * h) / 6)%R.
Proof. exact central_difference_remainder. Qed.
Print Assumptions C02_taylor_central_difference.
Theorem C02_taylor_central_cartesian_axis : forall (f : R -> R) (m : Mesh ROps) (a : axis) (c : cell) (h xi uc M : R) (u : fvar ROps) (x : cvar ROps),
  (forall t k, (k <= 3)%nat -> ex_derive_n f k t) ->
  (0 < h)%R ->
  mfac ROps m a c = 1%R -> mA ROps m a (cidx a c) = 1%R -> mA ROps m a (pred (cidx a c)) = 1%R -> mW ROps m a (cidx a c) = h ->
  mDX ROps m a (cidx a c) = h /\ mDX ROps m a (S (cidx a c)) = h /\ mDX ROps m a (pred (cidx a c)) = h ->
  u a c = uc /\ u a (cdn a c) = uc ->
  x (cdn a c) = f (xi - h)%R /\ x c = f xi /\ x (cup a c) = f (xi + h)%R ->
  (forall t, (xi - h < t < xi + h)%R -> (Rabs (Derive_n f 3 t) <= M)%R) ->
  (Rabs (apply_axis ROps (cenAW ROps m u) (cenAP ROps m u) (cenAE ROps m u) x a c - uc * Derive_n f 1 xi)
   <= Rabs uc * (M * (h * h) / 6))%R.
Proof. exact taylor_central_cartesian_axis. Qed.
Print Assumptions C02_taylor_central_cartesian_axis.
(* non-vacuity, and the constant is sharp: for f = x^3 (f''' = 6) the remainder is exactly h^2 = 6 h^2 / 6 *)
Example C02_taylor_central_nonvacuous : forall x h : R, (0 < h)%R ->
  (Rabs (((x + h) ^ 3 - (x - h) ^ 3) / (2 * h) - Derive_n (fun t => t ^ 3) 1 x) <= 6 * (h * h) / 6)%R.
Proof.
  intros x h Hh. apply (C02_taylor_central_difference (fun t => t ^ 3)%R); [|exact Hh|].
  - intros t k _. apply ex_derive_n_pow.
  - intros t _. rewrite Derive_n_pow_smalli by apply le_n. rewrite Nat.sub_diag. simpl.
    replace ((1 + 1 + 1) * ((1 + 1) * 1) / 1 * 1)%R with 6%R by field.
    rewrite Rabs_pos_eq by lra. lra.
Qed.

(* ---- first-order consistency of the UPWIND stencil (convectionUpwindTerm), interior cell of a uniform Cartesian axis, constant
   face velocity of either sign: the one-sided differences and the model's stencil, | stencil - u f'(xi) | <= |u| max|f''| h / 2 ---- *)
Theorem C02_taylor_backward_difference : forall f : R -> R, (forall t k, (k <= 2)%nat -> ex_derive_n f k t) ->
  forall x h M : R, (0 < h)%R ->
  (forall t, (x - h < t < x + h)%R -> (Rabs (Derive_n f 2 t) <= M)%R) ->
  (Rabs ((f x - f (x - h)) / h - Derive_n f 1 x) <= M * h / 2)%R.
Proof. exact backward_difference_remainder. Qed.
Print Assumptions C02_taylor_backward_difference.
Theorem C02_taylor_forward_difference : forall f : R -> R, (forall t k, (k <= 2)%nat -> ex_derive_n f k t) ->
  forall x h M : R, (0 < h)%R ->
  (forall t, (x - h < t < x + h)%R -> (Rabs (Derive_n f 2 t) <= M)%R) ->
  (Rabs ((f (x + h) - f x) / h - Derive_n f 1 x) <= M * h / 2)%R.
Proof. exact forward_difference_remainder. Qed.
Print Assumptions C02_taylor_forward_difference.
Theorem C02_taylor_upwind_cartesian_axis : forall (f : R -> R) (m : Mesh ROps) (a : axis) (c : cell) (h xi uc M : R) (u : fvar ROps) (x : cvar ROps),
  (forall t k, (k <= 2)%nat -> ex_derive_n f k t) ->
  (0 < h)%R -> uc <> 0%R ->
  is_lo a c = false -> is_hi ROps m a c = false ->
  mfac ROps m a c = 1%R -> mA ROps m a (cidx a c) = 1%R -> mA ROps m a (pred (cidx a c)) = 1%R -> mW ROps m a (cidx a c) = h ->
  u a c = uc /\ u a (cdn a c) = uc ->
  x (cdn a c) = f (xi - h)%R /\ x c = f xi /\ x (cup a c) = f (xi + h)%R ->
  (forall t, (xi - h < t < xi + h)%R -> (Rabs (Derive_n f 2 t) <= M)%R) ->
  (Rabs (apply_axis ROps (upwAW ROps m u u) (upwAP ROps m u u) (upwAE ROps m u u) x a c - uc * Derive_n f 1 xi)
   <= Rabs uc * (M * h / 2))%R.
Proof. exact taylor_upwind_cartesian_axis. Qed.
Print Assumptions C02_taylor_upwind_cartesian_axis.
(* non-vacuity, and the constant is sharp: for f = x^2 (f'' = 2) the backward remainder is exactly h = 2 h / 2 *)
Example C02_taylor_upwind_nonvacuous : forall x h : R, (0 < h)%R ->
  (Rabs ((x ^ 2 - (x - h) ^ 2) / h - Derive_n (fun t => t ^ 2) 1 x) <= 2 * h / 2)%R.
Proof.
  intros x h Hh. apply (C02_taylor_backward_difference (fun t => t ^ 2)%R); [|exact Hh|].
  - intros t k _. apply ex_derive_n_pow.
  - intros t _. rewrite Derive_n_pow_smalli by apply le_n. rewrite Nat.sub_diag. simpl.
    replace ((1 + 1) * 1 / 1 * 1)%R with 2%R by field.
    rewrite Rabs_pos_eq by lra. lra.
Qed.

(* ---- a second CONVERGENCE theorem (consistency x stability): upwind advection-diffusion on a uniform Cartesian axis (Grid1D), constant
   d >= 0, constant face velocity uc <> 0 of either sign, kap = alpha/dt + beta >= k0 > 0, over a range of cells where the upwind
   stencil has its interior form, closure of the error across the ends of the range `nb_homog`: the discrete solution of
   kap x - d Laplace_h x + uc Upwind_h x = kap f - d f'' + uc f'  is within  (d max|f''''| h^2/12 + |uc| max|f''| h/2) / k0  of f at
   every cell centre of the range -- first order, with the constant. ---- *)
From PFV Require Import ConvUpwindThy.
Theorem C02_convergence_upwind_cartesian_1D : forall (f : R -> R) (m : Mesh ROps) (D u : fvar ROps) (kap x : cvar ROps) (xi : cell -> R)
  (cells : list cell) (h d uc M4 M2 k0' : R),
  mcls ROps m = G1 ->
  cells <> nil ->
  (forall c a, In c cells -> In a (active_axes ROps m) -> (1 <= cidx a c <= mN ROps m a)%nat /\ signs_ok m D c a) ->
  (forall a c, u a c = uc) -> uc <> 0%R ->
  (0 < h)%R -> (0 <= d)%R -> (0 < k0')%R -> (forall c, In c cells -> (k0' <= kap c)%R) ->
  (forall c, In c cells ->
     is_lo AX c = false /\ is_hi ROps m AX c = false /\
     mdxf ROps m AX (cidx AX c) = h /\ mdxf ROps m AX (pred (cidx AX c)) = h /\ mfac ROps m AX c = 1%R /\
     mA ROps m AX (cidx AX c) = 1%R /\ mA ROps m AX (pred (cidx AX c)) = 1%R /\ mW ROps m AX (cidx AX c) = h /\
     D AX c = d /\ D AX (cdn AX c) = d) ->
  (forall t k, (k <= 4)%nat -> ex_derive_n f k t) ->
  (forall t, (Rabs (Derive_n f 4 t) <= M4)%R) -> (forall t, (Rabs (Derive_n f 2 t) <= M2)%R) ->
  (forall c, In c cells -> xi (cup AX c) = (xi c + h)%R /\ xi (cdn AX c) = (xi c - h)%R) ->
  (forall c, In c cells -> Lrow m D u kap x c = (kap c * f (xi c) - d * Derive_n f 2 (xi c) + uc * Derive_n f 1 (xi c))%R) ->
  (forall c a, In c cells -> In a (active_axes ROps m) ->
     nb_homog cells (fun c => (x c - f (xi c))%R) c (cdn a c) /\ nb_homog cells (fun c => (x c - f (xi c))%R) c (cup a c)) ->
  forall c, In c cells -> (Rabs (x c - f (xi c)) <= (d * (M4 * (h * h) / 12) + Rabs uc * (M2 * h / 2)) / k0')%R.
Proof. exact convergence_upwind_cartesian_1D. Qed.
Print Assumptions C02_convergence_upwind_cartesian_1D.
(* its hypotheses are satisfiable (three unit cells, the middle one as the range, d = uc = kap = 1, f(t) = t) *)
Example C02_convergence_upwind_nonvacuous :
  let cells := ((2, 0, 0)%nat :: nil) in
  let x := fun c => exf1 (exxi c) in
  mcls ROps exR3 = G1 /\ cells <> nil /\
  (forall c a, In c cells -> In a (active_axes ROps exR3) -> (1 <= cidx a c <= mN ROps exR3 a)%nat /\ signs_ok exR3 exD c a) /\
  (forall a c, exu1 a c = 1%R) /\ 1%R <> 0%R /\
  (forall c, In c cells ->
     is_lo AX c = false /\ is_hi ROps exR3 AX c = false /\
     mdxf ROps exR3 AX (cidx AX c) = 1%R /\ mdxf ROps exR3 AX (pred (cidx AX c)) = 1%R /\ mfac ROps exR3 AX c = 1%R /\
     mA ROps exR3 AX (cidx AX c) = 1%R /\ mA ROps exR3 AX (pred (cidx AX c)) = 1%R /\ mW ROps exR3 AX (cidx AX c) = 1%R /\
     exD AX c = 1%R /\ exD AX (cdn AX c) = 1%R) /\
  (forall t k, (k <= 4)%nat -> ex_derive_n exf1 k t) /\
  (forall t, (Rabs (Derive_n exf1 4 t) <= 0)%R) /\ (forall t, (Rabs (Derive_n exf1 2 t) <= 0)%R) /\
  (forall c, In c cells -> exxi (cup AX c) = (exxi c + 1)%R /\ exxi (cdn AX c) = (exxi c - 1)%R) /\
  (forall c, In c cells -> Lrow exR3 exD exu1 (fun _ => 1%R) x c = (1 * exf1 (exxi c) - 1 * Derive_n exf1 2 (exxi c) + 1 * Derive_n exf1 1 (exxi c))%R) /\
  (forall c a, In c cells -> In a (active_axes ROps exR3) ->
     nb_homog cells (fun c => (x c - exf1 (exxi c))%R) c (cdn a c) /\ nb_homog cells (fun c => (x c - exf1 (exxi c))%R) c (cup a c)).
Proof. exact convergence_upwind_hyps_satisfiable. Qed.

(* ---- a third CONVERGENCE theorem: the diffusion scheme on uniform Cartesian grids of ANY dimension (Grid1D / Grid2D / Grid3D), constant
   d >= 0, no advection, kap >= k0 > 0.  The exact solution e enters through its restrictions g c a to the grid line through the centre
   of cell c along axis a (parameter 0 at the centre), so that no multivariate calculus is needed; the right-hand side of the discrete
   equations is kap e - d sum_a g_{c,a}''(0) (= kap e - d Laplace e).  Then  max|x_c - e_c| <= sum_a d max|g_a''''| h_a^2 / 12 / k0:
   second order in every spacing, with the constant. ---- *)
From PFV Require Import ConvCartNDThy.
Theorem C02_convergence_cartesian_nD : forall (m : Mesh ROps) (D u : fvar ROps) (kap x e : cvar ROps) (g : cell -> axis -> R -> R)
  (cells : list cell) (h M : axis -> R) (d k0' : R),
  cells <> nil ->
  (forall c a, In c cells -> In a (active_axes ROps m) -> (1 <= cidx a c <= mN ROps m a)%nat /\ signs_ok m D c a) ->
  (forall a c, u a c = 0%R) ->
  (forall a, In a (active_axes ROps m) -> (0 < h a)%R) -> (0 <= d)%R -> (0 < k0')%R -> (forall c, In c cells -> (k0' <= kap c)%R) ->
  (forall c a, In c cells -> In a (active_axes ROps m) ->
     mdxf ROps m a (cidx a c) = h a /\ mdxf ROps m a (pred (cidx a c)) = h a /\ mfac ROps m a c = 1%R /\
     mA ROps m a (cidx a c) = 1%R /\ mA ROps m a (pred (cidx a c)) = 1%R /\ mW ROps m a (cidx a c) = h a /\
     D a c = d /\ D a (cdn a c) = d) ->
  (forall c a t k, (k <= 4)%nat -> ex_derive_n (g c a) k t) ->
  (forall c a t, (Rabs (Derive_n (g c a) 4 t) <= M a)%R) ->
  (forall c a, In c cells -> In a (active_axes ROps m) ->
     e (cdn a c) = g c a (0 - h a)%R /\ e c = g c a 0%R /\ e (cup a c) = g c a (0 + h a)%R) ->
  (forall c, In c cells ->
     Lrow m D u kap x c = (kap c * e c - rsuml (fun a => d * Derive_n (g c a) 2 0) (active_axes ROps m))%R) ->
  (forall c a, In c cells -> In a (active_axes ROps m) ->
     nb_homog cells (fun c => (x c - e c)%R) c (cdn a c) /\ nb_homog cells (fun c => (x c - e c)%R) c (cup a c)) ->
  forall c, In c cells ->
    (Rabs (x c - e c) <= rsuml (fun a => d * (M a * (h a * h a) / 12)) (active_axes ROps m) / k0')%R.
Proof. exact convergence_cartesian_nD. Qed.
Print Assumptions C02_convergence_cartesian_nD.
(* its hypotheses are satisfiable in two dimensions (one-cell Grid2D mesh, both axes active, constant field 7) *)
Example C02_convergence_nD_nonvacuous :
  let cells := ((1, 1, 0)%nat :: nil) in
  let e := fun _ : cell => 7%R in
  cells <> nil /\
  (forall c a, In c cells -> In a (active_axes ROps exR2) -> (1 <= cidx a c <= mN ROps exR2 a)%nat /\ signs_ok exR2 exD c a) /\
  (forall a c, exu a c = 0%R) /\
  (forall a, In a (active_axes ROps exR2) -> (0 < 1)%R) /\
  (forall c a, In c cells -> In a (active_axes ROps exR2) ->
     mdxf ROps exR2 a (cidx a c) = 1%R /\ mdxf ROps exR2 a (pred (cidx a c)) = 1%R /\ mfac ROps exR2 a c = 1%R /\
     mA ROps exR2 a (cidx a c) = 1%R /\ mA ROps exR2 a (pred (cidx a c)) = 1%R /\ mW ROps exR2 a (cidx a c) = 1%R /\
     exD a c = 1%R /\ exD a (cdn a c) = 1%R) /\
  (forall c a t k, (k <= 4)%nat -> ex_derive_n (exg c a) k t) /\
  (forall c a t, (Rabs (Derive_n (exg c a) 4 t) <= 0)%R) /\
  (forall c a, In c cells -> In a (active_axes ROps exR2) ->
     e (cdn a c) = exg c a (0 - 1)%R /\ e c = exg c a 0%R /\ e (cup a c) = exg c a (0 + 1)%R) /\
  (forall c, In c cells ->
     Lrow exR2 exD exu (fun _ => 1%R) e c = (1 * e c - rsuml (fun a => 1 * Derive_n (exg c a) 2 0) (active_axes ROps exR2))%R) /\
  (forall c a, In c cells -> In a (active_axes ROps exR2) ->
     nb_homog cells (fun c => (e c - e c)%R) c (cdn a c) /\ nb_homog cells (fun c => (e c - e c)%R) c (cup a c)).
Proof. exact convergence_nD_hyps_satisfiable. Qed.

(* ---- a fourth CONVERGENCE theorem: upwind advection-diffusion on uniform Cartesian grids of ANY dimension, constant d >= 0, a constant
   non-zero face velocity per axis (either sign), over cells where the upwind stencil has its interior form along every axis:
   max|x_c - e_c| <= sum_a (d max|g_a''''| h_a^2/12 + |uc_a| max|g_a''| h_a/2) / k0 -- first order, with the constant. ---- *)
From PFV Require Import ConvUpwindNDThy.
Theorem C02_convergence_upwind_cartesian_nD : forall (m : Mesh ROps) (D u : fvar ROps) (kap x e : cvar ROps) (g : cell -> axis -> R -> R)
  (cells : list cell) (h uc M4 M2 : axis -> R) (d k0' : R),
  cells <> nil ->
  (forall c a, In c cells -> In a (active_axes ROps m) -> (1 <= cidx a c <= mN ROps m a)%nat /\ signs_ok m D c a) ->
  (forall a c, u a c = uc a) -> (forall a, In a (active_axes ROps m) -> uc a <> 0%R) ->
  (forall a, In a (active_axes ROps m) -> (0 < h a)%R) -> (0 <= d)%R -> (0 < k0')%R -> (forall c, In c cells -> (k0' <= kap c)%R) ->
  (forall c a, In c cells -> In a (active_axes ROps m) ->
     is_lo a c = false /\ is_hi ROps m a c = false /\
     mdxf ROps m a (cidx a c) = h a /\ mdxf ROps m a (pred (cidx a c)) = h a /\ mfac ROps m a c = 1%R /\
     mA ROps m a (cidx a c) = 1%R /\ mA ROps m a (pred (cidx a c)) = 1%R /\ mW ROps m a (cidx a c) = h a /\
     D a c = d /\ D a (cdn a c) = d) ->
  (forall c a t k, (k <= 4)%nat -> ex_derive_n (g c a) k t) ->
  (forall c a t, (Rabs (Derive_n (g c a) 4 t) <= M4 a)%R) -> (forall c a t, (Rabs (Derive_n (g c a) 2 t) <= M2 a)%R) ->
  (forall c a, In c cells -> In a (active_axes ROps m) ->
     e (cdn a c) = g c a (0 - h a)%R /\ e c = g c a 0%R /\ e (cup a c) = g c a (0 + h a)%R) ->
  (forall c, In c cells ->
     Lrow m D u kap x c
     = (kap c * e c - rsuml (fun a => d * Derive_n (g c a) 2 0 - uc a * Derive_n (g c a) 1 0) (active_axes ROps m))%R) ->
  (forall c a, In c cells -> In a (active_axes ROps m) ->
     nb_homog cells (fun c => (x c - e c)%R) c (cdn a c) /\ nb_homog cells (fun c => (x c - e c)%R) c (cup a c)) ->
  forall c, In c cells ->
    (Rabs (x c - e c)
     <= rsuml (fun a => d * (M4 a * (h a * h a) / 12) + Rabs (uc a) * (M2 a * h a / 2)) (active_axes ROps m) / k0')%R.
Proof. exact convergence_upwind_cartesian_nD. Qed.
Print Assumptions C02_convergence_upwind_cartesian_nD.
(* non-vacuity: Theory/ConvUpwindNDThy.convergence_upwind_nD_hyps_satisfiable (3 x 3 Grid2D mesh, middle cell, velocity (1,1), constant field) *)
Example C02_convergence_upwind_nD_nonvacuous_checked : True.
Proof. pose proof convergence_upwind_nD_hyps_satisfiable. exact I. Qed.

(* ---- the same for the three Cartesian classes with the metric hypotheses DISCHARGED from the model's mesh (mfac = mA = 1, mW = mDX by
   definition on Grid1D / Grid2D / Grid3D): only the uniform spacing, the data and the closure remain as hypotheses ---- *)
Theorem C02_convergence_grid_nD : forall (m : Mesh ROps) (D u : fvar ROps) (kap x e : cvar ROps) (g : cell -> axis -> R -> R)
  (cells : list cell) (h M : axis -> R) (d k0' : R),
  mcls ROps m = G1 \/ mcls ROps m = G2 \/ mcls ROps m = G3 ->
  cells <> nil ->
  (forall c a, In c cells -> In a (active_axes ROps m) -> (1 <= cidx a c <= mN ROps m a)%nat /\ signs_ok m D c a) ->
  (forall a c, u a c = 0%R) ->
  (forall a, In a (active_axes ROps m) -> (0 < h a)%R) -> (0 <= d)%R -> (0 < k0')%R -> (forall c, In c cells -> (k0' <= kap c)%R) ->
  (forall c a, In c cells -> In a (active_axes ROps m) ->
     mdxf ROps m a (cidx a c) = h a /\ mdxf ROps m a (pred (cidx a c)) = h a /\ mDX ROps m a (cidx a c) = h a /\
     D a c = d /\ D a (cdn a c) = d) ->
  (forall c a t k, (k <= 4)%nat -> ex_derive_n (g c a) k t) ->
  (forall c a t, (Rabs (Derive_n (g c a) 4 t) <= M a)%R) ->
  (forall c a, In c cells -> In a (active_axes ROps m) ->
     e (cdn a c) = g c a (0 - h a)%R /\ e c = g c a 0%R /\ e (cup a c) = g c a (0 + h a)%R) ->
  (forall c, In c cells ->
     Lrow m D u kap x c = (kap c * e c - rsuml (fun a => d * Derive_n (g c a) 2 0) (active_axes ROps m))%R) ->
  (forall c a, In c cells -> In a (active_axes ROps m) ->
     nb_homog cells (fun c => (x c - e c)%R) c (cdn a c) /\ nb_homog cells (fun c => (x c - e c)%R) c (cup a c)) ->
  forall c, In c cells ->
    (Rabs (x c - e c) <= rsuml (fun a => d * (M a * (h a * h a) / 12)) (active_axes ROps m) / k0')%R.
Proof. exact convergence_grid_nD. Qed.
Print Assumptions C02_convergence_grid_nD.
