"""mesh suite: constructors (both forms), centres, sizes incl. ghosts, cell volumes  vs  Model/Grid.v"""
import random, traceback
import numpy as np
import lib, gen
from suites.operators import Emitter, coq_mesh, ql, case_key, ncases, nmax, AXN


def run_suite(suite, tier, seed):
    import pyfvtool as pf
    rng = random.Random(f"mesh-{seed}")
    em = Emitter("mesh")
    keys, samples, dist, skipped = [], [], {}, []
    ncase = 0
    for cname in gen.CLASSES:
        d = gen.DIM[cname]
        for k in range(ncases(tier) + 2):
            fs = gen.mesh_case(rng, cname, nmax=nmax(tier) + 1, uniform=(k % 4 == 3), nmin=1, big=(k % 20 == 1))
            label = {"cls": cname, "faces": [list(map(float, f)) for f in fs]}
            try:
                mesh = gen.build_mesh(pf, cname, fs)
                mn = f"m{ncase}"
                defs = coq_mesh(mn, cname, fs, mesh)
                ver = []
                ok_py = list(int(x) for x in mesh.dims) == [len(f) - 1 for f in fs]
                fc = [mesh.facecenters._x, mesh.facecenters._y, mesh.facecenters._z]
                cc = [mesh.cellcenters._x, mesh.cellcenters._y, mesh.cellcenters._z]
                cs = [mesh.cellsize._x, mesh.cellsize._y, mesh.cellsize._z]
                for a in range(d):
                    ok_py = ok_py and np.array_equal(np.asarray(fc[a], dtype=float), np.asarray(fs[a], dtype=float))
                    ver.append((f"centres/sizes axis {a}", f"check_axis {mn} {AXN[a]} {ql(cc[a])} {ql(cs[a])}"))
                ver.append(("cellvolume", f"check_vol {mn} {ql(mesh.cellvolume)}"))
                ver.append(("dims and faces as given", "true" if ok_py else "false"))
                # (N, L) constructor form on equispaced faces starting at 0
                if k % 4 == 3 and all(f[0] == 0.0 for f in fs):
                    Ns = [len(f) - 1 for f in fs]; Ls = [float(f[-1]) for f in fs]
                    m2 = getattr(pf, cname)(*Ns, *Ls)
                    fc2 = [m2.facecenters._x, m2.facecenters._y, m2.facecenters._z]
                    cc2 = [m2.cellcenters._x, m2.cellcenters._y, m2.cellcenters._z]
                    cs2 = [m2.cellsize._x, m2.cellsize._y, m2.cellsize._z]
                    same = list(int(x) for x in m2.dims) == Ns
                    for a in range(d):
                        same = same and np.allclose(fc2[a], fs[a], rtol=1e-13, atol=1e-13)
                        ver.append((f"(N,L) form centres/sizes axis {a}", f"check_axis {mn} {AXN[a]} {ql(cc2[a])} {ql(cs2[a])}"))
                    ver.append(("(N,L) form cellvolume", f"check_vol {mn} {ql(m2.cellvolume)}"))
                    ver.append(("(N,L) form dims and faces", "true" if same else "false"))
                em.add(defs, ver, label)
            except Exception:
                skipped.append({"cls": cname, "what": "mesh", "reason": "implementation raised", "trace": traceback.format_exc()[-600:], "label": label})
                ncase += 1
                continue
            if any(len(f) >= 3 for f in fs):
                keys.append(case_key(cname, fs))
            if len(samples) < 2 and ncase % 9 == 4:
                samples.append(label)
            dist[cname] = dist.get(cname, 0) + 1
            ncase += 1
    nchecks, bad, errors = em.run()
    return {"suite": "mesh", "cases": ncase, "checks": nchecks, "bad": bad, "errors": errors, "skipped": skipped,
            "keys": sorted(set(keys)), "samples": samples, "dist": dist}
