"""C09 check module."""
import traceback
import lib
from common import run_suites
import probes
from suites import statesuite


def run(ctx):
    import pyfvtool as pf
    ctx.rule = ("state suite: operation histories over {edit a/b/c whole / slice / through a view / in-place, utility methods, periodic toggle, .value whole / slice / "
                "in-place, update_value, copy, arithmetic, new variable sharing a BoundaryConditions object, apply_BCs, solvePDE, solveExplicitPDE}: bounded-exhaustive "
                "to depth 3 (quick, every second) / 4 over a 7-op alphabet on Grid1D plus random histories (length <= 14 / 30) on 5 grid classes, both construction styles; "
                "after every operation flags, ghost freshness, cached-term freshness and BC-object identity of every live variable are compared with the Coq machine; "
                "a history is non-trivial if it has >= 2 operations; distinct by operation sequence. impl_probe: next solve vs fresh start on real objects")
    ctx.prove("C09")
    run_suites(ctx, ["state"], runner=statesuite.run_suite)
    try:
        n = probes.probe_c09(ctx, pf)
        ctx.add_cases("impl_probe", n, [f"c09probe{i}" for i in range(min(n, 50))])
    except Exception:
        ctx.broke("correspondence", "impl_probe/harness", traceback.format_exc()[-1200:])


def replay(path):
    print(open(path).read()[:4000])
    return 0
