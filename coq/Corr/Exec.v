(* Executable adaptor: build Qc meshes / fields from the flat lists the harness serialises,
   and compare model results with the implementation's. *)
From Coq Require Import ZArith QArith Qcanon List Bool Arith String.
From PFV Require Import OField KOps Grid Ops CorrLib.
Import ListNotations.

Local Notation Q0 := (Q2Qc 0).
Definition nthq (i : nat) (l : list Qc) : Qc := nth i l Q0.
Definition mk_axis (faces : list Qc) : Axis QcOps :=
  mkAxis QcOps (List.length faces - 1) (fun i => nthq i faces).
Definition mk_mesh (cls : gclass) (fx fy fz : list Qc) (pi : Qc) (sinp sinf : list Qc) : Mesh QcOps :=
  mkMesh QcOps cls (fun a => match a with AX => mk_axis fx | AY => mk_axis fy | AZ => mk_axis fz end)
         pi (fun j => nthq (pred j) sinp) (fun j => nthq j sinf).

Definition cvar_of (m : Mesh QcOps) (vals : list Qc) : cvar QcOps := fun c => nthq (cellno QcOps m c) vals.
(* extents used by numpy for face arrays: absent axes count as 1 *)
Definition ext (m : Mesh QcOps) (a : axis) : nat := if active QcOps m a then mN QcOps m a else 1%nat.
Definition fidx (m : Mesh QcOps) (a : axis) (c : cell) : nat :=
  let '(i, j, k) := c in
  let ny := ext m AY in let nz := ext m AZ in
  match a with
  | AX => ((i * ny + pred j) * nz + pred k)%nat
  | AY => ((pred i * (ny + 1) + j) * nz + pred k)%nat
  | AZ => ((pred i * ny + pred j) * (nz + 1) + k)%nat
  end.
Definition fvar_of (m : Mesh QcOps) (xs ys zs : list Qc) : fvar QcOps :=
  fun a c => nthq (fidx m a c) (match a with AX => xs | AY => ys | AZ => zs end).

(* enumeration of the faces along axis a in numpy's (C) order; the cell is the lo-side cell *)
Definition rng (lo n : nat) : list nat := seq lo n.
Definition faces_of (m : Mesh QcOps) (a : axis) : list cell :=
  let nx := mN QcOps m AX in let ny := ext m AY in let nz := ext m AZ in
  let d := gdim (mcls QcOps m) in
  let js := if Nat.leb 2 d then rng 1 ny else [0%nat] in
  let ks := if Nat.leb 3 d then rng 1 nz else [0%nat] in
  match a with
  | AX => flat_map (fun i => flat_map (fun j => map (fun k => (i, j, k)) ks) js) (rng 0 (S nx))
  | AY => flat_map (fun i => flat_map (fun j => map (fun k => (i, j, k)) ks) (rng 0 (S ny))) (rng 1 nx)
  | AZ => flat_map (fun i => flat_map (fun j => map (fun k => (i, j, k)) (rng 0 (S nz))) js) (rng 1 nx)
  end.
Definition all_cells (m : Mesh QcOps) : list cell := map (cell_of_no QcOps m) (seq 0 (ncells QcOps m)).

(* comparisons *)
Definition check_matrix (m : Mesh QcOps) (row : nat -> list (nat * Qc)) (impl : list (list (nat * Qc))) : bool :=
  Nat.eqb (List.length impl) (ncells QcOps m) &&
  match rows_first_bad tol9 0 row impl with None => true | Some _ => false end.
Definition check_cvec (m : Mesh QcOps) (f : cell -> Qc) (impl : list Qc) : bool :=
  all_close tol9 (map (fun c => if interior QcOps m c then f c else Q0) (all_cells m)) impl.
Definition check_cvals (m : Mesh QcOps) (f : cell -> Qc) (impl : list Qc) : bool :=
  all_close tol9 (map f (all_cells m)) impl.
Definition check_interior (m : Mesh QcOps) (f : cell -> Qc) (impl : list Qc) : bool :=
  all_close tol9 (map f (interior_cells QcOps m)) impl.
Definition check_fvar (m : Mesh QcOps) (f : fvar QcOps) (ix iy iz : list Qc) : bool :=
  all_close tol9 (map (f AX) (faces_of m AX)) ix &&
  (if active QcOps m AY then all_close tol9 (map (f AY) (faces_of m AY)) iy else true) &&
  (if active QcOps m AZ then all_close tol9 (map (f AZ) (faces_of m AZ)) iz else true).

(* mesh geometry *)
Definition check_axis (m : Mesh QcOps) (a : axis) (centers sizes : list Qc) : bool :=
  let n := mN QcOps m a in
  all_close tol9 (map (fun p => axc QcOps (max QcOps m a) p) (seq 1 n)) centers
  && all_close tol9 (map (mDX QcOps m a) (seq 0 (n + 2))) sizes.
Definition check_vol (m : Mesh QcOps) (vols : list Qc) : bool :=
  all_close tol9 (map (mvol QcOps m) (interior_cells QcOps m)) vols.

(* ---- boundary conditions ---- *)
From PFV Require Import Boundary.
(* index of a ghost cell's boundary face in the (row-major) coefficient arrays of that side *)
Definition bidx (m : Mesh QcOps) (a : axis) (c : cell) : nat :=
  let '(i, j, k) := c in
  let ny := ext m AY in let nz := ext m AZ in
  match a with
  | AX => (pred j * nz + pred k)%nat
  | AY => (pred i * nz + pred k)%nat
  | AZ => (pred i * ny + pred j)%nat
  end.
(* coefficient lists per axis: [a_lo; b_lo; c_lo; a_hi; b_hi; c_hi] *)
Definition bc_pick (l : list (list Qc)) (n : nat) : list Qc := nth n l [].
Definition mk_bcs (m : Mesh QcOps) (px py pz : bool) (cx cy cz : list (list Qc)) : BCs QcOps :=
  let per := fun a => match a with AX => px | AY => py | AZ => pz end in
  let co := fun a => match a with AX => cx | AY => cy | AZ => cz end in
  mkBCs QcOps
    (fun a hi c => nthq (bidx m a c) (bc_pick (co a) (if hi then 3 else 0)))
    (fun a hi c => nthq (bidx m a c) (bc_pick (co a) (if hi then 4 else 1)))
    (fun a hi c => nthq (bidx m a c) (bc_pick (co a) (if hi then 5 else 2)))
    per.

(* sum duplicate columns of a row *)
Fixpoint row_insert (c : nat) (v : Qc) (l : list (nat * Qc)) : list (nat * Qc) :=
  match l with
  | [] => [(c, v)]
  | (c', w) :: l' => if Nat.eqb c c' then (c', Qcplus w v) :: l' else (c', w) :: row_insert c v l'
  end.
Definition row_norm (l : list (nat * Qc)) : list (nat * Qc) :=
  fold_left (fun acc cv => row_insert (fst cv) (snd cv) acc) l [].
Definition check_bc_matrix (m : Mesh QcOps) (bc : BCs QcOps) (impl : list (list (nat * Qc))) : bool :=
  check_matrix m (fun r => row_norm (bc_row QcOps m bc (cell_of_no QcOps m r))) impl.
Definition check_bc_rhs (m : Mesh QcOps) (bc : BCs QcOps) (impl : list Qc) : bool :=
  check_cvals m (bc_rhs QcOps m bc) impl.
Definition check_ghosts (m : Mesh QcOps) (bc : BCs QcOps) (phi : cvar QcOps) (impl : list Qc) : bool :=
  check_cvals m (with_boundaries QcOps m bc phi) impl.

(* ---- solve: residual of the MODEL system at the IMPLEMENTATION's answer ---- *)
From PFV Require Import Solver.
Definition qsum (l : list Qc) : Qc := fold_right Qcplus Q0 l.
Definition resid_ok (m : Mesh QcOps) (bc : BCs QcOps) (ts : list (term QcOps)) (x : cvar QcOps) : list bool :=
  map (fun c =>
    if interior QcOps m c then
      let sc := Qcplus (Q2Qc 1) (Qcplus (qsum (map (fun t => Qcabs (term_lhs QcOps m t x c)) ts))
                                        (qsum (map (fun t => Qcabs (term_rhs QcOps m t c)) ts))) in
      close_abs tol9 sc (sys_lhs QcOps m ts x c) (sys_rhs QcOps m ts c)
    else
      let row := bc_row QcOps m bc c in
      let sc := Qcplus (Q2Qc 1) (Qcplus (qsum (map (fun cv => Qcabs (Qcmult (snd cv) (x (cell_of_no QcOps m (fst cv))))) row))
                                        (Qcabs (bc_rhs QcOps m bc c))) in
      close_abs tol9 sc (bc_lhs QcOps m bc x c) (bc_rhs QcOps m bc c)) (all_cells m).
Definition check_solution (m : Mesh QcOps) (bc : BCs QcOps) (ts : list (term QcOps)) (x : cvar QcOps) : bool :=
  forallb (fun b => b) (resid_ok m bc ts x).
Definition check_explicit (m : Mesh QcOps) (bc : BCs QcOps) (old : cvar QcOps) (dt : Qc) (rhs : cvar QcOps) (impl : list Qc) : bool :=
  check_cvals m (explicit_step QcOps m bc old dt rhs) impl.
