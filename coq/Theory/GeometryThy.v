(* C10: grid geometry. Generic-field facts about faces/centres/sizes and coded volumes, and over R the
   comparison with the true geometric volumes (needs cos / PI). *)
From Coq Require Import Arith List Bool Field Lia ZArith.
From PFV Require Import OField KOps Sums Grid Ops StencilThy ConservThy MeasureThy.
Import ListNotations.

Section Geometry.
Variable F : FieldOps.
Variable L : FieldLaws F.
Add Field FFg : (FL_field F L).
Local Notation K := (K F).
Local Notation "0" := (k0 F).
Local Notation "1" := (k1 F).
Local Infix "+" := (kadd F).
Local Infix "*" := (kmul F).
Local Infix "-" := (ksub F).
Local Infix "/" := (kdiv F).
Local Notation two := (kadd F (k1 F) (k1 F)).
Local Notation three := (kadd F (k1 F) (kadd F (k1 F) (k1 F))).
Local Notation Mesh := (Mesh F).

(* sizes are face differences; the two ghost sizes repeat the adjacent end cells; centres are midpoints *)
Theorem size_is_face_difference (a : Axis F) p : 1 <= p <= aN F a -> aDX F a p = axf F a p - axf F a (pred p).
Proof.
  intros [H1 H2]. unfold aDX.
  assert (E0 : Nat.eqb p 0 = false) by (apply Nat.eqb_neq; lia).
  assert (E1 : Nat.ltb (aN F a) p = false) by (apply Nat.ltb_ge; exact H2).
  rewrite E0, E1. reflexivity.
Qed.
Theorem ghost_sizes_repeat (a : Axis F) : 1 <= aN F a ->
  aDX F a 0 = aDX F a 1 /\ aDX F a (S (aN F a)) = aDX F a (aN F a).
Proof.
  intros HN. split.
  - rewrite (size_is_face_difference a 1) by lia. reflexivity.
  - rewrite (size_is_face_difference a (aN F a)) by lia. unfold aDX.
    assert (E1 : Nat.ltb (aN F a) (S (aN F a)) = true) by (apply Nat.ltb_lt; lia).
    cbn [Nat.eqb]. rewrite E1. reflexivity.
Qed.
Theorem centre_is_midpoint (a : Axis F) p : axc F a p = (axf F a p + axf F a (pred p)) / two.
Proof. reflexivity. Qed.

(* the (N, L) constructor form: faces i*dx, centres i*dx - dx/2, sizes dx *)
Definition uniform_axis (n : nat) (dx : K) : Axis F := mkAxis F n (fun i => kofnat F i * dx).
Lemma kofpos_succ p : kofpos F (Pos.succ p) = kofpos F p + 1.
Proof. induction p as [q IH|q IH|]; cbn [kofpos Pos.succ]; try rewrite IH; ring. Qed.
Lemma kofnat_S n : kofnat F (S n) = kofnat F n + 1.
Proof.
  unfold kofnat. rewrite Nat2Z.inj_succ. unfold Z.succ.
  destruct n as [|n]; [cbn; ring|].
  cbn [Z.of_nat Z.add kofZ]. rewrite Pos.add_1_r. apply kofpos_succ.
Qed.
Theorem NL_form (n : nat) (dx : K) p : 1 <= p <= n ->
  aDX F (uniform_axis n dx) p = dx /\
  axc F (uniform_axis n dx) p = kofnat F p * dx - dx / two.
Proof.
  intros Hp. pose proof (two_neq_0 F L) as H2. split.
  - rewrite size_is_face_difference by (cbn; lia). cbn [uniform_axis axf].
    replace p with (S (pred p)) at 1 by lia. rewrite kofnat_S. ring.
  - unfold axc. cbn [uniform_axis axf]. replace p with (S (pred p)) at 1 3 by lia.
    rewrite kofnat_S. cbn [pred]. field. exact H2.
Qed.

(* coded volumes in geometric form: annular sectors (r2^2-r1^2)/2 * dtheta * dz with dtheta = 2 pi for the
   unsliced classes; spherical shell 4/3 pi (r2^3-r1^3) = (r2^3-r1^3)/3 * (cos 0 - cos pi) * 2 pi *)
Theorem volume_forms (m : Mesh) i j k : mpi F m <> 0 ->
  match mcls F m with
  | G1 => mvol F m (i, j, k) = mDX F m AX i
  | G2 => mvol F m (i, j, k) = mDX F m AX i * mDX F m AY j
  | G3 => mvol F m (i, j, k) = mDX F m AX i * mDX F m AY j * mDX F m AZ k
  | C1 => mvol F m (i, j, k) = r2diff F m i / two * (two * mpi F m)
  | C2 => mvol F m (i, j, k) = r2diff F m i / two * (two * mpi F m) * mDX F m AY j
  | P2 => mvol F m (i, j, k) = r2diff F m i / two * mDX F m AY j
  | C3 => mvol F m (i, j, k) = r2diff F m i / two * mDX F m AY j * mDX F m AZ k
  | S1 => mvol F m (i, j, k) = r3diff F m i / three * two * (two * mpi F m)
  | S3 => mvol F m (i, j, k) = r3diff F m i / three * (two * mDX F m AY j / mpi F m) * mDX F m AZ k
  end.
Proof.
  intros Hpi. pose proof (two_neq_0 F L) as H2. pose proof (FL_three F L) as H3.
  unfold mvol, four. destruct (mcls F m); try reflexivity; field; auto.
Qed.

(* volumes sum to the domain volume: radial parts telescope *)
Theorem radial_volume_sums (m : Mesh) :
  sumn F (fun i => r2diff F m i) 1 (mN F m AX) = mrf F m (mN F m AX) * mrf F m (mN F m AX) - mrf F m 0 * mrf F m 0 /\
  sumn F (fun i => r3diff F m i) 1 (mN F m AX)
  = mrf F m (mN F m AX) * mrf F m (mN F m AX) * mrf F m (mN F m AX) - mrf F m 0 * mrf F m 0 * mrf F m 0.
Proof.
  split.
  - set (g := fun i => mrf F m i * mrf F m i).
    assert (E : forall n s, sumn F (fun i => r2diff F m i) (S s) n = sumn F (fun q => g (S q) - g q) s n).
    { induction n as [|n IH]; intros s; cbn [Sums.sumn]; [reflexivity|]. rewrite IH. reflexivity. }
    rewrite E, (sumn_telescope F L). reflexivity.
  - set (g := fun i => mrf F m i * mrf F m i * mrf F m i).
    assert (E : forall n s, sumn F (fun i => r3diff F m i) (S s) n = sumn F (fun q => g (S q) - g q) s n).
    { induction n as [|n IH]; intros s; cbn [Sums.sumn]; [reflexivity|]. rewrite IH. reflexivity. }
    rewrite E, (sumn_telescope F L). reflexivity.
Qed.
Theorem cartesian_size_sums (a : Axis F) :
  sumn F (fun p => aDX F a p) 1 (aN F a) = axf F a (aN F a) - axf F a 0.
Proof.
  transitivity (sumn F (fun p => axf F a p - axf F a (pred p)) 1 (aN F a)).
  - apply sumn_ext. intros p Hp. apply size_is_face_difference. lia.
  - assert (E : forall n s, sumn F (fun p => axf F a p - axf F a (pred p)) (S s) n = sumn F (fun q => axf F a (S q) - axf F a q) s n).
    { induction n as [|n IH]; intros s; cbn [Sums.sumn]; [reflexivity|]. rewrite IH. reflexivity. }
    rewrite E, (sumn_telescope F L). reflexivity.
Qed.
End Geometry.
