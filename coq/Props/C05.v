(* C05 — Implicit matrix terms and the explicit gradient/mean/divergence chain agree.
   Model: Model/Ops.v (generic over the grid class), tied to every numpy builder by the suites
   diffusion / conv_central / conv_upwind / tvd / divergence / gradient / means. *)
From Coq Require Import Arith List ZArith QArith Qcanon.
From PFV Require Import OField KOps Grid Ops StencilThy ConservThy MeasureThy TermsThy Examples.

(* for every field of scalars, grid class, N, spacing, coefficient field, cell field incl. ghosts,
   and every interior cell: (M phi)(c) = divergenceTerm(D * gradientTerm(phi))(c) *)
Theorem C05_diffusion : forall (F : FieldOps) (L : FieldLaws F) (m : Mesh F) (D : fvar F) (phi : cvar F) c,
  stencil_ok F m -> interior F m c = true ->
  apply_stencil F m (diffAW F m D) (diffAP F m D) (diffAE F m D) phi c
  = divergence F m (fmul F D (gradient F m phi)) c.
Proof. exact diffusion_matrix_is_chain. Qed.
Print Assumptions C05_diffusion.

Theorem C05_central : forall (F : FieldOps) (L : FieldLaws F) (m : Mesh F) (u : fvar F) (phi : cvar F) c,
  stencil_ok F m -> interior F m c = true ->
  apply_stencil F m (cenAW F m u) (cenAP F m u) (cenAE F m u) phi c
  = divergence F m (fmul F u (linmean F m phi)) c.
Proof. exact central_matrix_is_chain. Qed.
Print Assumptions C05_central.

(* upwind, with or without a separate u_upwind: the matrix is the divergence of the donor-cell flux ... *)
Theorem C05_upwind : forall (F : FieldOps) (L : FieldLaws F) (m : Mesh F) (u uup : fvar F) (phi : cvar F) c,
  stencil_ok F m -> interior F m c = true ->
  apply_stencil F m (upwAW F m u uup) (upwAP F m u uup) (upwAE F m u uup) phi c
  = divergence F m (upwflux F m u uup phi) c.
Proof. exact upwind_matrix_is_chain. Qed.
Print Assumptions C05_upwind.

(* ... and that flux is u * upwindMean(phi, u_upwind) on every face where u_upwind vanishes only
   if u does (always true for the default u_upwind = u) *)
Theorem C05_upwind_flux_is_mean : forall (F : FieldOps) (L : FieldLaws F) (m : Mesh F) (u uup : fvar F) (phi : cvar F) a c,
  (cidx a c <= mN F m a)%nat -> (uup a c = k0 F -> u a c = k0 F) ->
  upwflux F m u uup phi a c = kmul F (u a c) (upwindmean F m phi uup a c).
Proof. exact upwflux_is_u_upwindmean. Qed.
Print Assumptions C05_upwind_flux_is_mean.

Theorem C05_tvd_zero : forall (F : FieldOps) (L : FieldLaws F) (fsgn : F -> F) (m : Mesh F) (u uup : fvar F) (phi : cvar F) c,
  tvdrhs F fsgn (fun _ => k0 F) m u uup phi c = k0 F.
Proof. exact tvd_zero. Qed.
Print Assumptions C05_tvd_zero.

(* unit limiter on uniform spacing: upwind matrix minus TVD right-hand side = central matrix *)
Theorem C05_tvd_unit_uniform : forall (F : FieldOps) (L : FieldLaws F) (fsgn : F -> F) (m : Mesh F)
    (u uup : fvar F) (phi : cvar F) c,
  stencil_ok F m -> uniform_axes F m -> upwind_consistent F m u uup -> interior F m c = true ->
  ksub F (apply_stencil F m (upwAW F m u uup) (upwAP F m u uup) (upwAE F m u uup) phi c)
         (tvdrhs F fsgn (fun _ => k1 F) m u uup phi c)
  = apply_stencil F m (cenAW F m u) (cenAP F m u) (cenAE F m u) phi c.
Proof. exact tvd_unit_uniform. Qed.
Print Assumptions C05_tvd_unit_uniform.

(* the hypothesis on u_upwind is necessary: with u_upwind = 0 on a face where u <> 0 the matrix
   counts the face flux twice (known finding; replayed on the implementation by the check) *)
Theorem C05_zero_upwind_refuted : exists (m : Mesh QcOps) (u uup : fvar QcOps) (phi : cvar QcOps) a c,
  upwflux QcOps m u uup phi a c <> kmul QcOps (u a c) (upwindmean QcOps m phi uup a c).
Proof.
  exists ex_C2, (fun _ _ => Q2Qc 1), (fun _ _ => Q2Qc 0), (fun c => Q2Qc (inject_Z (Z.of_nat (fst (fst c))))), AX, (1, 1, 0)%nat.
  apply qc_neq. vm_compute. reflexivity.
Qed.
Print Assumptions C05_zero_upwind_refuted.

(* non-vacuity: a graded cylindrical mesh and a spherical mesh meet the hypotheses *)
Example C05_nonvacuous : stencil_ok QcOps ex_C2 /\ stencil_ok QcOps ex_S3 /\ interior QcOps ex_C2 (2, 1, 0)%nat = true.
Proof. split; [exact ex_C2_stencil_ok|split; [exact ex_S3_stencil_ok|reflexivity]]. Qed.
