(* C07 on the model itself: every solution of the system assembled from
      transientTerm(alpha > 0, dt > 0)  -  diffusionTerm(D >= 0)  +  convectionUpwindTerm(u), u discretely divergence-free,
      +  linearSourceTerm(beta >= 0)
   stays below max(previous values, boundary data, 0) on EVERY grid class and dimension, provided the ghost values obey
   "x_ghost <= x_inner whenever x_inner exceeds the bound" -- which the Dirichlet and no-flux boundary rows imply (lemmas below).
   Proof: flux form of both stencils + argmax over the (finite) set of interior cells.  Over R. *)
From Coq Require Import Reals Lra Psatz Arith List Bool Lia.
From PFV Require Import OField KOps Grid Ops Boundary Solver StencilThy ConservThy MeasureThy TermsThy MaxPrincipleThy ExactnessThy.
Import ListNotations.
Local Open Scope R_scope.

Section MPModel.
Variable m : Mesh ROps.
Variable D u : fvar ROps.
Variable x : cvar ROps.

(* sign conditions of a valid mesh / coefficient field, for the cells and axes in play *)
Record signs_ok (c : cell) (a : axis) : Prop := {
  sg_A : 0 <= mA ROps m a (cidx a c) /\ 0 <= mA ROps m a (pred (cidx a c));
  sg_W : 0 < mW ROps m a (cidx a c);
  sg_fac : 0 <= mfac ROps m a c;
  sg_dx : 0 < mdxf ROps m a (cidx a c) /\ 0 < mdxf ROps m a (pred (cidx a c));
  sg_D : 0 <= D a c /\ 0 <= D a (cdn a c)
}.

(* value the upwind scheme sees in the neighbour: the neighbour itself, or the face average if it is a ghost cell *)
Lemma bval_up (a : axis) (c : cell) : (1 <= cidx a c <= mN ROps m a)%nat ->
  x c - bval ROps m x a (cup a c) = (if Nat.eqb (cidx a c) (mN ROps m a) then 1 / 2 else 1) * (x c - x (cup a c)).
Proof.
  intros Hi. unfold bval. rewrite cidx_cup, cdn_cup. cbn [Nat.eqb].
  cbn [kadd kdiv k1 ROps K].
  destruct (Nat.eqb (cidx a c) (mN ROps m a)) eqn:E; [field|lra].
Qed.
Lemma bval_dn (a : axis) (c : cell) : (1 <= cidx a c <= mN ROps m a)%nat ->
  x c - bval ROps m x a (cdn a c) = (if Nat.eqb (cidx a c) 1 then 1 / 2 else 1) * (x c - x (cdn a c)).
Proof.
  intros Hi. unfold bval. rewrite cidx_cdn, (cup_cdn a c) by lia.
  assert (E2 : Nat.eqb (pred (cidx a c)) (S (mN ROps m a)) = false) by (apply Nat.eqb_neq; lia).
  rewrite E2.
  assert (E3 : Nat.eqb (pred (cidx a c)) 0 = Nat.eqb (cidx a c) 1) by (destruct (cidx a c) as [|[|n]]; [lia|reflexivity|reflexivity]).
  rewrite E3. cbn [kadd kdiv k1 ROps K].
  destruct (Nat.eqb (cidx a c) 1); [field|lra].
Qed.

(* flux form of one axis of  -diffusion + upwind :  (div_a u) x_c  +  non-negative weights times (x_c - neighbour) *)
Theorem axis_flux_form (a : axis) (c : cell) : (1 <= cidx a c <= mN ROps m a)%nat -> signs_ok c a ->
  exists wdn wup : R, 0 <= wdn /\ 0 <= wup /\
  - apply_axis ROps (diffAW ROps m D) (diffAP ROps m D) (diffAE ROps m D) x a c
  + apply_axis ROps (upwAW ROps m u u) (upwAP ROps m u u) (upwAE ROps m u u) x a c
  = divrow ROps m u a c * x c + wdn * (x c - x (cdn a c)) + wup * (x c - x (cup a c)).
Proof.
  intros Hi [[A1 A0] HW Hf [d1 d0] [D1 D0]].
  assert (HWne : mW ROps m a (cidx a c) <> k0 ROps) by (change (k0 ROps) with 0; lra).
  assert (Hd1ne : mdxf ROps m a (cidx a c) <> k0 ROps) by (change (k0 ROps) with 0; lra).
  assert (Hd0ne : mdxf ROps m a (pred (cidx a c)) <> k0 ROps) by (change (k0 ROps) with 0; lra).
  rewrite (ExactnessThy.diffusion_axis_form ROps RLaws m D x a c HWne Hd1ne Hd0ne).
  rewrite (upwind_is_div_upwflux ROps RLaws m u u x a c) by (try lia; exact HWne).
  pose proof (umax_nonneg a u c) as P1. pose proof (umin_nonpos a u c) as M1.
  pose proof (umax_nonneg a u (cdn a c)) as P0. pose proof (umin_nonpos a u (cdn a c)) as M0.
  pose proof (umax_umin_sum ROps RLaws u u a c (fun H => H)) as S1.
  pose proof (umax_umin_sum ROps RLaws u u a (cdn a c) (fun H => H)) as S0.
  cbn [kadd ROps K] in S1, S0.
  set (f := mfac ROps m a c) in *. set (W := mW ROps m a (cidx a c)) in *.
  set (Ai := mA ROps m a (cidx a c)) in *. set (Am := mA ROps m a (pred (cidx a c))) in *.
  set (k1' := if Nat.eqb (cidx a c) (mN ROps m a) then 1 / 2 else 1).
  set (k0' := if Nat.eqb (cidx a c) 1 then 1 / 2 else 1).
  assert (Hk1 : 0 <= k1') by (unfold k1'; destruct (Nat.eqb (cidx a c) (mN ROps m a)); lra).
  assert (Hk0 : 0 <= k0') by (unfold k0'; destruct (Nat.eqb (cidx a c) 1); lra).
  assert (HWi : 0 < / W) by (apply Rinv_0_lt_compat; exact HW).
  exists (f * f * Am * D a (cdn a c) / (W * mdxf ROps m a (pred (cidx a c))) + f / W * (Am * umax ROps u u a (cdn a c)) * k0'),
         (f * f * Ai * D a c / (W * mdxf ROps m a (cidx a c)) + f / W * (Ai * - umin ROps u u a c) * k1').
  assert (Hd1 : 0 < / (W * mdxf ROps m a (cidx a c))) by (apply Rinv_0_lt_compat; apply Rmult_lt_0_compat; assumption).
  assert (Hd0 : 0 < / (W * mdxf ROps m a (pred (cidx a c)))) by (apply Rinv_0_lt_compat; apply Rmult_lt_0_compat; assumption).
  split; [|split].
  - apply Rplus_le_le_0_compat.
    + unfold Rdiv. repeat apply Rmult_le_pos; try assumption; lra.
    + unfold Rdiv. repeat apply Rmult_le_pos; try assumption; lra.
  - apply Rplus_le_le_0_compat.
    + unfold Rdiv. repeat apply Rmult_le_pos; try assumption; lra.
    + unfold Rdiv. repeat apply Rmult_le_pos; try assumption; lra.
  - (* algebra *)
    unfold divrow, upwflux. fold f W Ai Am.
    assert (Bc : bval ROps m x a c = x c).
    { unfold bval. assert (E0 : Nat.eqb (cidx a c) 0 = false) by (apply Nat.eqb_neq; lia).
      assert (E1 : Nat.eqb (cidx a c) (S (mN ROps m a)) = false) by (apply Nat.eqb_neq; lia). rewrite E0, E1. reflexivity. }
    rewrite (cup_cdn a c) by lia. rewrite Bc.
    pose proof (bval_up a c Hi) as Bu. pose proof (bval_dn a c Hi) as Bd. fold k1' in Bu. fold k0' in Bd.
    cbn [kadd kmul ksub kdiv kopp k0 k1 ROps K] in *.
    set (bu := bval ROps m x a (cup a c)) in *. set (bd := bval ROps m x a (cdn a c)) in *.
    set (up := umax ROps u u a c) in *. set (um := umin ROps u u a c) in *.
    set (up0 := umax ROps u u a (cdn a c)) in *. set (um0 := umin ROps u u a (cdn a c)) in *.
    assert (Eu : u a c = up + um) by lra. assert (E0' : u a (cdn a c) = up0 + um0) by lra.
    rewrite Eu, E0'.
    replace (f / W * (Ai * (up * x c + um * bu) - Am * (up0 * bd + um0 * x c)))
      with (f / W * (Ai * (up + um) - Am * (up0 + um0)) * x c
            + f / W * (Am * up0) * (x c - bd) + f / W * (Ai * - um) * (x c - bu)) by (field; lra).
    rewrite Bu, Bd. field. repeat split; lra.
Qed.
End MPModel.

Section MPMain.
Variable m : Mesh ROps.
Variable D u : fvar ROps.
Variable x alpha beta old : cvar ROps.
Variable dt M : R.
Variable cells : list cell.

Definition axis_term (a : axis) (c : cell) : R :=
  - apply_axis ROps (diffAW ROps m D) (diffAP ROps m D) (diffAE ROps m D) x a c
  + apply_axis ROps (upwAW ROps m u u) (upwAP ROps m u u) (upwAE ROps m u u) x a c.
Definition rsuml (f : axis -> R) (l : list axis) : R := fold_right Rplus 0 (map f l).

Hypothesis Hne : cells <> [].
Hypothesis Hcells : forall c a, In c cells -> In a (active_axes ROps m) ->
  (1 <= cidx a c <= mN ROps m a)%nat /\ signs_ok m D c a.
(* the interior equation of  [transientTerm(old, dt, alpha); -diffusionTerm(D); convectionUpwindTerm(u); linearSourceTerm(beta)] *)
Hypothesis Hrow : forall c, In c cells ->
  alpha c / dt * (x c - old c) + rsuml (fun a => axis_term a c) (active_axes ROps m) + beta c * x c = 0.
Hypothesis Hdiv : forall c, In c cells -> rsuml (fun a => divrow ROps m u a c) (active_axes ROps m) = 0.
Hypothesis Hcoef : forall c, In c cells -> 0 < alpha c /\ 0 <= beta c.
Hypothesis Hdt : 0 < dt.
Hypothesis Hold : forall c, In c cells -> old c <= M.
Hypothesis HM : 0 <= M.
(* neighbours along active axes are unknowns of the same set, or ghost cells that cannot exceed a cell above the bound *)
Hypothesis Hnbr : forall c a, In c cells -> In a (active_axes ROps m) ->
  (In (cdn a c) cells \/ (M < x c -> x (cdn a c) <= x c)) /\ (In (cup a c) cells \/ (M < x c -> x (cup a c) <= x c)).

Lemma list_argmax (l : list cell) : l <> [] -> exists c, In c l /\ forall c', In c' l -> x c' <= x c.
Proof.
  induction l as [|c l IH]; intros Hl; [contradiction|].
  destruct l as [|c2 l'].
  - exists c. split; [left; reflexivity|]. intros c' [<-|[]]. lra.
  - destruct (IH ltac:(discriminate)) as (k & Hk & Hmax).
    destruct (Rle_dec (x c) (x k)) as [Hle|Hgt].
    + exists k. split; [right; exact Hk|]. intros c' [<-|Hc']; [exact Hle|apply Hmax; exact Hc'].
    + exists c. split; [left; reflexivity|]. intros c' [<-|Hc']; [lra|]. pose proof (Hmax c' Hc'). lra.
Qed.
Lemma rsuml_ge (f g : axis -> R) (l : list axis) : (forall a, In a l -> g a <= f a) -> rsuml g l <= rsuml f l.
Proof.
  unfold rsuml. induction l as [|a l IH]; intros H; cbn [map fold_right]; [lra|].
  pose proof (H a (or_introl eq_refl)). pose proof (IH (fun b Hb => H b (or_intror Hb))). lra.
Qed.
Lemma rsuml_scal (f : axis -> R) (k : R) (l : list axis) : rsuml (fun a => f a * k) l = rsuml f l * k.
Proof. unfold rsuml. induction l as [|a l IH]; cbn [map fold_right]; [lra|]. rewrite IH. lra. Qed.

Theorem max_principle_upper : forall c, In c cells -> x c <= M.
Proof.
  destruct (list_argmax cells Hne) as (k & Hk & Hmax).
  assert (Hxk : x k <= M).
  { destruct (Rle_dec (x k) M) as [H|H]; [exact H|]. apply Rnot_le_lt in H. exfalso.
    assert (Hax : rsuml (fun a => divrow ROps m u a k * x k) (active_axes ROps m) <= rsuml (fun a => axis_term a k) (active_axes ROps m)).
    { apply rsuml_ge. intros a Ha. destruct (Hcells k a Hk Ha) as [Hi Hs].
      destruct (axis_flux_form m D u x a k Hi Hs) as (wdn & wup & W0 & W1 & E).
      unfold axis_term. rewrite E.
      destruct (Hnbr k a Hk Ha) as [Hd Hu].
      assert (x (cdn a k) <= x k) by (destruct Hd as [Hd|Hd]; [apply Hmax; exact Hd|apply Hd; exact H]).
      assert (x (cup a k) <= x k) by (destruct Hu as [Hu|Hu]; [apply Hmax; exact Hu|apply Hu; exact H]).
      nra. }
    rewrite rsuml_scal, (Hdiv k Hk) in Hax.
    pose proof (Hrow k Hk) as E. destruct (Hcoef k Hk) as [Ha Hb]. pose proof (Hold k Hk) as Ho.
    assert (0 < alpha k / dt) by (apply Rdiv_lt_0_compat; assumption).
    assert (0 < alpha k / dt * (x k - old k)) by (apply Rmult_lt_0_compat; lra).
    assert (0 <= beta k * x k) by (apply Rmult_le_pos; lra).
    lra. }
  intros c Hc. pose proof (Hmax c Hc). lra.
Qed.
End MPMain.

(* boundary rows give the ghost hypothesis: Dirichlet (a = 0, b = 1, data c <= M) and no-flux (b = 0, c = 0, a/h <> 0) *)
Lemma dirichlet_ghost (xg xi cD M : R) : 1 / 2 * xg + 1 / 2 * xi = cD -> cD <= M -> M < xi -> xg <= xi.
Proof. intros E Hc Hx. lra. Qed.
Lemma noflux_ghost (xg xi aoh : R) : aoh <> 0 -> (0 / 2 + aoh) * xg + (0 / 2 - aoh) * xi = 0 -> xg <= xi.
Proof. intros Ha E. assert (aoh * (xg - xi) = 0) by lra. assert (xg - xi = 0) by (apply Rmult_integral in H; destruct H; [contradiction|assumption]). lra. Qed.

(* lower bound by applying the upper bound to -x *)
Lemma axis_term_neg (m : Mesh ROps) (D u : fvar ROps) (x : cvar ROps) a c :
  axis_term m D u (fun c => - x c) a c = - axis_term m D u x a c.
Proof. unfold axis_term, apply_axis. cbn [kadd kmul ROps K]. ring. Qed.

Lemma rsuml_axis_term_neg (m : Mesh ROps) (D u : fvar ROps) (x : cvar ROps) c (l : list axis) :
  rsuml (fun a => axis_term m D u (fun c1 => - x c1) a c) l = - rsuml (fun a => axis_term m D u x a c) l.
Proof.
  unfold rsuml. induction l as [|a l IH]; cbn [map fold_right]; [lra|]. rewrite IH, axis_term_neg. lra.
Qed.

Theorem max_principle_lower (m : Mesh ROps) (D u : fvar ROps) (x alpha beta old : cvar ROps) (dt lo : R) (cells : list cell) :
  cells <> [] ->
  (forall c a, In c cells -> In a (active_axes ROps m) -> (1 <= cidx a c <= mN ROps m a)%nat /\ signs_ok m D c a) ->
  (forall c, In c cells -> alpha c / dt * (x c - old c) + rsuml (fun a => axis_term m D u x a c) (active_axes ROps m) + beta c * x c = 0) ->
  (forall c, In c cells -> rsuml (fun a => divrow ROps m u a c) (active_axes ROps m) = 0) ->
  (forall c, In c cells -> 0 < alpha c /\ 0 <= beta c) -> 0 < dt ->
  (forall c, In c cells -> lo <= old c) -> lo <= 0 ->
  (forall c a, In c cells -> In a (active_axes ROps m) ->
     (In (cdn a c) cells \/ (x c < lo -> x c <= x (cdn a c))) /\ (In (cup a c) cells \/ (x c < lo -> x c <= x (cup a c)))) ->
  forall c, In c cells -> lo <= x c.
Proof.
  intros Hne Hcells Hrow Hdiv Hcoef Hdt Hold Hlo Hnbr c Hc.
  assert (Hrow' : forall c0, In c0 cells ->
            alpha c0 / dt * (- x c0 - - old c0) + rsuml (fun a => axis_term m D u (fun c1 => - x c1) a c0) (active_axes ROps m) + beta c0 * - x c0 = 0).
  { intros c0 Hc0. pose proof (Hrow c0 Hc0) as E.
    rewrite rsuml_axis_term_neg. nra. }
  assert (Hold' : forall c0, In c0 cells -> - old c0 <= - lo) by (intros c0 Hc0; pose proof (Hold c0 Hc0); lra).
  assert (Hnbr' : forall c0 a, In c0 cells -> In a (active_axes ROps m) ->
            (In (cdn a c0) cells \/ (- lo < - x c0 -> - x (cdn a c0) <= - x c0)) /\ (In (cup a c0) cells \/ (- lo < - x c0 -> - x (cup a c0) <= - x c0))).
  { intros c0 a Hc0 Ha. destruct (Hnbr c0 a Hc0 Ha) as [Hd Hu]. split.
    - destruct Hd as [Hd|Hd]; [left; exact Hd|right; intros Hx; assert (Hl : x c0 < lo) by lra; specialize (Hd Hl); lra].
    - destruct Hu as [Hu|Hu]; [left; exact Hu|right; intros Hx; assert (Hl : x c0 < lo) by lra; specialize (Hu Hl); lra]. }
  assert (HM' : 0 <= - lo) by lra.
  pose proof (max_principle_upper m D u (fun c0 => - x c0) alpha beta (fun c0 => - old c0) dt (- lo) cells Hne Hcells Hrow' Hdiv Hcoef Hdt Hold' HM' Hnbr' c Hc) as H.
  lra.
Qed.

(* the interior rows of is_solution for the four-term list are exactly the row hypothesis of the theorems above *)
Lemma rsuml_split (f g : axis -> R) (l : list axis) :
  rsuml (fun a => - f a + g a) l = - ksum ROps (map f l) + ksum ROps (map g l).
Proof.
  unfold rsuml, ksum. induction l as [|a l IH]; cbn [map fold_right]; cbn [kadd k0 ROps K] in *; [lra|]. rewrite IH. lra.
Qed.
Theorem is_solution_row (m : Mesh ROps) (bc : BCs ROps) (D u : fvar ROps) (x alpha beta old : cvar ROps) (dt : R) c :
  dt <> 0 ->
  is_solution ROps m bc [TTrans ROps alpha dt old; TDiff ROps (-1) D; TUpw ROps 1 u u; TLin ROps 1 beta] x ->
  interior ROps m c = true ->
  alpha c / dt * (x c - old c) + rsuml (fun a => axis_term m D u x a c) (active_axes ROps m) + beta c * x c = 0.
Proof.
  intros Hdt [H _] Hc. specialize (H c Hc).
  assert (EL : sys_lhs ROps m [TTrans ROps alpha dt old; TDiff ROps (-1) D; TUpw ROps 1 u u; TLin ROps 1 beta] x c
               = alpha c / dt * x c
                 + (-1 * apply_stencil ROps m (diffAW ROps m D) (diffAP ROps m D) (diffAE ROps m D) x c
                    + (1 * apply_stencil ROps m (upwAW ROps m u u) (upwAP ROps m u u) (upwAE ROps m u u) x c + (1 * (beta c * x c) + 0)))) by reflexivity.
  assert (ER : sys_rhs ROps m [TTrans ROps alpha dt old; TDiff ROps (-1) D; TUpw ROps 1 u u; TLin ROps 1 beta] c
               = alpha c * old c / dt + (0 + (0 + (0 + 0)))) by reflexivity.
  rewrite EL, ER in H. clear EL ER.
  unfold axis_term. rewrite rsuml_split.
  change (ksum ROps (map (fun a => apply_axis ROps (diffAW ROps m D) (diffAP ROps m D) (diffAE ROps m D) x a c) (active_axes ROps m)))
    with (apply_stencil ROps m (diffAW ROps m D) (diffAP ROps m D) (diffAE ROps m D) x c).
  change (ksum ROps (map (fun a => apply_axis ROps (upwAW ROps m u u) (upwAP ROps m u u) (upwAE ROps m u u) x a c) (active_axes ROps m)))
    with (apply_stencil ROps m (upwAW ROps m u u) (upwAP ROps m u u) (upwAE ROps m u u) x c).
  generalize dependent (apply_stencil ROps m (diffAW ROps m D) (diffAP ROps m D) (diffAE ROps m D) x c).
  generalize dependent (apply_stencil ROps m (upwAW ROps m u u) (upwAP ROps m u u) (upwAE ROps m u u) x c).
  intros B A H.
  assert (E : alpha c / dt * x c - alpha c * old c / dt = alpha c / dt * (x c - old c)) by (field; exact Hdt).
  change (K ROps) with R in *. lra.
Qed.

(* C04: uniqueness. Two solutions of the same system (same previous values, same boundary data) coincide on the unknown cells,
   because their difference solves the homogeneous system and is therefore bounded above and below by 0. *)
Lemma axis_term_sub (m : Mesh ROps) (D u : fvar ROps) (x y : cvar ROps) a c :
  axis_term m D u (fun c => x c - y c) a c = axis_term m D u x a c - axis_term m D u y a c.
Proof. unfold axis_term, apply_axis. cbn [kadd kmul ROps K]. ring. Qed.
Lemma rsuml_axis_term_sub (m : Mesh ROps) (D u : fvar ROps) (x y : cvar ROps) c (l : list axis) :
  rsuml (fun a => axis_term m D u (fun c1 => x c1 - y c1) a c) l
  = rsuml (fun a => axis_term m D u x a c) l - rsuml (fun a => axis_term m D u y a c) l.
Proof. unfold rsuml. induction l as [|a l IH]; cbn [map fold_right]; [lra|]. rewrite IH, axis_term_sub. lra. Qed.

Theorem solution_unique (m : Mesh ROps) (D u : fvar ROps) (x y alpha beta old : cvar ROps) (dt : R) (cells : list cell) :
  cells <> [] ->
  (forall c a, In c cells -> In a (active_axes ROps m) -> (1 <= cidx a c <= mN ROps m a)%nat /\ signs_ok m D c a) ->
  (forall c, In c cells -> alpha c / dt * (x c - old c) + rsuml (fun a => axis_term m D u x a c) (active_axes ROps m) + beta c * x c = 0) ->
  (forall c, In c cells -> alpha c / dt * (y c - old c) + rsuml (fun a => axis_term m D u y a c) (active_axes ROps m) + beta c * y c = 0) ->
  (forall c, In c cells -> rsuml (fun a => divrow ROps m u a c) (active_axes ROps m) = 0) ->
  (forall c, In c cells -> 0 < alpha c /\ 0 <= beta c) -> 0 < dt ->
  (* the difference of the ghost values obeys the homogeneous boundary relation (Dirichlet: z_g = - z_i ; no-flux: z_g = z_i) *)
  (forall c a, In c cells -> In a (active_axes ROps m) ->
     (In (cdn a c) cells \/ (x (cdn a c) - y (cdn a c) = x c - y c \/ x (cdn a c) - y (cdn a c) = - (x c - y c))) /\
     (In (cup a c) cells \/ (x (cup a c) - y (cup a c) = x c - y c \/ x (cup a c) - y (cup a c) = - (x c - y c)))) ->
  forall c, In c cells -> x c = y c.
Proof.
  intros Hne Hcells Hx Hy Hdiv Hcoef Hdt Hgh c Hc.
  set (z := fun c0 => x c0 - y c0).
  assert (Hrow : forall c0, In c0 cells -> alpha c0 / dt * (z c0 - 0) + rsuml (fun a => axis_term m D u z a c0) (active_axes ROps m) + beta c0 * z c0 = 0).
  { intros c0 Hc0. unfold z. rewrite rsuml_axis_term_sub. pose proof (Hx c0 Hc0). pose proof (Hy c0 Hc0). nra. }
  assert (Hup : z c <= 0).
  { apply (max_principle_upper m D u z alpha beta (fun _ => 0) dt 0 cells Hne Hcells Hrow Hdiv Hcoef Hdt); try (intros; lra); try lra; [|exact Hc].
    intros c0 a Hc0 Ha. destruct (Hgh c0 a Hc0 Ha) as [Hd Hu]. unfold z. split.
    - destruct Hd as [Hd|[Hd|Hd]]; [left; exact Hd|right; intros; lra|right; intros; lra].
    - destruct Hu as [Hu|[Hu|Hu]]; [left; exact Hu|right; intros; lra|right; intros; lra]. }
  assert (Hlo : 0 <= z c).
  { apply (max_principle_lower m D u z alpha beta (fun _ => 0) dt 0 cells Hne Hcells Hrow Hdiv Hcoef Hdt); try (intros; lra); try lra; [|exact Hc].
    intros c0 a Hc0 Ha. destruct (Hgh c0 a Hc0 Ha) as [Hd Hu]. unfold z. split.
    - destruct Hd as [Hd|[Hd|Hd]]; [left; exact Hd|right; intros; lra|right; intros; lra].
    - destruct Hu as [Hu|[Hu|Hu]]; [left; exact Hu|right; intros; lra|right; intros; lra]. }
  unfold z in *. lra.
Qed.
