(* C15: the write effects of every public builder / solver, extracted statically from the source on every run
   (Gen/Effects.v), are exactly the documented ones. *)
From Coq Require Import String List Bool Arith.
From PFV Require Import Effects.
Import ListNotations.
Open Scope string_scope.

Fixpoint slist_eqb (a b : list string) : bool :=
  match a, b with [], [] => true | x :: a', y :: b' => String.eqb x y && slist_eqb a' b' | _, _ => false end.
(* documented effects: solvePDE writes its solution variable; solveExplicitPDE may bring the boundary values of its
   input up to date (apply_BCs) but writes nothing; every other builder / solver writes nothing it is given *)
Definition expected_writes (f : string) : list string := if String.eqb f "solvePDE" then ["phi"] else [].
Definition expected_refresh (f : string) : list string := if String.eqb f "solveExplicitPDE" then ["phi_old"] else [].
Definition row_ok (r : string * list string * list string * list string) : bool :=
  let '(f, _, w, rf) := r in slist_eqb w (expected_writes f) && slist_eqb rf (expected_refresh f).
Definition public_api : list string :=
  ["diffusionTerm"; "convectionTerm"; "convectionUpwindTerm"; "convectionTVDupwindRHSTerm"; "divergenceTerm"; "gradientTerm";
   "gradientTermFixedBC"; "linearMean"; "arithmeticMean"; "geometricMean"; "harmonicMean"; "upwindMean"; "linearSourceTerm";
   "constantSourceTerm"; "transientTerm"; "boundaryConditionsTerm"; "cellValuesWithBoundaries"; "solvePDE"; "solveMatrixPDE";
   "solveExplicitPDE"; "cellLocations"; "faceLocations"; "funceval"; "celleval"; "faceeval"; "fluxLimiter"].
Definition effects_okb : bool :=
  forallb row_ok effects_table && slist_eqb (map (fun r => fst (fst (fst r))) effects_table) public_api.

Lemma slist_eqb_eq a b : slist_eqb a b = true -> a = b.
Proof.
  revert b. induction a as [|x a IH]; intros [|y b] H; cbn in H; try discriminate; [reflexivity|].
  apply andb_true_iff in H. destruct H as [H1 H2]. apply String.eqb_eq in H1. subst. f_equal. apply IH. exact H2.
Qed.
Theorem builders_pure : forall f params w rf, In (f, params, w, rf) effects_table ->
  w = expected_writes f /\ rf = expected_refresh f.
Proof.
  assert (H : effects_okb = true) by (vm_compute; reflexivity).
  intros f params w rf Hin. unfold effects_okb in H. apply andb_true_iff in H. destruct H as [H _].
  rewrite forallb_forall in H. specialize (H _ Hin). cbn in H. apply andb_true_iff in H. destruct H as [H1 H2].
  split; apply slist_eqb_eq; assumption.
Qed.
Theorem api_covered : map (fun r => fst (fst (fst r))) effects_table = public_api.
Proof.
  assert (H : effects_okb = true) by (vm_compute; reflexivity).
  unfold effects_okb in H. apply andb_true_iff in H. destruct H as [_ H]. apply slist_eqb_eq. exact H.
Qed.
