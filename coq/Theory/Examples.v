(* Non-vacuity: concrete graded meshes at Qc satisfy the hypotheses of the generic theorems. *)
From Coq Require Import ZArith QArith Qcanon Arith List Bool Lia.
From PFV Require Import OField KOps Grid Ops StencilThy ConservThy MeasureThy TermsThy CorrLib Exec.
Import ListNotations.

Lemma qc_neq (x y : Qc) : Qc_eqb x y = false -> x <> y.
Proof. intros H E. apply Qc_eqb_spec in E. congruence. Qed.

(* a 3 x 2 cylindrical (r,z) mesh with graded spacing, offset from the axis *)
Definition ex_C2 : Mesh QcOps :=
  mk_mesh C2 [qc 1 2; qc 1 1; qc 2 1; qc 5 2] [qc 0 1; qc 1 4; qc 1 1] [] (qc 355 113) [] [].
(* a 2 x 2 x 2 spherical mesh; the "sines" are arbitrary positive rationals (parameters of the model) *)
Definition ex_S3 : Mesh QcOps :=
  mk_mesh S3 [qc 0 1; qc 1 2; qc 3 2] [qc 1 4; qc 1 1; qc 3 2] [qc 0 1; qc 1 1; qc 3 1] (qc 355 113)
          [qc 3 5; qc 19 20] [qc 1 4; qc 21 25; qc 1 1].

Ltac qcnz := apply qc_neq; vm_compute; reflexivity.

Set Default Timeout 60.
Example ex_C2_stencil_ok : stencil_ok QcOps ex_C2.
Proof.
  constructor.
  - intros a i Ha Hi. destruct a; try discriminate Ha.
    all: vm_compute in Hi.
    all: do 5 (try (destruct i as [|i]; [try (exfalso; lia)|])).
    all: try (exfalso; lia).
    all: qcnz.
  - intros a i Ha Hi. destruct a; try discriminate Ha.
    all: vm_compute in Hi.
    all: do 5 (try (destruct i as [|i]; [try (exfalso; lia)|])).
    all: try (exfalso; lia).
    all: qcnz.
  - intros a f Ha Hf. destruct a; try discriminate Ha.
    all: vm_compute in Hf.
    all: do 5 (try (destruct f as [|f]; [try (exfalso; lia)|])).
    all: try (exfalso; lia).
    all: qcnz.
Qed.
Example ex_C2_mesh_ok : mesh_ok QcOps ex_C2.
Proof.
  constructor.
  - intros a i Ha Hi. destruct a; try discriminate Ha.
    all: vm_compute in Hi.
    all: do 5 (try (destruct i as [|i]; [try (exfalso; lia)|])).
    all: try (exfalso; lia).
    all: qcnz.
  - intros _ i Hi. vm_compute in Hi.
    do 5 (try (destruct i as [|i]; [try (exfalso; lia)|])).
    all: try (exfalso; lia).
    all: qcnz.
  - qcnz.
  - intros H; discriminate H.
  - intros H; discriminate H.
Qed.
Example ex_S3_stencil_ok : stencil_ok QcOps ex_S3.
Proof.
  constructor.
  - intros a i Ha Hi. destruct a; try discriminate Ha.
    all: vm_compute in Hi.
    all: do 5 (try (destruct i as [|i]; [try (exfalso; lia)|])).
    all: try (exfalso; lia).
    all: qcnz.
  - intros a i Ha Hi. destruct a; try discriminate Ha.
    all: vm_compute in Hi.
    all: do 5 (try (destruct i as [|i]; [try (exfalso; lia)|])).
    all: try (exfalso; lia).
    all: qcnz.
  - intros a f Ha Hf. destruct a; try discriminate Ha.
    all: vm_compute in Hf.
    all: do 5 (try (destruct f as [|f]; [try (exfalso; lia)|])).
    all: try (exfalso; lia).
    all: qcnz.
Qed.
Example ex_S3_mesh_ok : mesh_ok QcOps ex_S3.
Proof.
  constructor.
  - intros a i Ha Hi. destruct a; try discriminate Ha.
    all: vm_compute in Hi.
    all: do 5 (try (destruct i as [|i]; [try (exfalso; lia)|])).
    all: try (exfalso; lia).
    all: qcnz.
  - intros _ i Hi. vm_compute in Hi.
    do 5 (try (destruct i as [|i]; [try (exfalso; lia)|])).
    all: try (exfalso; lia).
    all: qcnz.
  - qcnz.
  - intros _ j Hj. vm_compute in Hj.
    do 5 (try (destruct j as [|j]; [try (exfalso; lia)|])).
    all: try (exfalso; lia).
    all: qcnz.
  - intros _ i Hi. vm_compute in Hi.
    do 5 (try (destruct i as [|i]; [try (exfalso; lia)|])).
    all: try (exfalso; lia).
    all: qcnz.
Qed.

(* hypotheses of the scaling theorem (C17) are satisfiable: ex_C2 with Robin conditions on every side *)
From PFV Require Import Boundary Solver ScalingThy ScalingSolveThy.
Definition ex_bc : BCs QcOps :=
  mkBCs QcOps (fun a hi _ => if hi then qc 1 1 else qc (-1) 1) (fun _ _ _ => qc 2 1) (fun _ _ c => qc (Z.of_nat (fst (fst c))) 3) (fun _ => false).
Example ex_C2_fac_ok : forall c, interior QcOps ex_C2 c = true -> fac_ok QcOps ex_C2 c.
Proof. intros c _. split; intros H; discriminate H. Qed.
Example ex_C2_bc_ok : bc_ok QcOps ex_C2 ex_bc.
Proof.
  constructor.
  - intros a Ha. destruct a; try discriminate Ha; split; qcnz.
  - intros a hi g _. split; intros H; discriminate H.
  - qcnz.
Qed.
