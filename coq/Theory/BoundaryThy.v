(* C03: ghost values satisfy the configured Robin relation face by face; the solver's boundary rows
   encode the same relation; scaling (a,b,c) changes nothing; periodic wrap. *)
From Coq Require Import Arith List Bool Field Lia.
From PFV Require Import OField KOps Grid Ops Boundary StencilThy.
Import ListNotations.

Section BoundaryThy.
Variable F : FieldOps.
Variable L : FieldLaws F.
Add Field FFb : (FL_field F L).
Local Notation K := (K F).
Local Notation "0" := (k0 F).
Local Notation "1" := (k1 F).
Local Infix "+" := (kadd F).
Local Infix "*" := (kmul F).
Local Infix "-" := (ksub F).
Local Infix "/" := (kdiv F).
Local Notation "- x" := (kopp F x).
Local Notation two := (kadd F (k1 F) (k1 F)).
Local Notation Mesh := (Mesh F).

(* the Robin relation across a boundary face between ghost cell g and its interior neighbour:
   a/h * (phi_hi - phi_lo) + b * (phi_hi + phi_lo)/2 = c,  with a/h = aoh (incl. 1/r, 1/(r sin theta)) *)
Definition robin_hi (m : Mesh) (bc : BCs F) (x : cvar F) a g : Prop :=
  aoh F m bc a true g * (x g - x (cdn a g)) + bcb F bc a true g * ((x g + x (cdn a g)) / two) = bcc F bc a true g.
Definition robin_lo (m : Mesh) (bc : BCs F) (x : cvar F) a g : Prop :=
  aoh F m bc a false g * (x (cup a g) - x g) + bcb F bc a false g * ((x (cup a g) + x g) / two) = bcc F bc a false g.

Lemma denom_two (x b : K) : x + b / two <> 0 -> x * two + b <> 0.
Proof.
  intros H E. apply H. pose proof (two_neq_0 F L) as H2.
  transitivity ((x * two + b) / two); [field; auto|]. rewrite E. field. auto.
Qed.
Lemma denom_two' (x b : K) : - x + b / two <> 0 -> - x * two + b <> 0.
Proof. apply denom_two. Qed.

Theorem ghost_robin_hi (m : Mesh) (bc : BCs F) (phi : cvar F) a g :
  bper F bc a = false ->
  aoh F m bc a true g + bcb F bc a true g / two <> 0 ->
  let xg := ghost_value F m bc phi a true g in
  aoh F m bc a true g * (xg - phi (cdn a g)) + bcb F bc a true g * ((xg + phi (cdn a g)) / two) = bcc F bc a true g.
Proof.
  intros Hp Hd xg. unfold xg, ghost_value. rewrite Hp. pose proof (two_neq_0 F L) as H2. field. split; [exact H2|apply denom_two; exact Hd].
Qed.
Theorem ghost_robin_lo (m : Mesh) (bc : BCs F) (phi : cvar F) a g :
  bper F bc a = false ->
  - aoh F m bc a false g + bcb F bc a false g / two <> 0 ->
  let xg := ghost_value F m bc phi a false g in
  aoh F m bc a false g * (phi (cup a g) - xg) + bcb F bc a false g * ((phi (cup a g) + xg) / two) = bcc F bc a false g.
Proof.
  intros Hp Hd xg. unfold xg, ghost_value. rewrite Hp. pose proof (two_neq_0 F L) as H2. field. split; [exact H2|apply denom_two'; exact Hd].
Qed.

(* stated on the padded array that cellValuesWithBoundaries / apply_BCs / solvePDE / solveExplicitPDE store *)
Theorem stored_values_robin_hi (m : Mesh) (bc : BCs F) (phi : cvar F) a g :
  ghost_axis F m g = Some (a, true) -> interior F m g = false -> interior F m (cdn a g) = true ->
  bper F bc a = false -> aoh F m bc a true g + bcb F bc a true g / two <> 0 ->
  robin_hi m bc (with_boundaries F m bc phi) a g.
Proof.
  intros Hg Hi Hn Hp Hd. unfold robin_hi, with_boundaries. rewrite Hi, Hn, Hg.
  apply ghost_robin_hi; assumption.
Qed.
Theorem stored_values_robin_lo (m : Mesh) (bc : BCs F) (phi : cvar F) a g :
  ghost_axis F m g = Some (a, false) -> interior F m g = false -> interior F m (cup a g) = true ->
  bper F bc a = false -> - aoh F m bc a false g + bcb F bc a false g / two <> 0 ->
  robin_lo m bc (with_boundaries F m bc phi) a g.
Proof.
  intros Hg Hi Hn Hp Hd. unfold robin_lo, with_boundaries. rewrite Hi, Hn, Hg.
  apply ghost_robin_lo; assumption.
Qed.

(* the plot profile reports, at a boundary face, the face average; with the stored boundary values it therefore satisfies the configured
   relation, and for Dirichlet data (a = 0) it IS the boundary value c / b *)
Theorem profile_robin_hi (m : Mesh) (bc : BCs F) (phi : cvar F) a g :
  ghost_axis F m g = Some (a, true) -> interior F m g = false -> interior F m (cdn a g) = true ->
  bper F bc a = false -> aoh F m bc a true g + bcb F bc a true g / two <> 0 ->
  let X := with_boundaries F m bc phi in
  aoh F m bc a true g * (X g - X (cdn a g)) + bcb F bc a true g * plot_profile F m X g = bcc F bc a true g.
Proof.
  intros Hg Hi Hn Hp Hd X. pose proof (stored_values_robin_hi m bc phi a g Hg Hi Hn Hp Hd) as R.
  unfold robin_hi in R. unfold plot_profile. rewrite Hi, Hg. exact R.
Qed.
Theorem profile_robin_lo (m : Mesh) (bc : BCs F) (phi : cvar F) a g :
  ghost_axis F m g = Some (a, false) -> interior F m g = false -> interior F m (cup a g) = true ->
  bper F bc a = false -> - aoh F m bc a false g + bcb F bc a false g / two <> 0 ->
  let X := with_boundaries F m bc phi in
  aoh F m bc a false g * (X (cup a g) - X g) + bcb F bc a false g * plot_profile F m X g = bcc F bc a false g.
Proof.
  intros Hg Hi Hn Hp Hd X. pose proof (stored_values_robin_lo m bc phi a g Hg Hi Hn Hp Hd) as R.
  unfold robin_lo in R. unfold plot_profile. rewrite Hi, Hg.
  replace ((X g + X (cup a g)) / two) with ((X (cup a g) + X g) / two) by (field; apply (two_neq_0 F L)). exact R.
Qed.
Theorem profile_dirichlet_hi (m : Mesh) (bc : BCs F) (phi : cvar F) a g :
  ghost_axis F m g = Some (a, true) -> interior F m g = false -> interior F m (cdn a g) = true ->
  bper F bc a = false -> aoh F m bc a true g = 0 -> bcb F bc a true g <> 0 ->
  plot_profile F m (with_boundaries F m bc phi) g = bcc F bc a true g / bcb F bc a true g.
Proof.
  intros Hg Hi Hn Hp Ha Hb. pose proof (two_neq_0 F L) as H2.
  assert (Hd : aoh F m bc a true g + bcb F bc a true g / two <> 0).
  { rewrite Ha. intro E. apply Hb. transitivity ((0 + bcb F bc a true g / two) * two); [field; exact H2|]. rewrite E. ring. }
  pose proof (profile_robin_hi m bc phi a g Hg Hi Hn Hp Hd) as R. cbv zeta in R. rewrite Ha in R.
  set (P := plot_profile F m (with_boundaries F m bc phi) g) in *.
  transitivity ((0 * (with_boundaries F m bc phi g - with_boundaries F m bc phi (cdn a g)) + bcb F bc a true g * P) / bcb F bc a true g);
    [field; exact Hb|]. rewrite R. reflexivity.
Qed.
Theorem profile_dirichlet_lo (m : Mesh) (bc : BCs F) (phi : cvar F) a g :
  ghost_axis F m g = Some (a, false) -> interior F m g = false -> interior F m (cup a g) = true ->
  bper F bc a = false -> aoh F m bc a false g = 0 -> bcb F bc a false g <> 0 ->
  plot_profile F m (with_boundaries F m bc phi) g = bcc F bc a false g / bcb F bc a false g.
Proof.
  intros Hg Hi Hn Hp Ha Hb. pose proof (two_neq_0 F L) as H2.
  assert (Hd : - aoh F m bc a false g + bcb F bc a false g / two <> 0).
  { rewrite Ha. intro E. apply Hb. transitivity ((- 0 + bcb F bc a false g / two) * two); [field; exact H2|]. rewrite E. ring. }
  pose proof (profile_robin_lo m bc phi a g Hg Hi Hn Hp Hd) as R. cbv zeta in R. rewrite Ha in R.
  set (P := plot_profile F m (with_boundaries F m bc phi) g) in *.
  transitivity ((0 * (with_boundaries F m bc phi (cup a g) - with_boundaries F m bc phi g) + bcb F bc a false g * P) / bcb F bc a false g);
    [field; exact Hb|]. rewrite R. reflexivity.
Qed.

(* the two entries of a (non-periodic) boundary row applied to (ghost, inner) give the same relation *)
Theorem row_is_robin_hi (m : Mesh) (bc : BCs F) (x : cvar F) a g :
  (bcb F bc a true g / two + aoh F m bc a true g) * x g + (bcb F bc a true g / two - aoh F m bc a true g) * x (cdn a g)
  = bcc F bc a true g  <->  robin_hi m bc x a g.
Proof.
  unfold robin_hi. pose proof (two_neq_0 F L) as H2.
  split; intros H; rewrite <- H; field; auto.
Qed.
Theorem row_is_robin_lo (m : Mesh) (bc : BCs F) (x : cvar F) a g :
  - (bcb F bc a false g / two + aoh F m bc a false g) * x (cup a g) + - (bcb F bc a false g / two - aoh F m bc a false g) * x g
  = - bcc F bc a false g  <->  robin_lo m bc x a g.
Proof.
  unfold robin_lo. pose proof (two_neq_0 F L) as H2.
  split; intros H.
  - transitivity (- (- bcc F bc a false g)); [rewrite <- H; field; auto|ring].
  - rewrite <- H. field; auto.
Qed.

(* multiplying (a, b, c) by a non-zero factor changes no ghost value *)
Definition scale_bc (lam : K) (bc : BCs F) : BCs F :=
  mkBCs F (fun a h c => lam * bca F bc a h c) (fun a h c => lam * bcb F bc a h c)
          (fun a h c => lam * bcc F bc a h c) (bper F bc).
Lemma scaled_denom (lam x b : K) : lam <> 0 -> x * two + b <> 0 -> lam * x * two + lam * b <> 0.
Proof.
  intros Hl H E. apply H. transitivity ((lam * x * two + lam * b) / lam); [field; auto|]. rewrite E. field. auto.
Qed.
Lemma scaled_denom' (lam x b : K) : lam <> 0 -> - x * two + b <> 0 -> - (lam * x) * two + lam * b <> 0.
Proof.
  intros Hl H E. apply H. transitivity ((- (lam * x) * two + lam * b) / lam); [field; auto|]. rewrite E. field. auto.
Qed.

Theorem ghost_scale_invariant (m : Mesh) (bc : BCs F) (phi : cvar F) (lam : K) a (hi : bool) g :
  lam <> 0 ->
  mDX F m a (cidx a g) <> 0 ->
  (if hi then aoh F m bc a hi g + bcb F bc a hi g / two <> 0
         else - aoh F m bc a hi g + bcb F bc a hi g / two <> 0) ->
  ghost_value F m (scale_bc lam bc) phi a hi g = ghost_value F m bc phi a hi g.
Proof.
  intros Hl HDX Hd. pose proof (two_neq_0 F L) as H2.
  unfold ghost_value. change (bper F (scale_bc lam bc) a) with (bper F bc a).
  destruct (bper F bc a); [reflexivity|].
  assert (Ea : aoh F m (scale_bc lam bc) a hi g = lam * aoh F m bc a hi g).
  { unfold aoh, scale_bc. cbn [bca]. field. exact HDX. }
  rewrite Ea. unfold scale_bc. cbn [bcb bcc].
  destruct hi.
  - pose proof (denom_two _ _ Hd) as Hd'. field. repeat split; auto.
    apply scaled_denom; assumption.
  - pose proof (denom_two' _ _ Hd) as Hd'. field. repeat split; auto.
    apply scaled_denom'; assumption.
Qed.

(* periodic axes: ghosts are exact copies of the opposite interior cells (by definition of ghost_value) ... *)
Theorem ghost_periodic_wrap (m : Mesh) (bc : BCs F) (phi : cvar F) a g :
  bper F bc a = true ->
  ghost_value F m bc phi a true g = phi (cset a g 1) /\
  ghost_value F m bc phi a false g = phi (cset a g (mN F m a)).
Proof. intros Hp. unfold ghost_value. rewrite Hp. split; reflexivity. Qed.

(* ... and the solver's two periodic rows: the lo row is satisfied by the wrap ghosts identically, the hi
   row leaves the residual (1 - dx_end/dx_1) * (phi_1 - phi_N): consistent iff the two end cells have
   equal size or the field has equal end values (finding 6.16 otherwise) *)
Theorem periodic_rows_vs_wrap (m : Mesh) (p1 pN : K) :
  forall r : K,
  let g0 := pN in let gN1 := p1 in
  (g0 + p1 - pN - gN1 = 0) /\
  (gN1 - pN + r * (g0 - p1) = (1 - r) * (p1 - pN)).
Proof. intros r g0 gN1. unfold g0, gN1. split; ring. Qed.
End BoundaryThy.
