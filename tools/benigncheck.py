#!/usr/bin/env python3
"""Run every check against a BEHAVIOUR-PRESERVING refactoring of /repo produced by a sub-agent: no check may raise an alarm.
usage: benigncheck.py <id> <dir with patch.diff equiv.py notes.md> [--checks=C01,C02]"""
import sys, os, subprocess, json, shutil, time, re
name, src = sys.argv[1], sys.argv[2]
checks = [f"C{i:02d}" for i in range(1, 18)]
for a in sys.argv:
    if a.startswith("--checks"):
        checks = a.split("=", 1)[1].split(",")
V = "/verif"; R = "/repo"
wt = f"/tmp/val_{name}"
def sh(cmd, **kw):
    p = subprocess.run(cmd, shell=True, stdout=subprocess.PIPE, stderr=subprocess.STDOUT, text=True, **kw)
    return p.returncode, p.stdout
sh(f"git -C {R} worktree remove --force {wt}"); shutil.rmtree(wt, ignore_errors=True)
sh(f"git -C {R} worktree add -q --detach {wt} HEAD")
env = f"PYTHONPATH={wt}/src PYTHONDONTWRITEBYTECODE=1"
rca, oa = sh(f"git -C {wt} apply {src}/patch.diff")
rct, ot = sh(f"cd {wt} && {env} /venv/bin/python -m pytest -q -p no:cacheprovider --timeout=900 --continue-on-collection-errors 2>&1 | tail -3")
m = re.search(r"(\d+) passed", ot)
nlines = sum(1 for l in open(f"{src}/patch.diff") if (l.startswith("+") or l.startswith("-")) and not l.startswith("+++") and not l.startswith("---"))
meta = {"name": name, "patch_applies": rca == 0, "tests": ot.strip().split("\n")[-1], "tests_passed": int(m.group(1)) if m else 0, "changed_lines": nlines,
        "files": sorted(set(re.findall(r"\+\+\+ b/(\S+)", open(f"{src}/patch.diff").read())))}
sh(f"git -C {R} worktree remove --force {wt}"); shutil.rmtree(wt, ignore_errors=True)
ok = rca == 0 and meta["tests_passed"] == 48 and "failed" not in ot
print(json.dumps(meta))
if ok:
    rc, out = sh(f"git -C {R} status --short")
    assert out.strip() == "", "repo not clean: " + out
    sh(f"git -C {R} apply {src}/patch.diff")
    res = {}
    try:
        for c in checks:
            t = time.time()
            rc, out = sh(f"cd {V} && VERIF_EVIDENCE_DIR=/verif/build/scratch_evidence bin/check {c}")
            lines = [l for l in out.split("\n") if l.startswith("VIOLATION")]
            res[c] = {"exit": rc, "wall_s": round(time.time() - t, 1), "lines": [l[:400] for l in lines[:4]]}
            print(c, "exit", rc, *[l[:260] for l in lines[:2]], flush=True)
    finally:
        sh(f"git -C {R} checkout -- .")
    meta["checks"] = res
    meta["alarms"] = [c for c, r in res.items() if r["exit"] != 0]
    d = f"{V}/benign/{name}"
    os.makedirs(d, exist_ok=True)
    if os.path.abspath(src) != os.path.abspath(d):
        shutil.copy(f"{src}/patch.diff", d)
    if os.path.exists(f"{src}/notes.md"):
        meta["notes"] = open(f"{src}/notes.md").read()[:1500]
    json.dump(meta, open(f"{d}/meta.json", "w"), indent=1)
rc, out = sh(f"git -C {R} status --short")
print("repo status after:", repr(out.strip()))
