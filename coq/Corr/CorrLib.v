(* Executable comparators used by generated case files (correspondence check).
   Everything here runs at the Qc instance under vm_compute. *)
From Coq Require Import ZArith QArith Qcanon List Bool String.
From PFV Require Import OField KOps.
Import ListNotations.

Definition qc (n : Z) (d : positive) : Qc := Q2Qc (n # d).
Definition Qcabs (x : Qc) : Qc := if Qc_ltb x (Q2Qc 0) then Qcopp x else x.
(* |a - b| <= tol * (1 + |a| + |b|) *)
Definition close (tol a b : Qc) : bool :=
  Qc_leb (Qcabs (Qcminus a b)) (Qcmult tol (Qcplus (Q2Qc 1) (Qcplus (Qcabs a) (Qcabs b)))).
(* |a - b| <= tol * scale *)
Definition close_abs (tol scale a b : Qc) : bool :=
  Qc_leb (Qcabs (Qcminus a b)) (Qcmult tol scale).

Definition tol9 : Qc := qc 1 1000000000.
Definition tol12 : Qc := qc 1 1000000000000.

Fixpoint all_close (tol : Qc) (a b : list Qc) : bool :=
  match a, b with
  | [], [] => true
  | x :: a', y :: b' => close tol x y && all_close tol a' b'
  | _, _ => false
  end.

(* index of first differing position, or None *)
Fixpoint first_bad (tol : Qc) (i : nat) (a b : list Qc) : option nat :=
  match a, b with
  | [], [] => None
  | x :: a', y :: b' => if close tol x y then first_bad tol (S i) a' b' else Some i
  | _, _ => Some i
  end.

(* sparse rows: assoc lists col -> value *)
Fixpoint assoc (c : nat) (l : list (nat * Qc)) : option Qc :=
  match l with
  | [] => None
  | (c', v) :: l' => if Nat.eqb c c' then Some v else assoc c l'
  end.
Definition row_scale (l : list (nat * Qc)) : Qc :=
  fold_left (fun acc cv => Qcplus acc (Qcabs (snd cv))) l (Q2Qc 1).
(* every entry of a has a close partner in b (missing = 0) *)
Definition row_sub (tol sc : Qc) (a b : list (nat * Qc)) : bool :=
  forallb (fun cv => match assoc (fst cv) b with
                     | Some w => close_abs tol sc (snd cv) w
                     | None => close_abs tol sc (snd cv) (Q2Qc 0) end) a.
Definition row_eq (tol : Qc) (model impl : list (nat * Qc)) : bool :=
  let sc := row_scale model in
  row_sub tol sc model impl && row_sub tol sc impl model.

(* rows: one assoc list per matrix row, in row order *)
Fixpoint rows_first_bad (tol : Qc) (r : nat) (model : nat -> list (nat * Qc))
         (impl : list (list (nat * Qc))) : option nat :=
  match impl with
  | [] => None
  | row :: rest => if row_eq tol (model r) row then rows_first_bad tol (S r) model rest else Some r
  end.

Definition count_true (l : list bool) : nat := List.length (filter (fun b => b) l).
Fixpoint first_false (i : nat) (l : list bool) : option nat :=
  match l with [] => None | b :: l' => if b then first_false (S i) l' else Some i end.

(* summary of a list of per-case verdicts: (n, n_bad, first_bad) *)
Definition summary (l : list bool) : nat * nat * option nat :=
  (List.length l, (List.length l - count_true l)%nat, first_false 0 l).

Fixpoint bad_idx (i : nat) (l : list bool) : list nat :=
  match l with [] => [] | b :: l' => if b then bad_idx (S i) l' else i :: bad_idx (S i) l' end.
Definition report (l : list bool) : nat * list nat := (List.length l, bad_idx 0 l).
