"""`symbolic` suite: the per-class builders are traced on symbolic inputs (tools/tr_builders.py) and every entry of what they
return is PROVED equal to the corresponding coefficient of the generic model, for all values of the symbols (coqc compiles the
generated files; one file per grid class, compiled in parallel).  A lemma that fails is a broken tie for that (class, builder)."""
import os, re, sys, subprocess, json
import lib, gen

KINDS = ["diffusion", "central", "divergence", "gradient", "linmean", "arithmean", "linsource", "constsource", "transientM", "transientR", "bcM", "bcR", "ghosts", "upwind", "tvd", "tvdfsarg", "harmmean", "upwmean", "solveL", "solveR", "explicit", "profile"]


def run_suite(suite, tier, seed):
    import tr_builders as T
    res = {"suite": suite, "cases": 0, "checks": 0, "bad": [], "errors": [], "skipped": [], "keys": [], "samples": [], "dist": {}}
    items = []
    for cname in T.CLASSES:
        # each class is traced in its own interpreter: the tracer patches module globals of the library
        p = subprocess.run([lib.PY, os.path.join(lib.VERIF, "tools", "tr_builders.py"), lib.REPO, "-", cname], stdout=subprocess.PIPE, stderr=subprocess.STDOUT,
                           text=True, env=dict(os.environ, PYTHONPATH=os.path.join(lib.REPO, "src"), PYTHONWARNINGS="ignore"))
        if p.returncode != 0 or "TRANSLATE-ERROR" in p.stdout[:4000]:
            res["skipped"].append({"cls": cname, "what": "symbolic-trace", "reason": "could not be traced symbolically", "trace": p.stdout[-700:], "label": {"cls": cname}})
            continue
        items.append((cname, p.stdout))
    # one generated text per class = header / chunks of lemmas / footer; the chunks are compiled in parallel, each with the header
    files = []
    for cname, txt in items:
        head, rest = txt.split("(*CHUNK*)", 1)
        body, foot = rest.split("(*FOOTER*)", 1)
        for ci, ch in enumerate(body.split("(*CHUNK*)")):
            files.append((cname, f"Traced_{T.COQ[cname]}_{ci}", head + ch + foot))
    out = lib.coq_eval_many([(n, t) for _, n, t in files], timeout=1500, par=16)
    for cname, fname, txt in files:
        rc, o = out[fname]
        lemmas = re.findall(r"^Lemma (\w+) :", txt, re.M)
        res["cases"] += 1
        res["dist"][cname] = res["dist"].get(cname, 0) + len(lemmas)
        if rc == 0:
            res["checks"] += len(lemmas)
            res["keys"] += [f"{cname}:{l}" for l in lemmas]
            continue
        m = re.search(r'line (\d+), characters', o)
        failing = None
        if m:
            ln = int(m.group(1))
            for i, line in enumerate(txt.split("\n")[:ln][::-1]):
                mm = re.match(r"Lemma (\w+) :", line)
                if mm:
                    failing = mm.group(1); break
        if failing is None:
            res["errors"].append({"file": fname, "out": o[-600:]})
            continue
        # entries before the failing one were proved
        k = lemmas.index(failing)
        res["checks"] += k
        res["keys"] += [f"{cname}:{l}" for l in lemmas[:k]]
        stmt = re.search(r"^Lemma %s : (.*?)\nProof" % re.escape(failing), txt, re.M | re.S)
        res["bad"].append({"cls": cname, "what": "symbolic:" + failing.split("_")[0], "lemma": failing,
                           "statement": (stmt.group(1)[:900] if stmt else ""), "coq": o[-400:]})
    res["keys"] = sorted(set(res["keys"]))
    return res


def relevant_for(kinds):
    """filter for common.run_suites: only the traced entries of these builder kinds concern the property"""
    ks = set(kinds)
    def rel(suite, b):
        w = b.get("what", "")
        if w == "symbolic-trace":
            return True
        return w.startswith("symbolic:") and w.split(":", 1)[1].rstrip("0123456789") in ks
    return rel
