(* C01 at the level of solver steps: the integral balance of an implicit and of an explicit step. *)
From Coq Require Import Arith List Bool Field Lia.
From PFV Require Import OField KOps Sums Grid Ops Boundary Solver StencilThy ConservThy MeasureThy TermsThy SolverThy.
Import ListNotations.

Section Balance.
Variable F : FieldOps.
Variable L : FieldLaws F.
Add Field FFbal : (FL_field F L).
Local Notation K := (K F).
Local Notation "0" := (k0 F).
Local Infix "+" := (kadd F).
Local Infix "*" := (kmul F).
Local Infix "-" := (ksub F).
Local Infix "/" := (kdiv F).
Local Notation Mesh := (Mesh F).

Variable m : Mesh.
Variable V : cell -> K.
Variable T : axis -> cell -> K.
Hypothesis HM : forall a, In a (active_axes F m) -> measure_ok F m V T a.
Hypothesis Hok : stencil_ok F m.
Local Notation BF := (boundary_flux F m T).
Local Notation SC := (sum_cells F m).

(* one backward-Euler step with (scaled) diffusion, central and upwind advection:
   the change of the alpha-weighted integral equals dt times the net boundary flux *)
Theorem implicit_step_balance (bc : BCs F) alpha (dt : K) old x (sD sC sU : K) D u1 u2 uup :
  dt <> 0 ->
  is_solution F m bc [TTrans F alpha dt old; TDiff F sD D; TCen F sC u1; TUpw F sU u2 uup] x ->
  SC (fun c => V c * (alpha c * (x c - old c) / dt))
  + sD * BF (fmul F D (gradient F m x)) + sC * BF (fmul F u1 (linmean F m x)) + sU * BF (upwflux F m u2 uup x) = 0.
Proof.
  intros Hdt Hs.
  rewrite <- (diffusion_term_conserved F L m V T HM Hok D x).
  rewrite <- (central_term_conserved F L m V T HM Hok u1 x).
  rewrite <- (upwind_term_conserved F L m V T HM Hok u2 uup x).
  rewrite <- !(sum_cells_scal F L), <- !(sum_cells_add F L).
  transitivity (SC (fun _ => 0)); [|apply (sum_cells_zero F L)].
  apply sum_cells_ext_int. intros c Hc.
  pose proof (backward_euler_row F L m bc _ alpha dt old x c Hdt Hs Hc) as E.
  unfold sys_lhs, sys_rhs in E. cbn [map ksum fold_right term_lhs term_rhs] in E.
  transitivity (V c * (alpha c * (x c - old c) / dt
     + (sD * apply_stencil F m (diffAW F m D) (diffAP F m D) (diffAE F m D) x c
        + (sC * apply_stencil F m (cenAW F m u1) (cenAP F m u1) (cenAE F m u1) x c
           + (sU * apply_stencil F m (upwAW F m u2 uup) (upwAP F m u2 uup) (upwAE F m u2 uup) x c + 0)))
     - (0 + (0 + (0 + 0))))).
  - ring.
  - rewrite E. ring.
Qed.

(* closed system: if the boundary fluxes vanish (no-flux walls with zero normal velocity, or periodic
   axes where the two end faces carry equal and opposite contributions) the integral is unchanged *)
Corollary implicit_step_closed (bc : BCs F) alpha (dt : K) old x (sD sC sU : K) D u1 u2 uup :
  dt <> 0 ->
  is_solution F m bc [TTrans F alpha dt old; TDiff F sD D; TCen F sC u1; TUpw F sU u2 uup] x ->
  BF (fmul F D (gradient F m x)) = 0 -> BF (fmul F u1 (linmean F m x)) = 0 -> BF (upwflux F m u2 uup x) = 0 ->
  SC (fun c => V c * (alpha c * x c)) = SC (fun c => V c * (alpha c * old c)).
Proof.
  intros Hdt Hs B1 B2 B3. pose proof (implicit_step_balance bc alpha dt old x sD sC sU D u1 u2 uup Hdt Hs) as E.
  rewrite B1, B2, B3 in E.
  assert (E2 : SC (fun c => V c * (alpha c * (x c - old c) / dt)) = 0).
  { rewrite <- E. ring. }
  assert (E3 : SC (fun c => V c * (alpha c * (x c - old c) / dt))
               = (k1 F / dt) * (SC (fun c => V c * (alpha c * x c)) - SC (fun c => V c * (alpha c * old c)))).
  { transitivity (SC (fun c => (k1 F / dt) * (V c * (alpha c * x c) + kopp F (k1 F) * (V c * (alpha c * old c))))).
    - apply (sum_cells_ext F). intros c. field. exact Hdt.
    - rewrite (sum_cells_scal F L), (sum_cells_add F L), (sum_cells_scal F L). ring. }
  rewrite E3 in E2.
  transitivity (SC (fun c => V c * (alpha c * old c))
                + dt * (k1 F / dt * (SC (fun c => V c * (alpha c * x c)) - SC (fun c => V c * (alpha c * old c))))).
  - field. exact Hdt.
  - rewrite E2. ring.
Qed.

(* explicit step with a flux-form right-hand side RHS = -div(Fl): same balance *)
Theorem explicit_step_balance (bc : BCs F) old (dt : K) (Fl : fvar F) :
  SC (fun c => V c * explicit_step F m bc old dt (fun c => kopp F (divergence F m Fl c)) c)
  = SC (fun c => V c * old c) - dt * BF Fl.
Proof.
  rewrite <- (divergence_term_conserved F L m V T HM Fl).
  transitivity (SC (fun c => V c * old c + kopp F dt * (V c * divergence F m Fl c))).
  - apply sum_cells_ext_int. intros c Hc. rewrite (explicit_step_interior F m bc old dt _ c Hc). ring.
  - rewrite (sum_cells_add F L), (sum_cells_scal F L). ring.
Qed.
End Balance.
