(* C10 — Grid geometry is exact: faces, centres, sizes and true cell volumes; labels. *)
From Coq Require Import Reals Arith List String.
Local Close Scope R_scope.
From PFV Require Import OField KOps Sums Grid Ops MeasureThy GeometryThy GeometryR Labels LabelSpec LabelThy.

Theorem C10_sizes_are_face_differences : forall (F : FieldOps) (a : Axis F) p,
  1 <= p <= aN F a -> aDX F a p = ksub F (axf F a p) (axf F a (pred p)).
Proof. exact size_is_face_difference. Qed.
Print Assumptions C10_sizes_are_face_differences.
Theorem C10_ghost_sizes : forall (F : FieldOps) (a : Axis F), 1 <= aN F a ->
  aDX F a 0 = aDX F a 1 /\ aDX F a (S (aN F a)) = aDX F a (aN F a).
Proof. exact ghost_sizes_repeat. Qed.
Print Assumptions C10_ghost_sizes.
Theorem C10_centres_are_midpoints : forall (F : FieldOps) (a : Axis F) p,
  axc F a p = kdiv F (kadd F (axf F a p) (axf F a (pred p))) (kadd F (k1 F) (k1 F)).
Proof. exact centre_is_midpoint. Qed.
Print Assumptions C10_centres_are_midpoints.
Theorem C10_NL_form : forall (F : FieldOps) (L : FieldLaws F) (n : nat) (dx : F) p, 1 <= p <= n ->
  aDX F (uniform_axis F n dx) p = dx /\
  axc F (uniform_axis F n dx) p = ksub F (kmul F (kofnat F p) dx) (kdiv F dx (kadd F (k1 F) (k1 F))).
Proof. exact NL_form. Qed.
Print Assumptions C10_NL_form.
Theorem C10_volume_forms : forall (F : FieldOps) (L : FieldLaws F) (m : Mesh F) i j k, mpi F m <> k0 F ->
  match mcls F m with
  | G1 => mvol F m (i, j, k) = mDX F m AX i
  | G2 => mvol F m (i, j, k) = kmul F (mDX F m AX i) (mDX F m AY j)
  | G3 => mvol F m (i, j, k) = kmul F (kmul F (mDX F m AX i) (mDX F m AY j)) (mDX F m AZ k)
  | C1 => mvol F m (i, j, k) = kmul F (kdiv F (r2diff F m i) (kadd F (k1 F) (k1 F))) (kmul F (kadd F (k1 F) (k1 F)) (mpi F m))
  | C2 => mvol F m (i, j, k) = kmul F (kmul F (kdiv F (r2diff F m i) (kadd F (k1 F) (k1 F))) (kmul F (kadd F (k1 F) (k1 F)) (mpi F m))) (mDX F m AY j)
  | P2 => mvol F m (i, j, k) = kmul F (kdiv F (r2diff F m i) (kadd F (k1 F) (k1 F))) (mDX F m AY j)
  | C3 => mvol F m (i, j, k) = kmul F (kmul F (kdiv F (r2diff F m i) (kadd F (k1 F) (k1 F))) (mDX F m AY j)) (mDX F m AZ k)
  | S1 => mvol F m (i, j, k) = kmul F (kmul F (kdiv F (r3diff F m i) (kadd F (k1 F) (kadd F (k1 F) (k1 F)))) (kadd F (k1 F) (k1 F))) (kmul F (kadd F (k1 F) (k1 F)) (mpi F m))
  | S3 => mvol F m (i, j, k) = kmul F (kmul F (kdiv F (r3diff F m i) (kadd F (k1 F) (kadd F (k1 F) (k1 F)))) (kdiv F (kmul F (kadd F (k1 F) (k1 F)) (mDX F m AY j)) (mpi F m))) (mDX F m AZ k)
  end.
Proof. exact volume_forms. Qed.
Print Assumptions C10_volume_forms.
Theorem C10_radial_volume_sums : forall (F : FieldOps) (L : FieldLaws F) (m : Mesh F),
  sumn F (fun i => r2diff F m i) 1 (mN F m AX) = ksub F (kmul F (mrf F m (mN F m AX)) (mrf F m (mN F m AX))) (kmul F (mrf F m 0) (mrf F m 0)) /\
  sumn F (fun i => r3diff F m i) 1 (mN F m AX)
  = ksub F (kmul F (kmul F (mrf F m (mN F m AX)) (mrf F m (mN F m AX))) (mrf F m (mN F m AX))) (kmul F (kmul F (mrf F m 0) (mrf F m 0)) (mrf F m 0)).
Proof. exact radial_volume_sums. Qed.
Print Assumptions C10_radial_volume_sums.
Theorem C10_size_sums : forall (F : FieldOps) (L : FieldLaws F) (a : Axis F),
  sumn F (fun p => aDX F a p) 1 (aN F a) = ksub F (axf F a (aN F a)) (axf F a 0).
Proof. exact cartesian_size_sums. Qed.
Print Assumptions C10_size_sums.

Local Open Scope R_scope.
Theorem C10_volume_positive : forall (m : Mesh ROps) i j k,
  (forall a, increasing (max ROps m a)) -> 0 <= mrf ROps m 0 -> 0 < mpi ROps m ->
  (1 <= i <= mN ROps m AX)%nat -> (1 <= j <= mN ROps m AY)%nat -> (1 <= k <= mN ROps m AZ)%nat ->
  0 < mvol ROps m (i, j, k).
Proof. exact volume_positive. Qed.
Print Assumptions C10_volume_positive.
Theorem C10_S1_volume_is_geometric : forall r1 r2, 4 / 3 * PI * (r2 ^ 3 - r1 ^ 3) = shell_sector r1 r2 0 PI 0 (2 * PI).
Proof. exact S1_volume_is_geometric. Qed.
Print Assumptions C10_S1_volume_is_geometric.
(* the SphericalGrid3D cellvolume is not the geometric shell sector (known finding; pinned by the test-suite) *)
Theorem C10_S3_volume_refuted : exists r1 r2 t1 t2 p1 p2,
  0 <= r1 < r2 /\ (0 <= t1 < t2 /\ t2 <= PI) /\ (0 <= p1 < p2 /\ p2 <= 2 * PI) /\
  shell_sector_coded r1 r2 t1 t2 p1 p2 <> shell_sector r1 r2 t1 t2 p1 p2.
Proof. exact S3_volume_refuted. Qed.
Print Assumptions C10_S3_volume_refuted.
Local Close Scope R_scope.

(* coordinates and vector components are reachable only under the labels of the grid's coordinate system
   (tables regenerated from face.py / mesh.py on every run) *)
Theorem C10_labels : forall g l, In l all_labels ->
  face_get l g = expected l g /\ face_set l g = expected l g /\ cellprop_get l g = expected l g.
Proof. exact labels_ok. Qed.
Print Assumptions C10_labels.
Theorem C10_coordlabels : forall g, map fst (nth (class_index g) coord_table nil) = coord_system g.
Proof. exact coord_tables_ok. Qed.
Print Assumptions C10_coordlabels.
