(* every named limiter (and every unknown name): the binary64 evaluation is a finite float for every float |r| <= 2^500 and every finite guard
   0 < eps <= 1 *)
From Coq Require Import ZArith Reals Lra Lia Bool Floats String List.
From PFV Require Import OField KOps F64Ops FloatThy Limiters LimiterThy FloatLimThy FloatLim2Thy FloatLim3Thy FloatLim4Thy.
Import ListNotations.
Local Open Scope R_scope.

Theorem float_all_dispatch name eps r : fin 0 eps -> 0 < FR eps -> fin 500 r -> ffin (FL_dispatch FOps name eps r).
Proof.
  intros He Hp Hr.
  destruct (in_dec string_dec name FL_names) as [Hin|Hout].
  - simpl in Hin.
    repeat (destruct Hin as [Hn|Hin]; [subst name; first
      [ exact (float_CHARM eps r He Hp Hr) | exact (float_HCUS eps r He Hp Hr) | exact (float_HQUICK eps r He Hp Hr)
      | exact (float_ospre eps r He Hr)
      | exact (proj1 (float_VanLeer eps r Hr)) | exact (proj1 (float_VanAlbada1 eps r Hr)) | exact (proj1 (float_VanAlbada2 eps r Hr))
      | exact (proj1 (float_MinMod eps r Hr)) | exact (proj1 (float_SUPERBEE eps r Hr)) | exact (proj1 (float_Osher eps r Hr))
      | exact (proj1 (float_Sweby eps r Hr)) | exact (proj1 (float_smart eps r Hr)) | exact (proj1 (float_Koren eps r Hr))
      | exact (proj1 (float_MUSCL eps r Hr)) | exact (proj1 (float_QUICK eps r Hr)) | exact (proj1 (float_UMIST eps r Hr)) ]|]).
    contradiction.
  - exact (proj1 (float_unknown_name name eps r Hout Hr)).
Qed.
