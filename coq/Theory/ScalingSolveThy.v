(* C17, solution level: if x solves the system assembled from (mesh m, boundary conditions bc, term list ts), then K*x solves
   the system assembled from the rescaled data (faces of length-like axes times L; D -> L^2/T D, u -> L/T u, beta -> beta/T,
   gamma -> K/T gamma, dt -> T dt, alpha unchanged; a -> L a, b unchanged, c -> K c; previous values -> K old). *)
From Coq Require Import Arith List Bool Field Lia.
From PFV Require Import OField KOps Grid Ops Boundary Solver StencilThy ConservThy MeasureThy TermsThy SolverThy BoundaryThy ScalingThy.
Import ListNotations.

Section ScalingSolve.
Variable F : FieldOps.
Variable L : FieldLaws F.
Add Field FFss : (FL_field F L).
Local Notation K := (K F).
Local Notation "0" := (k0 F).
Local Notation "1" := (k1 F).
Local Infix "+" := (kadd F).
Local Infix "*" := (kmul F).
Local Infix "-" := (ksub F).
Local Infix "/" := (kdiv F).
Local Notation "- x" := (kopp F x).
Local Notation two := (kadd F (k1 F) (k1 F)).
Local Notation Mesh := (Mesh F).

Variable Lc Tc Kc : K.
Hypothesis HL : Lc <> 0.
Hypothesis HT : Tc <> 0.
Variable m : Mesh.
Let m' := scale_mesh F Lc m.
Hypothesis Hok : stencil_ok F m.
Hypothesis Hfac : forall c, interior F m c = true -> fac_ok F m c.

Definition scale_term (t : term F) : term F :=
  match t with
  | TDiff _ s D => TDiff F s (scaleD F Lc Tc D)
  | TCen _ s u => TCen F s (scaleU F Lc Tc u)
  | TUpw _ s u uup => TUpw F s (scaleU F Lc Tc u) uup
  | TLin _ s beta => TLin F s (fun c => beta c / Tc)
  | TConst _ s g => TConst F s (fun c => Kc / Tc * g c)
  | TVec _ s v => TVec F s (fun c => Kc / Tc * v c)
  | TTrans _ alpha dt old => TTrans F alpha (Tc * dt) (fun c => Kc * old c)
  end.
Definition scale_field (x : cvar F) : cvar F := fun c => Kc * x c.

Lemma mcls_scale : mcls F m' = mcls F m. Proof. reflexivity. Qed.
Lemma interior_scale c : interior F m' c = interior F m c.
Proof.
  unfold interior. rewrite mcls_scale. induction (axes_of (mcls F m)) as [|a l IH]; cbn [forallb]; [reflexivity|].
  rewrite IH. unfold m'. rewrite mN_scale. reflexivity.
Qed.
Lemma cellno_scale c : cellno F m' c = cellno F m c.
Proof. unfold cellno. rewrite mcls_scale. unfold m'. rewrite !mN_scale. reflexivity. Qed.
Lemma cell_of_no_scale r : cell_of_no F m' r = cell_of_no F m r.
Proof. unfold cell_of_no. rewrite mcls_scale. unfold m'. rewrite !mN_scale. reflexivity. Qed.

(* a stencil whose three coefficients are divided by T, applied to K*x *)
Lemma apply_stencil_scaled (AW AP AE AW' AP' AE' : axis -> cell -> K) (x : cvar F) c :
  (forall a, In a (active_axes F m) -> AW' a c = AW a c / Tc /\ AP' a c = AP a c / Tc /\ AE' a c = AE a c / Tc) ->
  apply_stencil F m' AW' AP' AE' (scale_field x) c = Kc / Tc * apply_stencil F m AW AP AE x c.
Proof.
  intros H. unfold apply_stencil, sum_axes. rewrite mcls_scale. fold (active_axes F m) in *.
  induction (active_axes F m) as [|a l IH]; cbn [map ksum fold_right].
  - field. exact HT.
  - unfold ksum in IH. rewrite IH by (intros b Hb; apply H; right; exact Hb).
    destruct (H a (or_introl eq_refl)) as (E1 & E2 & E3).
    unfold apply_axis, scale_field. rewrite E1, E2, E3. field. exact HT.
Qed.

Lemma dxf_ok a c : In a (active_axes F m) -> interior F m c = true ->
  mdxf F m a (cidx a c) <> 0 /\ mdxf F m a (pred (cidx a c)) <> 0.
Proof.
  intros Ha Hc. pose proof (interior_axis F m c a Hc Ha) as Hi. pose proof (axes_active F m a Ha) as Hact.
  split; apply dxf_neq_0; try exact L.
  - apply (so_dxf F m Hok); [assumption|lia].
  - apply (so_dxf F m Hok); [assumption|lia].
Qed.

Theorem term_lhs_scale (t : term F) (x : cvar F) c : interior F m c = true ->
  (match t with TTrans _ _ dt _ => dt <> 0 | _ => True end) ->
  term_lhs F m' (scale_term t) (scale_field x) c = Kc / Tc * term_lhs F m t x c.
Proof.
  intros Hc Hdt. pose proof (Hfac c Hc) as Hf.
  destruct t as [s D|s u|s u uup|s beta|s g|s v|alpha dt old]; cbn [scale_term term_lhs].
  - rewrite (apply_stencil_scaled (diffAW F m D) (diffAP F m D) (diffAE F m D)); [ring|].
    intros a Ha. pose proof (interior_axis F m c a Hc Ha) as Hi. pose proof (axes_active F m a Ha) as Hact.
    destruct (dxf_ok a c Ha Hc) as [Hd1 Hd0]. pose proof (so_W F m Hok a _ Hact Hi) as HW.
    assert (E1 := diffAE_scale F L Lc Tc HL HT m D a c Hf HW Hd1).
    assert (E0 := diffAW_scale F L Lc Tc HL HT m D a c Hf HW Hd0).
    fold m' in E1, E0. repeat split; try assumption.
    unfold diffAP. rewrite E1, E0. field. exact HT.
  - rewrite (apply_stencil_scaled (cenAW F m u) (cenAP F m u) (cenAE F m u)); [ring|].
    intros a Ha. pose proof (interior_axis F m c a Hc Ha) as Hi. pose proof (axes_active F m a Ha) as Hact.
    pose proof (so_W F m Hok a _ Hact Hi) as HW. pose proof (so_DX F m Hok a _ Hact Hi) as HDX.
    assert (He : mDX F m a (cidx a c) + mDX F m a (S (cidx a c)) <> 0) by (apply (so_dxf F m Hok); [assumption|lia]).
    assert (Hw : mDX F m a (cidx a c) + mDX F m a (pred (cidx a c)) <> 0).
    { pose proof (so_dxf F m Hok a (pred (cidx a c)) Hact ltac:(lia)) as H.
      replace (S (pred (cidx a c))) with (cidx a c) in H by lia. intro E. apply H. rewrite <- E. ring. }
    assert (E1 := cenE_scale F L Lc Tc HL HT m u a c Hf HW He).
    assert (E0 := cenW_scale F L Lc Tc HL HT m u a c Hf HW Hw).
    fold m' in E1, E0. unfold cenAW, cenAE, cenAP. rewrite E1, E0.
    unfold m'. rewrite !(mDX_scale F L). fold m'.
    assert (Hlam : lam F Lc (mcls F m) a <> 0).
    { rewrite (lam_phi F L Lc (mcls F m) a HL). apply (mul_neq_0 F L); [exact HL|apply (nz_phi F L Lc HL m a)]. }
    repeat split; field; auto.
  - rewrite (apply_stencil_scaled (upwAW F m u uup) (upwAP F m u uup) (upwAE F m u uup)); [ring|].
    intros a Ha. pose proof (interior_axis F m c a Hc Ha) as Hi. pose proof (axes_active F m a Ha) as Hact.
    pose proof (so_W F m Hok a _ Hact Hi) as HW.
    assert (E1 := upwAE_scale F L Lc Tc HL HT m u uup a c Hf HW).
    assert (E0 := upwAW_scale F L Lc Tc HL HT m u uup a c Hf HW).
    assert (E2 := upwAP_scale F L Lc Tc HL HT m u uup a c Hf HW).
    fold m' in E1, E0, E2. repeat split; assumption.
  - unfold scale_field. field. exact HT.
  - field. exact HT.
  - field. exact HT.
  - unfold scale_field. field. auto.
Qed.

Theorem term_rhs_scale (t : term F) c :
  (match t with TTrans _ _ dt _ => dt <> 0 | _ => True end) ->
  term_rhs F m' (scale_term t) c = Kc / Tc * term_rhs F m t c.
Proof.
  intros Hdt. destruct t as [s D|s u|s u uup|s beta|s g|s v|alpha dt old]; cbn [scale_term term_rhs]; field; auto.
Qed.

Definition dts_ok (ts : list (term F)) : Prop :=
  Forall (fun t => match t with TTrans _ _ dt _ => dt <> 0 | _ => True end) ts.

Theorem interior_rows_scale (ts : list (term F)) (x : cvar F) c : interior F m c = true -> dts_ok ts ->
  sys_lhs F m ts x c = sys_rhs F m ts c ->
  sys_lhs F m' (map scale_term ts) (scale_field x) c = sys_rhs F m' (map scale_term ts) c.
Proof.
  intros Hc Hd E. unfold sys_lhs, sys_rhs in *. rewrite !map_map.
  assert (E1 : ksum F (map (fun t => term_lhs F m' (scale_term t) (scale_field x) c) ts)
               = Kc / Tc * ksum F (map (fun t => term_lhs F m t x c) ts)).
  { clear E. induction ts as [|t l IH]; cbn [map ksum fold_right]; [field; exact HT|].
    inversion Hd as [|? ? Ht Hl]; subst. unfold ksum in IH. rewrite (IH Hl), (term_lhs_scale t x c Hc Ht). ring. }
  assert (E2 : ksum F (map (fun t => term_rhs F m' (scale_term t) c) ts)
               = Kc / Tc * ksum F (map (fun t => term_rhs F m t c) ts)).
  { clear E E1. induction ts as [|t l IH]; cbn [map ksum fold_right]; [field; exact HT|].
    inversion Hd as [|? ? Ht Hl]; subst. unfold ksum in IH. rewrite (IH Hl), (term_rhs_scale t c Ht). ring. }
  rewrite E1, E2, E. reflexivity.
Qed.

(* ---------------- boundary rows ---------------- *)
Variable bc : BCs F.
Let bc' := scale_bcs F Lc Kc bc.
(* what is needed of the boundary data: ghost sizes non-zero, metric factor of the inner neighbour defined, corner rows regular *)
Record bc_ok : Prop := {
  bo_DX : forall a, active F m a = true -> mDX F m a 0 <> 0 /\ mDX F m a (S (mN F m a)) <> 0;
  bo_fac : forall a hi g, ghost_axis F m g = Some (a, hi) -> fac_ok F m (if hi then cdn a g else cup a g);
  bo_corner : corner_diag F m bc <> 0
}.
Hypothesis Hbc : bc_ok.

Lemma ghost_axis_scale g : ghost_axis F m' g = ghost_axis F m g.
Proof.
  unfold ghost_axis, nghost, on_hi. rewrite mcls_scale.
  assert (E : forall l, filter (fun a => on_lo a g || Nat.eqb (cidx a g) (S (mN F m' a))) l
                        = filter (fun a => on_lo a g || Nat.eqb (cidx a g) (S (mN F m a))) l).
  { intros l. apply filter_ext. intros a. unfold m'. rewrite mN_scale. reflexivity. }
  rewrite E. destruct (Nat.eqb _ 1); [|reflexivity].
  destruct (filter _ _) as [|a l]; [reflexivity|]. unfold m'. rewrite mN_scale. reflexivity.
Qed.

Lemma ghost_axis_active g a hi : ghost_axis F m g = Some (a, hi) -> active F m a = true /\ cidx a g = (if hi then S (mN F m a) else 0%nat).
Proof.
  unfold ghost_axis. destruct (Nat.eqb (nghost F m g) 1); [|discriminate].
  destruct (filter (fun a0 => on_lo a0 g || on_hi F m a0 g) (axes_of (mcls F m))) as [|a0 l] eqn:Ef; [discriminate|].
  intros E. injection E as <- <-.
  assert (Hin : In a0 (filter (fun a1 => on_lo a1 g || on_hi F m a1 g) (axes_of (mcls F m)))) by (rewrite Ef; left; reflexivity).
  apply filter_In in Hin. destruct Hin as [Hin Hb]. split.
  - apply (axes_active F m a0 Hin).
  - unfold on_lo, on_hi in *. destruct (Nat.eqb (cidx a0 g) (S (mN F m a0))) eqn:E1.
    + apply Nat.eqb_eq in E1. exact E1.
    + rewrite orb_false_r in Hb. apply Nat.eqb_eq in Hb. exact Hb.
Qed.

Theorem boundary_rows_scale (x : cvar F) g : interior F m g = false ->
  bc_lhs F m bc x g = bc_rhs F m bc g ->
  bc_lhs F m' bc' (scale_field x) g = bc_rhs F m' bc' g.
Proof.
  intros Hg E. unfold bc_lhs, bc_rhs, bc_row in *. rewrite interior_scale, ghost_axis_scale. rewrite Hg in *.
  destruct (ghost_axis F m g) as [[a hi]|] eqn:Ega.
  - destruct (ghost_axis_active g a hi Ega) as [Hact Hidx].
    destruct (bo_DX Hbc a Hact) as [HD0 HDN].
    pose proof (bo_fac Hbc a hi g Ega) as Hf.
    change (bper F bc' a) with (bper F bc a).
    assert (HDg : mDX F m a (cidx a g) <> 0) by (rewrite Hidx; destruct hi; assumption).
    pose proof (aoh_scale F L Lc HL m Kc bc a hi g Hf HDg) as Eaoh. fold m' bc' in Eaoh.
    destruct (bper F bc a).
    + (* periodic rows: entries 1, -1, r, -r with r unchanged *)
      unfold m'. rewrite !mN_scale, !(mDX_scale F L). fold m'.
      assert (Hlam : lam F Lc (mcls F m) a <> 0).
      { rewrite (lam_phi F L Lc (mcls F m) a HL). apply (mul_neq_0 F L); [exact HL|apply (nz_phi F L Lc HL m a)]. }
      destruct hi; unfold row_apply in *; cbn [fold_right fst snd] in *; rewrite ?cellno_scale, ?cell_of_no_scale; unfold scale_field.
      * transitivity (Kc * (1 * x (cell_of_no F m (cellno F m g)) + (- (1) * x (cell_of_no F m (cellno F m (cdn a g)))
                           + (mDX F m a (S (mN F m a)) / mDX F m a 0 * x (cell_of_no F m (cellno F m (cset a g 0)))
                              + (- (mDX F m a (S (mN F m a)) / mDX F m a 0) * x (cell_of_no F m (cellno F m (cset a g 1))) + 0))))).
        { field. auto. }
        rewrite E. ring.
      * transitivity (Kc * (1 * x (cell_of_no F m (cellno F m g)) + (1 * x (cell_of_no F m (cellno F m (cup a g)))
                           + (- (1) * x (cell_of_no F m (cellno F m (cset a g (mN F m a))))
                              + (- (1) * x (cell_of_no F m (cellno F m (cset a g (S (mN F m a))))) + 0))))).
        { ring. }
        rewrite E. ring.
    + destruct hi; unfold row_apply in *; cbn [fold_right fst snd] in *; rewrite ?cellno_scale, ?cell_of_no_scale, Eaoh; unfold scale_field;
        change (bcb F bc' a ?h g) with (bcb F bc a h g).
      * change (bcb F bc' a true g) with (bcb F bc a true g). change (bcc F bc' a true g) with (Kc * bcc F bc a true g).
        rewrite <- E. ring.
      * change (bcb F bc' a false g) with (bcb F bc a false g). change (bcc F bc' a false g) with (Kc * bcc F bc a false g).
        transitivity (Kc * (- bcc F bc a false g)); [rewrite <- E; ring|ring].
  - (* corner / edge cells: kappa * x = 0 with kappa <> 0 forces x = 0 *)
    unfold row_apply in *. cbn [fold_right fst snd] in *. rewrite cellno_scale, cell_of_no_scale. unfold scale_field.
    assert (Hx : x (cell_of_no F m (cellno F m g)) = 0).
    { pose proof (bo_corner Hbc) as Hk.
      transitivity ((corner_diag F m bc * x (cell_of_no F m (cellno F m g)) + 0) / corner_diag F m bc); [field; exact Hk|].
      rewrite E. field. exact Hk. }
    rewrite Hx. ring.
Qed.

(* the whole system *)
Theorem solution_scales (ts : list (term F)) (x : cvar F) : dts_ok ts ->
  is_solution F m bc ts x -> is_solution F m' bc' (map scale_term ts) (scale_field x).
Proof.
  intros Hd [H1 H2]. split.
  - intros c Hc. rewrite interior_scale in Hc. apply interior_rows_scale; [exact Hc|exact Hd|apply H1; exact Hc].
  - intros g Hg Hr. rewrite interior_scale in Hg. apply boundary_rows_scale; [exact Hg|].
    apply H2; [exact Hg|]. intros a Ha. specialize (Hr a). unfold active in *. rewrite mcls_scale in Hr.
    unfold m' in Hr. rewrite mN_scale in Hr. apply Hr. exact Ha.
Qed.
End ScalingSolve.
