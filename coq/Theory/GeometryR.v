(* C10 over the reals: true geometric volumes (cos, PI), positivity, and the SphericalGrid3D finding. *)
From Coq Require Import Reals Lra Psatz List.
From PFV Require Import OField KOps Grid.
Local Open Scope R_scope.

(* volume of the spherical shell sector [r1,r2] x [t1,t2] x [p1,p2] *)
Definition shell_sector (r1 r2 t1 t2 p1 p2 : R) : R := (r2 ^ 3 - r1 ^ 3) / 3 * (cos t1 - cos t2) * (p2 - p1).
(* what mesh.SphericalGrid3D._getCellVolumes computes for the same cell *)
Definition shell_sector_coded (r1 r2 t1 t2 p1 p2 : R) : R :=
  4 / 3 * PI * (r2 ^ 3 - r1 ^ 3) * ((t2 - t1) / PI) * ((p2 - p1) / (2 * PI)).

(* the coded SphericalGrid1D volume IS the full shell: theta in [0,PI], phi in [0,2PI] *)
Theorem S1_volume_is_geometric r1 r2 : 4 / 3 * PI * (r2 ^ 3 - r1 ^ 3) = shell_sector r1 r2 0 PI 0 (2 * PI).
Proof. unfold shell_sector. rewrite cos_0, cos_PI. field. Qed.

(* the coded SphericalGrid3D volume is NOT the geometric one (test_spherical_grid_3d_slice_uneven pins the
   coded total, so this is a known finding): r in [0,1], theta in [0,PI/3], phi in [0,2PI] *)
Theorem S3_volume_refuted : exists r1 r2 t1 t2 p1 p2,
  0 <= r1 < r2 /\ (0 <= t1 < t2 /\ t2 <= PI) /\ (0 <= p1 < p2 /\ p2 <= 2 * PI) /\
  shell_sector_coded r1 r2 t1 t2 p1 p2 <> shell_sector r1 r2 t1 t2 p1 p2.
Proof.
  exists 0, 1, 0, (PI / 3), 0, (2 * PI).
  pose proof PI_RGT_0 as Hpi.
  repeat split; try lra.
  unfold shell_sector_coded, shell_sector. rewrite cos_0, cos_PI3.
  intro H.
  assert (E1 : 4 / 3 * PI * (1 ^ 3 - 0 ^ 3) * ((PI / 3 - 0) / PI) * ((2 * PI - 0) / (2 * PI)) = 4 * PI / 9) by (field; lra).
  assert (E2 : (1 ^ 3 - 0 ^ 3) / 3 * (1 - 1 / 2) * (2 * PI - 0) = PI / 3) by field.
  rewrite E1, E2 in H. lra.
Qed.
(* they agree exactly when cos t1 - cos t2 = 2 (t2 - t1) / PI, e.g. for the full range [0, PI] *)
Theorem S3_volume_agrees_on_full_theta r1 r2 p1 p2 :
  shell_sector_coded r1 r2 0 PI p1 p2 = shell_sector r1 r2 0 PI p1 p2.
Proof. unfold shell_sector_coded, shell_sector. rewrite cos_0, cos_PI. pose proof PI_RGT_0. field. lra. Qed.

(* positivity of the coded volumes for strictly increasing faces with r >= 0 (R instance of Model/Grid) *)
Lemma r2diff_pos r1 r2 : 0 <= r1 < r2 -> 0 < r2 * r2 - r1 * r1.
Proof. intros H. nra. Qed.
Lemma r3diff_pos r1 r2 : 0 <= r1 < r2 -> 0 < r2 * r2 * r2 - r1 * r1 * r1.
Proof.
  intros [H1 H2].
  assert (E : r2 * r2 * r2 - r1 * r1 * r1 = (r2 - r1) * (r2 * r2 + r2 * r1 + r1 * r1)) by ring.
  rewrite E. apply Rmult_lt_0_compat; nra.
Qed.

Definition increasing (a : Axis ROps) : Prop := forall p, (p < aN ROps a)%nat -> axf ROps a p < axf ROps a (S p).
Lemma interior_size_pos (a : Axis ROps) p : increasing a -> (1 <= p <= aN ROps a)%nat -> 0 < aDX ROps a p.
Proof.
  intros Hinc [H1 H2]. unfold aDX.
  assert (E0 : Nat.eqb p 0 = false) by (apply PeanoNat.Nat.eqb_neq; lia).
  assert (E1 : Nat.ltb (aN ROps a) p = false) by (apply PeanoNat.Nat.ltb_ge; exact H2).
  rewrite E0, E1. cbn [ksub ROps K].
  specialize (Hinc (pred p)). replace (S (pred p)) with p in Hinc by lia.
  assert (pred p < aN ROps a)%nat by lia. specialize (Hinc H). lra.
Qed.

Theorem volume_positive (m : Mesh ROps) i j k :
  (forall a, increasing (max ROps m a)) -> 0 <= mrf ROps m 0 -> 0 < mpi ROps m ->
  (1 <= i <= mN ROps m AX)%nat -> (1 <= j <= mN ROps m AY)%nat -> (1 <= k <= mN ROps m AZ)%nat ->
  0 < mvol ROps m (i, j, k).
Proof.
  intros Hinc Hr0 Hpi Hi Hj Hk.
  pose proof (interior_size_pos (max ROps m AX) i (Hinc AX) Hi) as HX.
  pose proof (interior_size_pos (max ROps m AY) j (Hinc AY) Hj) as HY.
  pose proof (interior_size_pos (max ROps m AZ) k (Hinc AZ) Hk) as HZ.
  fold (mDX ROps m AX i) in HX. fold (mDX ROps m AY j) in HY. fold (mDX ROps m AZ k) in HZ.
  (* faces are non-negative and increasing, so r_(i-1) >= 0 and r_(i-1) < r_i *)
  assert (Hmono : forall p, (p <= mN ROps m AX)%nat -> 0 <= mrf ROps m p).
  { induction p as [|p IH]; intros Hp; [exact Hr0|].
    assert (Hlt := Hinc AX p ltac:(unfold mN in Hp; lia)). unfold mrf in *. specialize (IH ltac:(lia)). lra. }
  assert (Hr1 : 0 <= mrf ROps m (pred i)) by (apply Hmono; lia).
  assert (Hr12 : mrf ROps m (pred i) < mrf ROps m i).
  { pose proof (Hinc AX (pred i)) as H. replace (S (pred i)) with i in H by lia. apply H. unfold mN in Hi. lia. }
  pose proof (r2diff_pos _ _ (conj Hr1 Hr12)) as H2. pose proof (r3diff_pos _ _ (conj Hr1 Hr12)) as H3.
  unfold mvol, r2diff, r3diff, four. cbn [kadd kmul ksub kdiv k0 k1 ROps K].
  destruct (mcls ROps m).
  all: repeat first [ apply Rmult_lt_0_compat | apply Rdiv_lt_0_compat | apply Rinv_0_lt_compat | assumption | lra ].
Qed.
