(* Finite sums over index ranges in an arbitrary field; telescoping; exchange of summation order. *)
From Coq Require Import Arith Field Lia.
From PFV Require Import OField.

Section Sums.
Variable F : FieldOps.
Variable L : FieldLaws F.
Add Field FFs : (FL_field F L).
Local Notation K := (K F).
Local Notation "0" := (k0 F).
Local Infix "+" := (kadd F).
Local Infix "*" := (kmul F).
Local Infix "-" := (ksub F).

(* sumn f a n = f a + f (a+1) + ... + f (a+n-1) *)
Fixpoint sumn (f : nat -> K) (a n : nat) : K :=
  match n with O => 0 | S n' => f a + sumn f (S a) n' end.

Lemma sumn_ext f g a n : (forall p, a <= p < a + n -> f p = g p) -> sumn f a n = sumn g a n.
Proof.
  revert a. induction n as [|n IH]; intros a H; cbn [sumn]; [reflexivity|].
  rewrite (H a) by lia. rewrite (IH (S a)); [reflexivity|]. intros p Hp. apply H. lia.
Qed.
Lemma sumn_zero a n : sumn (fun _ => 0) a n = 0.
Proof. revert a. induction n as [|n IH]; intros a; cbn [sumn]; [reflexivity|]. rewrite IH. ring. Qed.
Lemma sumn_add f g a n : sumn (fun p => f p + g p) a n = sumn f a n + sumn g a n.
Proof. revert a. induction n as [|n IH]; intros a; cbn [sumn]; [ring|]. rewrite IH. ring. Qed.
Lemma sumn_sub f g a n : sumn (fun p => f p - g p) a n = sumn f a n - sumn g a n.
Proof. revert a. induction n as [|n IH]; intros a; cbn [sumn]; [ring|]. rewrite IH. ring. Qed.
Lemma sumn_scal k f a n : sumn (fun p => k * f p) a n = k * sumn f a n.
Proof. revert a. induction n as [|n IH]; intros a; cbn [sumn]; [ring|]. rewrite IH. ring. Qed.
Lemma sumn_snoc f a n : sumn f a (S n) = sumn f a n + f (a + n)%nat.
Proof.
  revert a. induction n as [|n IH]; intros a.
  - cbn [sumn]. rewrite Nat.add_0_r. ring.
  - cbn [sumn] in *. rewrite IH. replace (S a + n)%nat with (a + S n)%nat by lia. ring.
Qed.
(* telescoping: the interior contributions cancel exactly *)
Lemma sumn_telescope g a n : sumn (fun p => g (S p) - g p) a n = g (a + n)%nat - g a.
Proof.
  revert a. induction n as [|n IH]; intros a; cbn [sumn].
  - rewrite Nat.add_0_r. ring.
  - rewrite IH. replace (S a + n)%nat with (a + S n)%nat by lia. ring.
Qed.
Lemma sumn_swap (f : nat -> nat -> K) a n b m :
  sumn (fun i => sumn (fun j => f i j) b m) a n = sumn (fun j => sumn (fun i => f i j) a n) b m.
Proof.
  revert a. induction n as [|n IH]; intros a; cbn [sumn].
  - rewrite sumn_zero. reflexivity.
  - rewrite IH. rewrite <- sumn_add. reflexivity.
Qed.
Lemma sumn_one f a : sumn f a 1 = f a.
Proof. cbn [sumn]. ring. Qed.
End Sums.
