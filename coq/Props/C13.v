(* C13 — Flux limiters compute the published formulas, are total and within TVD bounds.
   The definitions FL_dispatch / FL_dens_dispatch / fsign are GENERATED from /repo on every run
   (Gen/Limiters.v); the closed forms sp_table are hand-written in Spec/LimiterSpec.v. *)
From Coq Require Import Reals String List.
From PFV Require Import OField KOps Limiters LimiterSpec LimiterThy.
Local Open Scope R_scope.

(* every named limiter evaluates the published closed form, for every real r *)
Theorem C13_published : forall eps name sp, 0 < eps -> lookup name sp_table = Some sp ->
  forall r, FL_dispatch ROps name eps r = sp r.
Proof. exact published_dispatch. Qed.
Print Assumptions C13_published.

(* no division by zero anywhere: every denominator of the selected limiter is non-zero for every r *)
Theorem C13_total : forall eps name r, 0 < eps ->
  Forall (fun d => d <> 0) (FL_dens_dispatch ROps name eps r).
Proof. exact total_dispatch. Qed.
Print Assumptions C13_total.

Theorem C13_one : forall name sp, lookup name sp_table = Some sp -> sp 1 = 1.
Proof. exact one_table. Qed.
Print Assumptions C13_one.

Theorem C13_range : forall name sp r, lookup name sp_table = Some sp -> 0 < r ->
  0 <= sp r <= Rmin (2 * r) 4.
Proof. exact range_table. Qed.
Print Assumptions C13_range.

Theorem C13_clip_zero : forall name sp r, In name clipped -> lookup name sp_table = Some sp ->
  r <= 0 -> sp r = 0.
Proof. exact clip_table. Qed.
Print Assumptions C13_clip_zero.

(* the code knows exactly the 16 published names ... *)
Theorem C13_names : forall n, In n FL_names <-> lookup n sp_table <> None.
Proof. exact names_are_the_16. Qed.
Print Assumptions C13_names.

(* ... and every other name yields SUPERBEE (for every field of scalars) *)
Theorem C13_fallback : forall (F : FieldOps) name eps r,
  ~ In name FL_names -> FL_dispatch F name eps r = FL_SUPERBEE F eps r.
Proof. exact unknown_name_superbee. Qed.
Print Assumptions C13_fallback.

(* the divisor used for the gradient ratio in the TVD correction is never zero *)
Theorem C13_fsign_nonzero : forall eps1 x, 0 < eps1 -> fsign ROps eps1 x <> 0.
Proof. exact fsign_nonzero. Qed.
Print Assumptions C13_fsign_nonzero.

(* ... its magnitude is at least the threshold (tiny non-zero differences are clamped as well), it keeps the sign of its argument,
   and therefore every gradient ratio a / _fsign(x) is bounded by |a| / eps1: no overflow next to differences of order one *)
Theorem C13_fsign_lower_bound : forall eps1 x, 0 < eps1 -> eps1 <= Rabs (fsign ROps eps1 x).
Proof. exact fsign_lower_bound. Qed.
Print Assumptions C13_fsign_lower_bound.
Theorem C13_fsign_same_sign : forall eps1 x, 0 < eps1 -> 0 <= x * fsign ROps eps1 x.
Proof. exact fsign_same_sign. Qed.
Print Assumptions C13_fsign_same_sign.
Theorem C13_fsign_ratio_bounded : forall eps1 a x, 0 < eps1 -> Rabs (a / fsign ROps eps1 x) <= Rabs a / eps1.
Proof. exact fsign_ratio_bounded. Qed.
Print Assumptions C13_fsign_ratio_bounded.

(* non-vacuity: the hypotheses are met by the defaults the code uses *)
Example C13_defaults_positive : 0 < eps_default ROps /\ 0 < eps1_default ROps.
Proof.
  unfold eps_default, eps1_default. rewrite !kofQ_R. split; apply Rdiv_lt_0_compat; apply IZR_lt; reflexivity.
Qed.
Example C13_lookup_nonvacuous : lookup "Koren"%string sp_table = Some sp_Koren.
Proof. reflexivity. Qed.
