(* First-order CONVERGENCE of upwind advection-diffusion on uniform Cartesian grids of ANY dimension: constant d >= 0, a constant
   non-zero face velocity uc a per axis (either sign), cells where the upwind stencil has its interior form along every axis; the
   exact solution enters through its restrictions g c a to the grid lines (see ConvCartNDThy.v).
   max |x_c - e_c| <= sum_a (d max|g_a''''| h_a^2/12 + |uc a| max|g_a''| h_a/2) / k0. *)
From Coq Require Import Reals Lra Lia List.
From Coquelicot Require Import Coquelicot.
From PFV Require Import OField KOps Grid Ops ExactnessThy StencilThy ConservThy MaxPrincipleThy MaxPrincipleModel ComparisonThy TaylorThy Taylor1Thy ConvCartNDThy ConvUpwindThy.
Import ListNotations.
Local Open Scope R_scope.

Lemma rsuml_zero_in (P : axis -> R) (l : list axis) : (forall a, In a l -> P a = 0) -> rsuml P l = 0.
Proof.
  unfold rsuml. induction l as [|a l IH]; cbn [map fold_right]; intro H; [reflexivity|].
  rewrite IH by (intros b Hb; apply H; right; exact Hb). rewrite (H a) by (left; reflexivity). ring.
Qed.

Theorem convergence_upwind_cartesian_nD (m : Mesh ROps) (D u : fvar ROps) (kap x e : cvar ROps) (g : cell -> axis -> R -> R)
  (cells : list cell) (h uc M4 M2 : axis -> R) (d k0' : R) :
  cells <> [] ->
  (forall c a, In c cells -> In a (active_axes ROps m) -> (1 <= cidx a c <= mN ROps m a)%nat /\ signs_ok m D c a) ->
  (forall a c, u a c = uc a) -> (forall a, In a (active_axes ROps m) -> uc a <> 0) ->
  (forall a, In a (active_axes ROps m) -> 0 < h a) -> 0 <= d -> 0 < k0' -> (forall c, In c cells -> k0' <= kap c) ->
  (forall c a, In c cells -> In a (active_axes ROps m) ->
     is_lo a c = false /\ is_hi ROps m a c = false /\
     mdxf ROps m a (cidx a c) = h a /\ mdxf ROps m a (pred (cidx a c)) = h a /\ mfac ROps m a c = 1 /\
     mA ROps m a (cidx a c) = 1 /\ mA ROps m a (pred (cidx a c)) = 1 /\ mW ROps m a (cidx a c) = h a /\
     D a c = d /\ D a (cdn a c) = d) ->
  (forall c a t k, (k <= 4)%nat -> ex_derive_n (g c a) k t) ->
  (forall c a t, Rabs (Derive_n (g c a) 4 t) <= M4 a) -> (forall c a t, Rabs (Derive_n (g c a) 2 t) <= M2 a) ->
  (forall c a, In c cells -> In a (active_axes ROps m) ->
     e (cdn a c) = g c a (0 - h a) /\ e c = g c a 0 /\ e (cup a c) = g c a (0 + h a)) ->
  (* kap x - d Laplace_h x + sum_a uc_a Upwind_a x = kap e - d Laplace e + uc . grad e  in every cell of the range *)
  (forall c, In c cells ->
     Lrow m D u kap x c
     = kap c * e c - rsuml (fun a => d * Derive_n (g c a) 2 0 - uc a * Derive_n (g c a) 1 0) (active_axes ROps m)) ->
  (forall c a, In c cells -> In a (active_axes ROps m) ->
     nb_homog cells (fun c => x c - e c) c (cdn a c) /\ nb_homog cells (fun c => x c - e c) c (cup a c)) ->
  forall c, In c cells ->
    Rabs (x c - e c)
    <= rsuml (fun a => d * (M4 a * (h a * h a) / 12) + Rabs (uc a) * (M2 a * h a / 2)) (active_axes ROps m) / k0'.
Proof.
  intros Hne Hcells Hu Hu0 Hh Hd Hk Hkap Huni Sm HM4 HM2 Hg Hrow Hnb c Hc.
  set (s := fun c => kap c * e c - rsuml (fun a => d * Derive_n (g c a) 2 0 - uc a * Derive_n (g c a) 1 0) (active_axes ROps m)).
  set (T := rsuml (fun a => d * (M4 a * (h a * h a) / 12) + Rabs (uc a) * (M2 a * h a / 2)) (active_axes ROps m)).
  assert (Hdiv : forall c, In c cells -> rsuml (fun a => divrow ROps m u a c) (active_axes ROps m) = 0).
  { intros c0 Hc0. apply rsuml_zero_in. intros a Ha. destruct (Huni c0 a Hc0 Ha) as (_ & _ & _ & _ & Hf & HA1 & HA0 & HW & _).
    unfold divrow. rewrite !Hu, Hf, HA1, HA0, HW. cbn [kadd kmul ksub kdiv ROps k0 k1 K]. pose proof (Hh a Ha). field. lra. }
  assert (Htau : forall c0, In c0 cells -> Rabs (Lrow m D u kap e c0 - s c0) <= T).
  { intros c0 Hc0. unfold Lrow, s.
    replace (kap c0 * e c0 + rsuml (fun a => axis_term m D u e a c0) (active_axes ROps m)
             - (kap c0 * e c0 - rsuml (fun a => d * Derive_n (g c0 a) 2 0 - uc a * Derive_n (g c0 a) 1 0) (active_axes ROps m)))
      with (rsuml (fun a => axis_term m D u e a c0) (active_axes ROps m)
            + rsuml (fun a => d * Derive_n (g c0 a) 2 0 - uc a * Derive_n (g c0 a) 1 0) (active_axes ROps m)) by ring.
    unfold T. apply rsuml_err2. intros a Ha.
    destruct (Huni c0 a Hc0 Ha) as (Hlo & Hhi & E1 & E0 & Hf & HA1 & HA0 & HW & D1 & D0). destruct (Hg c0 a Hc0 Ha) as (X0 & X1 & X2).
    unfold axis_term.
    set (Df := apply_axis ROps (diffAW ROps m D) (diffAP ROps m D) (diffAE ROps m D) e a c0).
    set (Uf := apply_axis ROps (upwAW ROps m u u) (upwAP ROps m u u) (upwAE ROps m u u) e a c0).
    replace (- Df + Uf + (d * Derive_n (g c0 a) 2 0 - uc a * Derive_n (g c0 a) 1 0))
      with (- (Df - d * Derive_n (g c0 a) 2 0) + (Uf - uc a * Derive_n (g c0 a) 1 0)) by ring.
    eapply Rle_trans; [apply Rabs_triang|]. rewrite Rabs_Ropp. apply Rplus_le_compat.
    - rewrite <- (Rabs_pos_eq d Hd) at 2. unfold Df.
      apply (taylor_cartesian_axis (g c0 a) m a c0 (h a) 0 d (M4 a) D e (Sm c0 a) (Hh a Ha) (conj E1 E0) (conj D1 D0)); try assumption.
      + auto.
      + intros t _. apply HM4.
    - unfold Uf.
      apply (taylor_upwind_cartesian_axis (g c0 a) m a c0 (h a) 0 (uc a) (M2 a) u e); try assumption.
      + intros t k Hk2. apply Sm. lia.
      + apply Hh; exact Ha.
      + apply Hu0; exact Ha.
      + split; apply Hu.
      + auto.
      + intros t _. apply HM2. }
  assert (HT : 0 <= T) by (eapply Rle_trans; [apply Rabs_pos|apply (Htau c Hc)]).
  apply (error_bounded_by_truncation m D u cells Hne Hcells Hdiv kap s x e (fun c => Lrow m D u kap e c - s c) T k0'); try assumption.
  intros c0 _. ring.
Qed.

(* the hypotheses are satisfiable in two dimensions: 3 x 3 unit cells, the middle cell as the range, d = kap = 1, velocity (1, 1),
   the constant field 7 (both stencils reproduce constants), restrictions g c a t = 7 t^0 *)
Definition exR32 : Mesh ROps :=
  mkMesh ROps G2 (fun _ => mkAxis ROps 3 (fun p => match p with O => 0 | 1%nat => 1 | 2%nat => 2 | 3%nat => 3 | _ => 4 end)) PI (fun _ => 1) (fun _ => 1).
Example convergence_upwind_nD_hyps_satisfiable :
  let cells := [(2, 2, 0)%nat] in
  let e := fun _ : cell => 7 in
  cells <> [] /\
  (forall c a, In c cells -> In a (active_axes ROps exR32) -> (1 <= cidx a c <= mN ROps exR32 a)%nat /\ signs_ok exR32 exD c a) /\
  (forall a c, exu1 a c = (fun _ => 1) a) /\ (forall a, In a (active_axes ROps exR32) -> (fun _ : axis => 1) a <> 0) /\
  (forall a, In a (active_axes ROps exR32) -> 0 < 1) /\
  (forall c a, In c cells -> In a (active_axes ROps exR32) ->
     is_lo a c = false /\ is_hi ROps exR32 a c = false /\
     mdxf ROps exR32 a (cidx a c) = 1 /\ mdxf ROps exR32 a (pred (cidx a c)) = 1 /\ mfac ROps exR32 a c = 1 /\
     mA ROps exR32 a (cidx a c) = 1 /\ mA ROps exR32 a (pred (cidx a c)) = 1 /\ mW ROps exR32 a (cidx a c) = 1 /\
     exD a c = 1 /\ exD a (cdn a c) = 1) /\
  (forall c a t k, (k <= 4)%nat -> ex_derive_n (exg c a) k t) /\
  (forall c a t, Rabs (Derive_n (exg c a) 4 t) <= 0) /\ (forall c a t, Rabs (Derive_n (exg c a) 2 t) <= 0) /\
  (forall c a, In c cells -> In a (active_axes ROps exR32) ->
     e (cdn a c) = exg c a (0 - 1) /\ e c = exg c a 0 /\ e (cup a c) = exg c a (0 + 1)) /\
  (forall c, In c cells ->
     Lrow exR32 exD exu1 (fun _ => 1) e c
     = 1 * e c - rsuml (fun a => 1 * Derive_n (exg c a) 2 0 - 1 * Derive_n (exg c a) 1 0) (active_axes ROps exR32)) /\
  (forall c a, In c cells -> In a (active_axes ROps exR32) ->
     nb_homog cells (fun c => e c - e c) c (cdn a c) /\ nb_homog cells (fun c => e c - e c) c (cup a c)).
Proof.
  cbv zeta. split; [discriminate|].
  split. { intros c a [<-|[]] [<-|[<-|[]]]; (split; [cbn; lia|]); constructor; cbn; unfold exD; lra. }
  split; [reflexivity|]. split; [intros; lra|]. split; [intros; lra|].
  split. { intros c a [<-|[]] [<-|[<-|[]]]; cbn; unfold exD; repeat split; try reflexivity; lra. }
  split. { intros c a t k _. unfold exg. apply ex_derive_n_scal_l. apply ex_derive_n_pow. }
  split. { intros c a t. unfold exg. rewrite Derive_n_scal_l, Derive_n_pow_bigi by lia. rewrite Rmult_0_r, Rabs_R0. lra. }
  split. { intros c a t. unfold exg. rewrite Derive_n_scal_l, Derive_n_pow_bigi by lia. rewrite Rmult_0_r, Rabs_R0. lra. }
  split. { intros c a _ _. unfold exg. cbn. repeat split; lra. }
  split.
  { intros c [<-|[]]. unfold exg, active_axes. cbn [mcls exR32 axes_of gdim]. unfold rsuml. cbn [map fold_right].
    rewrite !Derive_n_scal_l, !Derive_n_pow_bigi by lia.
    unfold Lrow, active_axes. cbn [mcls exR32 axes_of gdim]. unfold rsuml, axis_term, apply_axis. cbn. rewrite !exu1_max, !exu1_min. unfold exD. field_simplify. lra. }
  intros c a _ _. split; right; right; exists 0; split; try lra; ring.
Qed.
