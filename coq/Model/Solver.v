(* Equation terms, assembly and the solution relation of pdesolver.solvePDE, and the explicit step.
   The sparse direct solver is NOT modelled: is_solution is a relation, and every solve-level theorem
   speaks about every solution of the assembled system. *)
From Coq Require Import Arith List Bool.
From PFV Require Import OField KOps Grid Ops Boundary.
Import ListNotations.

Section Solver.
Variable F : FieldOps.
Local Notation K := (K F).
Local Notation "0" := (k0 F).
Local Notation "1" := (k1 F).
Local Infix "+" := (kadd F).
Local Infix "*" := (kmul F).
Local Infix "-" := (ksub F).
Local Infix "/" := (kdiv F).
Local Notation Mesh := (Mesh F).

(* one element of the eqnterms list; s is the scalar factor the user applied (e.g. -1 for "-diffusionTerm(D)") *)
Inductive term :=
| TDiff (s : K) (D : fvar F)                       (* s * diffusionTerm(D)            : matrix *)
| TCen (s : K) (u : fvar F)                        (* s * convectionTerm(u)           : matrix *)
| TUpw (s : K) (u uup : fvar F)                    (* s * convectionUpwindTerm(u[,uup]): matrix *)
| TLin (s : K) (beta : cvar F)                     (* s * linearSourceTerm(beta)      : matrix *)
| TConst (s : K) (gamma : cvar F)                  (* s * constantSourceTerm(gamma)   : vector *)
| TVec (s : K) (v : cvar F)                        (* s * any right-hand-side vector (TVD correction, divergenceTerm) *)
| TTrans (alpha : cvar F) (dt : K) (old : cvar F). (* transientTerm(old, dt, alpha)   : (matrix, vector) pair *)

(* (M_t x)(c) for an interior cell c *)
Definition term_lhs (m : Mesh) (t : term) (x : cvar F) (c : cell) : K :=
  match t with
  | TDiff s D => s * apply_stencil F m (diffAW F m D) (diffAP F m D) (diffAE F m D) x c
  | TCen s u => s * apply_stencil F m (cenAW F m u) (cenAP F m u) (cenAE F m u) x c
  | TUpw s u uup => s * apply_stencil F m (upwAW F m u uup) (upwAP F m u uup) (upwAE F m u uup) x c
  | TLin s beta => s * (beta c * x c)
  | TConst _ _ => 0
  | TVec _ _ => 0
  | TTrans alpha dt _ => alpha c / dt * x c
  end.
Definition term_rhs (m : Mesh) (t : term) (c : cell) : K :=
  match t with
  | TConst s gamma => s * gamma c
  | TVec s v => s * v c
  | TTrans alpha dt old => alpha c * old c / dt
  | _ => 0
  end.
Definition sys_lhs (m : Mesh) (ts : list term) (x : cvar F) (c : cell) : K :=
  ksum F (map (fun t => term_lhs m t x c) ts).
Definition sys_rhs (m : Mesh) (ts : list term) (c : cell) : K :=
  ksum F (map (fun t => term_rhs m t c) ts).

(* cells of the padded array *)
Definition in_range (m : Mesh) (c : cell) : Prop :=
  forall a, active F m a = true -> cidx a c <= S (mN F m a).
Definition bc_lhs (m : Mesh) (bc : BCs F) (x : cvar F) (g : cell) : K :=
  row_apply F m (bc_row F m bc g) (fun r => x (cell_of_no F m r)).

(* x solves the system solvePDE assembles: term rows on interior cells, boundary rows elsewhere *)
Definition is_solution (m : Mesh) (bc : BCs F) (ts : list term) (x : cvar F) : Prop :=
  (forall c, interior F m c = true -> sys_lhs m ts x c = sys_rhs m ts c) /\
  (forall g, interior F m g = false -> in_range m g -> bc_lhs m bc x g = bc_rhs F m bc g).

(* solveExplicitPDE: old + dt*RHS on interior cells, boundary values recomputed *)
Definition explicit_step (m : Mesh) (bc : BCs F) (old : cvar F) (dt : K) (rhs : cvar F) : cvar F :=
  with_boundaries F m bc (fun c => old c + dt * rhs c).
End Solver.
