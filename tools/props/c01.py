"""C01 - conservation of the domain integral."""
import traceback
import lib
from common import run_suites
import probes

SUITES = ["mesh", "diffusion", "conv_central", "conv_upwind", "tvd", "divergence", "gradient", "means"]
REL = lambda suite, b: suite != "means" or b.get("what") in ("linearMean", "upwindMean")


def run(ctx):
    import pyfvtool as pf
    ctx.rule = ("operator suites as for C05 + mesh suite (cell volumes); impl_probe: volume-weighted sums of every flux-form term for fields "
                "supported away from the boundary, closed-system solves (implicit, explicit, periodic / no-flux)")
    ctx.prove("C01")
    from suites import symsuite
    run_suites(ctx, ["symbolic"], runner=symsuite.run_suite, relevant=symsuite.relevant_for(['diffusion', 'central', 'divergence', 'upwind', 'tvd', 'tvdfsarg']))
    from suites import meshsuite
    run_suites(ctx, ["mesh"], runner=meshsuite.run_suite)
    run_suites(ctx, SUITES[1:], relevant=REL)
    from suites import bcsuite, solvesuite
    run_suites(ctx, ["bc_ghost", "bc_rows"], runner=bcsuite.run_suite)
    run_suites(ctx, ["solve", "explicit"], runner=solvesuite.run_suite)
    try:
        n = probes.probe_c01(ctx, pf) + probes.probe_c01_steps(ctx, pf)
        ctx.add_cases("impl_probe", n, [f"c01probe{i}" for i in range(min(n, 50))])
    except Exception:
        ctx.broke("correspondence", "impl_probe/harness", traceback.format_exc()[-1200:])


def replay(path):
    print(open(path).read()[:4000])
    return 0
