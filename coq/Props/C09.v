(* C09 — No stale state: any edit history followed by a solve equals a fresh start.
   Heap machine Model/State.v (flags, ghost cells, cached term, sharing), validated against the implementation
   by operation-history correspondence (suite `state`: bounded-exhaustive + random histories, 5 grid classes). *)
From Coq Require Import Arith List Bool.
From PFV Require Import State StateThy.

(* in EVERY heap (reachable or not, BoundaryConditions objects shared or not) the system a solve assembles uses the
   current content of the variable's boundary conditions ... *)
Theorem C09_solve_uses_current_bcs : forall h i, i < nv h -> wf h ->
  solve_bcver false h i = Some (b_ver (getb h (v_bc (getv h i)))).
Proof. exact solve_uses_current_bcs. Qed.
Print Assumptions C09_solve_uses_current_bcs.
(* ... which is what a freshly constructed variable on the same boundary conditions uses *)
Theorem C09_solve_equals_fresh_start : forall h i ver, i < nv h -> wf h ->
  solve_bcver false h i = solve_bcver false (step false h (NewShared (v_bc (getv h i)) ver)) (nv h).
Proof. exact solve_equals_fresh_start. Qed.
Print Assumptions C09_solve_equals_fresh_start.

(* ghost cells and cached terms are never stale while no dirty flag is set -- for every history in which each
   BoundaryConditions object belongs to one variable (any number of edits, solves, copies, arithmetic) *)
Theorem C09_never_stale : forall iv gv tv ops, ops_ok (init_with iv gv tv) ops = true ->
  Inv (run false (init_with iv gv tv) ops).
Proof. exact Inv_histories. Qed.
Print Assumptions C09_never_stale.
Theorem C09_step_preserves : forall h o, Inv h -> op_ok h o = true -> sharing_free o = true -> Inv (step false h o).
Proof. exact Inv_step. Qed.
Print Assumptions C09_step_preserves.

(* the code before the repair (term cached on the variable): refuted by two concrete histories *)
Theorem C09_cached_term_shared_refuted :
  let h := run true (init_with 1 2 2) (NewShared 0 5 :: EditBC 0 7 8 :: Solve 0 9 :: nil) in
  solve_bcver true h 1 = Some 2 /\ b_ver (getb h (v_bc (getv h 1))) = 8.
Proof. exact cached_term_shared_refuted. Qed.
Print Assumptions C09_cached_term_shared_refuted.
Theorem C09_cached_term_explicit_refuted :
  let h := run true (init_with 1 2 2) (SolveExplicit 0 5 :: nil) in solve_bcver true h 1 = None.
Proof. exact cached_term_explicit_refuted. Qed.
Print Assumptions C09_cached_term_explicit_refuted.
(* limit of the flag protocol with shared objects (ghost cells of the OTHER variable are outdated with clean flags);
   the next solve is unaffected *)
Theorem C09_shared_ghost_stale_but_solve_fresh :
  let h := run false (init_with 1 2 2) (NewShared 0 5 :: EditBC 0 7 8 :: Solve 0 9 :: nil) in
  v_dirty (getv h 1) = false /\ b_dirty (getb h (v_bc (getv h 1))) = false /\ ghost_fresh h 1 = false
  /\ solve_bcver false h 1 = Some 8.
Proof. exact shared_ghost_stale. Qed.
Print Assumptions C09_shared_ghost_stale_but_solve_fresh.
(* non-vacuity *)
Example C09_nonvacuous : ops_ok (init_with 1 2 2) (EditBC 0 3 4 :: Solve 0 5 :: Copy 0 :: EditVal 1 6 :: Arith 1 7 :: ApplyBCs 1 :: nil) = true.
Proof. vm_compute. reflexivity. Qed.

(* after the explicit solver the ghost cells of its input and of its result are up to date in EVERY heap, shared objects included *)
Theorem C09_explicit_refreshes_input : forall uc h i ver, i < nv h -> wf h ->
  ghost_fresh (step uc h (SolveExplicit i ver)) i = true /\ ghost_fresh (step uc h (SolveExplicit i ver)) (nv h) = true.
Proof. exact explicit_refreshes_input. Qed.
Print Assumptions C09_explicit_refreshes_input.
