(* C14 — Variable algebra is elementwise, side-effect free and yields independent objects.
   Storage-level model Model/Algebra.v (which arrays a result consists of, where contents come from, what is written);
   elementwise numerics are numpy's and are compared, together with the alias graph, by the algebra suite. *)
From Coq Require Import Arith List Bool String.
From PFV Require Import Algebra AlgebraThy Grid Dispatch DispatchThy.

(* no operator, reflected operator or funceval in an expression tree of ANY depth writes a pre-existing array *)
Theorem C14_operands_unchanged : forall fop ghost_of e s s' o l,
  expr_valid s e -> eval fop ghost_of s e = (s', o) -> l < List.length s -> content s' l = content s l.
Proof. exact operands_unchanged. Qed.
Print Assumptions C14_operands_unchanged.
(* the result of an operator application consists of arrays that did not exist before (value, ghosts, all BC arrays) *)
Theorem C14_result_fresh : forall fop ghost_of e s s' r,
  expr_valid s e -> eval fop ghost_of s e = (s', OVar r) -> is_application e = true -> var_fresh s r.
Proof. exact result_is_fresh. Qed.
Print Assumptions C14_result_fresh.
(* it carries (a deep copy of) the boundary conditions of the left-most variable operand *)
Theorem C14_result_bcs_from_leftmost : forall fop ghost_of e s s' r,
  expr_valid s e -> eval fop ghost_of s e = (s', OVar r) ->
  exists v, leftmost e = Some v /\ map (content s') (a_bcs r) = map (content s) (a_bcs v).
Proof. exact result_carries_leftmost_bcs. Qed.
Print Assumptions C14_result_bcs_from_leftmost.
(* one operator: interior = elementwise op, ghost cells recomputed from the copied boundary conditions *)
Theorem C14_binop : forall fop ghost_of code swap s v o s' r, binop fop ghost_of code swap s v o = (s', r) ->
  extends s s' /\ var_fresh s r /\ map (content s') (a_bcs r) = map (content s) (a_bcs v) /\
  content s' (a_val r) = ghost_of (if swap then fop code (operand_content s o) (content s (a_val v))
                                   else fop code (content s (a_val v)) (operand_content s o))
                                  (map (content s) (a_bcs v)) /\
  var_valid s' r.
Proof. exact binop_spec. Qed.
Print Assumptions C14_binop.
Theorem C14_copy : forall s v s' r, acopy s v = (s', r) ->
  extends s s' /\ var_fresh s r /\ content s' (a_val r) = content s (a_val v) /\ map (content s') (a_bcs r) = map (content s) (a_bcs v).
Proof. exact copy_spec. Qed.
Print Assumptions C14_copy.
(* operator table regenerated from cell.py / face.py: every operator has its reflected form *)
Theorem C14_scalar_either_side : ops_complete cell_dunders = true /\ ops_complete face_dunders = true.
Proof. exact operators_complete. Qed.
Print Assumptions C14_scalar_either_side.
