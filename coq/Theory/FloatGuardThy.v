(* Binary64: the zero guard _fsign returns a float of magnitude at least eps1 (exactly x, eps1 or -eps1: every operation in it is exact),
   so the gradient ratio a / _fsign(x) is a finite float for |a| <= 2^900. *)
From Coq Require Import ZArith Reals Lra Lia Bool Floats String List.
From Flocq Require Import Core.Core IEEE754.BinarySingleNaN.
From PFV Require Import OField KOps F64Ops FloatThy Limiters LimiterThy FloatLimThy FloatLim2Thy FloatLim3Thy.
Local Open Scope R_scope.
Local Instance prec_pos5 : Prec_gt_0 prec := eq_refl.
Local Instance fexp_valid5 : Valid_exp fexp := FLT_exp_valid emin prec.

(* f is a finite float denoting exactly v, |v| <= 2^1000 *)
Definition ex (f : PrimFloat.float) (v : R) : Prop := fin 1000 f /\ FR f = v.

Lemma ex_fmt f v : ex f v -> generic_format radix2 fexp v.
Proof. intros [_ E]. rewrite <- E. apply fmt_FR. Qed.

Lemma ex_add a b va vb : ex a va -> ex b vb -> generic_format radix2 fexp (va + vb) -> Rabs (va + vb) <= bpow radix2 1000 ->
  ex (PrimFloat.add a b) (va + vb).
Proof.
  intros [Ha Ea] [Hb Eb] G B. destruct (fin_add 1000 1000 a b Ha Hb eq_refl) as [[F _] R].
  assert (E : FR (PrimFloat.add a b) = va + vb) by (rewrite R, Ea, Eb; apply round_generic; [auto with typeclass_instances|exact G]).
  split; [split; [exact F|rewrite E; exact B]|exact E].
Qed.
Lemma ex_mul a b va vb : ex a va -> ex b vb -> generic_format radix2 fexp (va * vb) -> Rabs (va * vb) <= bpow radix2 1000 ->
  (Rabs va <= bpow radix2 1 \/ Rabs vb <= bpow radix2 1) -> ex (PrimFloat.mul a b) (va * vb).
Proof.
  intros [Ha Ea] [Hb Eb] G B [Bs|Bs].
  - assert (Ha' : fin 1 a) by (split; [exact (proj1 Ha)|rewrite Ea; exact Bs]).
    destruct (fin_mul 1 1000 a b Ha' Hb eq_refl) as [[F _] R].
    assert (E : FR (PrimFloat.mul a b) = va * vb) by (rewrite R, Ea, Eb; apply round_generic; [auto with typeclass_instances|exact G]).
    split; [split; [exact F|rewrite E; exact B]|exact E].
  - assert (Hb' : fin 1 b) by (split; [exact (proj1 Hb)|rewrite Eb; exact Bs]).
    destruct (fin_mul 1000 1 a b Ha Hb' eq_refl) as [[F _] R].
    assert (E : FR (PrimFloat.mul a b) = va * vb) by (rewrite R, Ea, Eb; apply round_generic; [auto with typeclass_instances|exact G]).
    split; [split; [exact F|rewrite E; exact B]|exact E].
Qed.
Lemma ex_eq f v w : ex f v -> v = w -> ex f w.
Proof. intros H <-. exact H. Qed.
Lemma ex_opp a va : ex a va -> ex (PrimFloat.opp a) (- va).
Proof. intros [Ha Ea]. destruct (fin_opp 1000 a Ha) as [F E]. split; [exact F|rewrite E, Ea; reflexivity]. Qed.
Lemma ex_zero : ex zero 0.
Proof. destruct FR_zero as [F E]. split; [split; [exact F|rewrite E, Rabs_R0; apply bpow_ge_0]|exact E]. Qed.
Lemma ex_one : ex one 1.
Proof.
  destruct FR_one as [F E]. split; [split; [exact F|]|exact E]. rewrite E, Rabs_pos_eq by lra.
  change 1 with (bpow radix2 0). apply bpow_le. lia.
Qed.

Lemma b1000 : 2 <= bpow radix2 1000.
Proof. change 2 with (bpow radix2 1). apply bpow_le. lia. Qed.

Lemma bp1 : bpow radix2 1 = 2.
Proof. simpl. lra. Qed.

(* ---- exact evaluation of an expression over primitive floats whose intermediate values are all among 0, 1, -1, +-x, +-eps ---- *)
Section Exact.
Variables eps x : PrimFloat.float.
Hypothesis He : fin 0 eps.
Hypothesis Hp : 0 < FR eps.
Hypothesis Hx : fin 1000 x.

Lemma Xe : ex x (FR x). Proof. split; [exact Hx|reflexivity]. Qed.
Lemma Ee : ex eps (FR eps). Proof. split; [eapply fin_weaken; [exact He|lia]|reflexivity]. Qed.
Lemma Be : Rabs (FR eps) <= 1. Proof. destruct He as [_ B]. simpl in B. lra. Qed.
Lemma Bx : Rabs (FR x) <= bpow radix2 1000. Proof. exact (proj2 Hx). Qed.

(* a real expression that is ring-equal to one of the candidate values is representable and small *)
Lemma cand_fmt v : v = 0 \/ v = 1 \/ v = - (1) \/ v = FR x \/ v = - FR x \/ v = FR eps \/ v = - FR eps -> generic_format radix2 fexp v.
Proof.
  intros [->|[->|[->|[->|[->|[->| ->]]]]]].
  - apply generic_format_0.
  - rewrite <- (proj2 FR_one). apply fmt_FR.
  - apply generic_format_opp. rewrite <- (proj2 FR_one). apply fmt_FR.
  - apply fmt_FR.
  - apply generic_format_opp, fmt_FR.
  - apply fmt_FR.
  - apply generic_format_opp, fmt_FR.
Qed.
Lemma cand_bound v : v = 0 \/ v = 1 \/ v = - (1) \/ v = FR x \/ v = - FR x \/ v = FR eps \/ v = - FR eps -> Rabs v <= bpow radix2 1000.
Proof.
  pose proof b1000 as B2. pose proof Be as B1. pose proof Bx as B3.
  intros [->|[->|[->|[->|[->|[->| ->]]]]]]; rewrite ?Rabs_R0, ?Rabs_R1, ?Rabs_Ropp, ?Rabs_R1; lra.
Qed.
Lemma cand_small v : v = 0 \/ v = 1 \/ v = - (1) \/ v = FR eps \/ v = - FR eps -> Rabs v <= bpow radix2 1.
Proof.
  pose proof Be as B1. rewrite bp1.
  intros [->|[->|[->|[->| ->]]]]; rewrite ?Rabs_R0, ?Rabs_R1, ?Rabs_Ropp, ?Rabs_R1; lra.
Qed.
End Exact.

Ltac cand := first [left; ring | right; left; ring | right; right; left; ring | right; right; right; left; ring
                   | right; right; right; right; left; ring | right; right; right; right; right; left; ring | right; right; right; right; right; right; ring].
Ltac cand5 := first [left; ring | right; left; ring | right; right; left; ring | right; right; right; left; ring | right; right; right; right; ring].
(* ex_tac: |- ex e ?v   for an if-free expression e over x, eps, zero, one, opp *)
Ltac ex_tac eps x He Hp Hx :=
  lazymatch goal with
  | |- ex x _ => exact (Xe x Hx)
  | |- ex eps _ => exact (Ee eps He)
  | |- ex zero _ => exact ex_zero
  | |- ex one _ => exact ex_one
  | |- ex (PrimFloat.opp ?a) _ => refine (ex_opp a _ _); ex_tac eps x He Hp Hx
  | |- ex (PrimFloat.add ?a ?b) _ =>
      refine (ex_add a b _ _ _ _ _ _); [ex_tac eps x He Hp Hx | ex_tac eps x He Hp Hx
        | apply (cand_fmt eps x); cand | apply (cand_bound eps x He Hx); cand]
  | |- ex (PrimFloat.mul ?a ?b) _ =>
      refine (ex_mul a b _ _ _ _ _ _ _); [ex_tac eps x He Hp Hx | ex_tac eps x He Hp Hx
        | apply (cand_fmt eps x); cand | apply (cand_bound eps x He Hx); cand
        | first [left; apply (cand_small eps He); cand5 | right; apply (cand_small eps He); cand5]]
  end.

(* resolve every comparison of the goal (innermost first) with the help of the real facts in the context *)
Ltac no_if t := lazymatch t with context [if _ then _ else _] => fail | _ => idtac end.
Ltac ffin_tac x Hx He :=
  first [exact (proj1 Hx) | exact (proj1 He) | exact (proj1 FR_zero) | exact (proj1 FR_one)
        | exact (proj1 (proj1 (fin_opp _ _ Hx))) ].
Ltac norm_FR x Hx := rewrite ?(proj2 FR_zero), ?(proj2 FR_one), ?(proj2 (fin_opp _ x Hx)).
Ltac resolve_cmp x Hx He :=
  repeat (match goal with
  | |- context [PrimFloat.ltb ?a ?b] => no_if a; no_if b;
      rewrite (ltb_FR a b) by ffin_tac x Hx He; norm_FR x Hx;
      first [rewrite Rlt_bool_true by lra | rewrite Rlt_bool_false by lra]
  | |- context [PrimFloat.leb ?a ?b] => no_if a; no_if b;
      rewrite (leb_FR a b) by ffin_tac x Hx He; norm_FR x Hx;
      first [rewrite Rle_bool_true by lra | rewrite Rle_bool_false by lra]
  | |- context [PrimFloat.eqb ?a ?b] => no_if a; no_if b;
      rewrite (eqb_FR a b) by ffin_tac x Hx He; norm_FR x Hx;
      first [rewrite Req_bool_true by lra | rewrite Req_bool_false by lra]
  end; cbv iota).

Theorem fsign_exact eps x : fin 0 eps -> 0 < FR eps -> fin 1000 x ->
  exists v, ex (fsign FOps eps x) v /\ (v = FR x \/ v = FR eps \/ v = - FR eps) /\ FR eps <= Rabs v.
Proof.
  intros He Hp Hx. cbv [fsign]. unfold_model.
  destruct (Rtotal_order (FR x) 0) as [Hneg|[Hz|Hpos]].
  - destruct (Rle_or_lt (FR eps) (- FR x)) as [Hbig|Hsmall].
    + exists (FR x). split; [|split; [left; reflexivity|rewrite Rabs_left by lra; lra]].
      resolve_cmp x Hx He. eapply ex_eq; [ex_tac eps x He Hp Hx|ring].
    + exists (- FR eps). split; [|split; [right; right; reflexivity|rewrite Rabs_Ropp, Rabs_pos_eq by lra; lra]].
      resolve_cmp x Hx He. eapply ex_eq; [ex_tac eps x He Hp Hx|ring].
  - exists (FR eps). split; [|split; [right; left; reflexivity|rewrite Rabs_pos_eq by lra; lra]].
    resolve_cmp x Hx He. eapply ex_eq; [ex_tac eps x He Hp Hx|rewrite ?Hz; ring].
  - destruct (Rle_or_lt (FR eps) (FR x)) as [Hbig|Hsmall].
    + exists (FR x). split; [|split; [left; reflexivity|rewrite Rabs_pos_eq by lra; lra]].
      resolve_cmp x Hx He. eapply ex_eq; [ex_tac eps x He Hp Hx|ring].
    + exists (FR eps). split; [|split; [right; left; reflexivity|rewrite Rabs_pos_eq by lra; lra]].
      resolve_cmp x Hx He. eapply ex_eq; [ex_tac eps x He Hp Hx|ring].
Qed.

(* the gradient ratio a / _fsign(x): finite, and of magnitude <= 2^(k+100) for |a| <= 2^k, whatever x (zero, tiny, huge) *)
Theorem ratio_finite k eps a x : fin 0 eps -> pos (-100) eps -> fin k a -> fin 1000 x -> okexp (k - -100) = true ->
  fin (k - -100) (PrimFloat.div a (fsign FOps eps x)).
Proof.
  intros He Hp Ha Hx Hk.
  assert (Hp0 : 0 < FR eps) by (unfold pos in Hp; pose proof (bpow_gt_0 radix2 (-100)); lra).
  destruct (fsign_exact eps x He Hp0 Hx) as (v & [Hf Ev] & _ & Hv).
  refine (proj1 (fin_div k (-100) a _ Ha (proj1 Hf) _ Hk)).
  rewrite Ev. unfold pos in Hp. lra.
Qed.

From PFV Require Import FloatLim4Thy FloatAllThy.
(* ... so the limited value psi-factor FL(a / _fsign(x)) is a finite float for every pair of face gradients with |a| <= 2^400 *)
Theorem limited_ratio_finite name epsL eps1 a x : fin 0 epsL -> 0 < FR epsL -> fin 0 eps1 -> pos (-100) eps1 -> fin 400 a -> fin 1000 x ->
  ffin (FL_dispatch FOps name epsL (PrimFloat.div a (fsign FOps eps1 x))).
Proof.
  intros HL HLp H1 H1p Ha Hx. apply float_all_dispatch; [exact HL|exact HLp|].
  exact (ratio_finite 400 eps1 a x H1 H1p Ha Hx eq_refl).
Qed.

Lemma eps1_default_ok : fin 0 (eps1_default FOps) /\ pos (-100) (eps1_default FOps).
Proof.
  let v := eval vm_compute in (eps1_default FOps) in
    replace (eps1_default FOps) with v by (vm_compute; reflexivity).
  split.
  - eapply fin_weaken; [fin_tac|vm_compute; discriminate].
  - eapply pos_weaken; [pos_tac|vm_compute; discriminate].
Qed.
