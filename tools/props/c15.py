"""C15 check module."""
import traceback
import lib
import probes


def run(ctx):
    import pyfvtool as pf
    ctx.rule = ("purity suite (executed on the implementation): 25 public builders / solvers / accessors x 9 classes; for each call all mesh arrays, "
                "FaceVariable components, CellVariable arrays and BC arrays are byte-snapshotted before/after, the call is repeated and results compared "
                "bit for bit, result arrays are tested with np.shares_memory against grid storage and inputs; solvePDE time loop reusing terms; "
                "every (class, call) pair is a distinct case")
    ctx.extra_trusted = ["static effect extraction tools/tr_effects.py (conservative view/alias analysis over the ast; fail-closed on constructs it does not understand)"]
    ctx.prove("C15")
    try:
        n = probes.probe_c15(ctx, pf)
        ctx.add_cases("purity", n, [f"c15case{i}" for i in range(min(n, 800))], samples=[{"cls": "Grid1D", "call": "faceLocations", "checks": "inputs unchanged, repeat bit-identical, no alias of grid storage"}])
    except Exception:
        ctx.broke("correspondence", "purity/harness", traceback.format_exc()[-1200:])


def replay(path):
    print(open(path).read()[:4000])
    return 0
