(* C07: discrete maximum principle. (1) an abstract argmax theorem about systems whose rows are convex combinations
   (plus sink), over R; (2) the sign structure of the diffusion and upwind stencils of Model/Ops.v at R; (3) the row sum
   of the upwind stencil is the discrete divergence of u (generic field). *)
From Coq Require Import Reals Lra Psatz Arith List Bool Lia.
From PFV Require Import OField KOps Grid Ops StencilThy.
Local Open Scope R_scope.

(* ---------- (1) abstract theorem ---------- *)
Fixpoint rsum (f : nat -> R) (n : nat) : R := match n with O => 0 | S k => rsum f k + f k end.
Lemma rsum_le f g n : (forall j, (j < n)%nat -> f j <= g j) -> rsum f n <= rsum g n.
Proof. induction n as [|n IH]; intros H; cbn; [lra|]. assert (f n <= g n) by (apply H; lia). assert (rsum f n <= rsum g n) by (apply IH; intros; apply H; lia). lra. Qed.
Lemma rsum_scal c f n : rsum (fun j => f j * c) n = rsum f n * c.
Proof. induction n as [|n IH]; cbn; [lra|]. rewrite IH. lra. Qed.
Lemma rsum_nonneg f n : (forall j, (j < n)%nat -> 0 <= f j) -> 0 <= rsum f n.
Proof. induction n as [|n IH]; intros H; cbn; [lra|]. assert (0 <= f n) by (apply H; lia). assert (0 <= rsum f n) by (apply IH; intros; apply H; lia). lra. Qed.

Lemma exists_argmax (x : nat -> R) n : (0 < n)%nat -> exists k, (k < n)%nat /\ forall i, (i < n)%nat -> x i <= x k.
Proof.
  induction n as [|n IH]; intros Hn; [lia|].
  destruct n as [|n].
  - exists 0%nat. split; [lia|]. intros i Hi. assert (i = 0)%nat by lia. subst. lra.
  - destruct (IH ltac:(lia)) as (k & Hk & Hmax).
    destruct (Rle_dec (x (S n)) (x k)) as [Hle|Hgt].
    + exists k. split; [lia|]. intros i Hi. destruct (Nat.eq_dec i (S n)) as [->|Hne]; [exact Hle|apply Hmax; lia].
    + exists (S n). split; [lia|]. intros i Hi. destruct (Nat.eq_dec i (S n)) as [->|Hne]; [lra|].
      assert (x i <= x k) by (apply Hmax; lia). lra.
Qed.

(* rows: d_i x_i = sum_j w_ij x_j + s_i g_i,  w_ij >= 0,  s_i > 0,  d_i = sum_j w_ij + s_i + beta_i,  beta_i >= 0 *)
Record convex_system (n : nat) (x g : nat -> R) (w : nat -> nat -> R) (s beta : nat -> R) : Prop := {
  cs_rows : forall i, (i < n)%nat -> (rsum (w i) n + s i + beta i) * x i = rsum (fun j => w i j * x j) n + s i * g i;
  cs_w : forall i j, (i < n)%nat -> (j < n)%nat -> 0 <= w i j;
  cs_s : forall i, (i < n)%nat -> 0 < s i;
  cs_beta : forall i, (i < n)%nat -> 0 <= beta i
}.

Theorem convex_rows_upper n x g w s beta (M : R) :
  (0 < n)%nat -> convex_system n x g w s beta -> (forall i, (i < n)%nat -> g i <= M) -> 0 <= M ->
  forall i, (i < n)%nat -> x i <= M.
Proof.
  intros Hn [Hrow Hw Hs Hb] Hg HM.
  destruct (exists_argmax x n Hn) as (k & Hk & Hmax).
  assert (Hxk : x k <= M).
  { destruct (Rle_dec (x k) 0) as [Hneg|Hpos]; [lra|]. apply Rnot_le_lt in Hpos.
    pose proof (Hrow k Hk) as E.
    assert (Hsum : rsum (fun j => w k j * x j) n <= rsum (w k) n * x k).
    { rewrite <- rsum_scal. apply rsum_le. intros j Hj. apply Rmult_le_compat_l; [apply Hw; assumption|apply Hmax; exact Hj]. }
    pose proof (Hs k Hk) as Hsk. pose proof (Hb k Hk) as Hbk. pose proof (Hg k Hk) as Hgk.
    (* (s+beta) x_k <= s g_k <= s M *)
    assert (s k * x k <= s k * M) by nra. nra. }
  intros i Hi. pose proof (Hmax i Hi). lra.
Qed.
(* without sink the bound is the maximum of the data itself (no reference to 0) *)
Theorem convex_rows_upper_nosink n x g w s (M : R) :
  (0 < n)%nat -> convex_system n x g w s (fun _ => 0) -> (forall i, (i < n)%nat -> g i <= M) ->
  forall i, (i < n)%nat -> x i <= M.
Proof.
  intros Hn [Hrow Hw Hs Hb] Hg.
  destruct (exists_argmax x n Hn) as (k & Hk & Hmax).
  assert (Hxk : x k <= M).
  { pose proof (Hrow k Hk) as E.
    assert (Hsum : rsum (fun j => w k j * x j) n <= rsum (w k) n * x k).
    { rewrite <- rsum_scal. apply rsum_le. intros j Hj. apply Rmult_le_compat_l; [apply Hw; assumption|apply Hmax; exact Hj]. }
    pose proof (Hs k Hk) as Hsk. pose proof (Hg k Hk) as Hgk.
    assert (s k * x k <= s k * g k) by nra. nra. }
  intros i Hi. pose proof (Hmax i Hi). lra.
Qed.
(* lower bounds by symmetry (apply the upper bound to -x, -g) *)
Theorem convex_rows_lower n x g w s beta (m : R) :
  (0 < n)%nat -> convex_system n x g w s beta -> (forall i, (i < n)%nat -> m <= g i) -> m <= 0 ->
  forall i, (i < n)%nat -> m <= x i.
Proof.
  intros Hn [Hrow Hw Hs Hb] Hg Hm i Hi.
  assert (H : - x i <= - m).
  { apply (convex_rows_upper n (fun j => - x j) (fun j => - g j) w s beta (- m) Hn); try lra; try assumption.
    - constructor; try assumption. intros k Hk. pose proof (Hrow k Hk) as E.
      assert (E2 : rsum (fun j => w k j * - x j) n = - rsum (fun j => w k j * x j) n).
      { clear. induction n as [|n IH]; cbn; [lra|]. rewrite IH. lra. }
      rewrite E2. nra.
    - intros k Hk. pose proof (Hg k Hk). lra. }
  lra.
Qed.
(* non-negative data stay non-negative *)
Corollary nonnegative_stays_nonnegative n x g w s beta :
  (0 < n)%nat -> convex_system n x g w s beta -> (forall i, (i < n)%nat -> 0 <= g i) -> forall i, (i < n)%nat -> 0 <= x i.
Proof. intros Hn Hc Hg. apply (convex_rows_lower n x g w s beta 0 Hn Hc Hg). lra. Qed.

(* ---------- (2) sign structure of the stencils at R ---------- *)
Section Signs.
Variable m : Mesh ROps.
Variable a : axis.
Variable c : cell.
Hypothesis HA : 0 <= mA ROps m a (cidx a c) /\ 0 <= mA ROps m a (pred (cidx a c)).
Hypothesis HW : 0 < mW ROps m a (cidx a c).
Hypothesis Hfac : 0 <= mfac ROps m a c.
Hypothesis Hdx : 0 < mdxf ROps m a (cidx a c) /\ 0 < mdxf ROps m a (pred (cidx a c)).

Lemma div_nonneg_pos x y : 0 <= x -> 0 < y -> 0 <= x / y.
Proof. intros. apply Rmult_le_pos; [assumption|]. left. apply Rinv_0_lt_compat. assumption. Qed.

(* -diffusionTerm(D), D >= 0: non-positive off-diagonals, diagonal = minus their sum (an M-matrix row) *)
Theorem diffusion_signs (D : fvar ROps) : 0 <= D a c -> 0 <= D a (cdn a c) ->
  0 <= diffAE ROps m D a c /\ 0 <= diffAW ROps m D a c /\
  diffAP ROps m D a c = - (diffAE ROps m D a c + diffAW ROps m D a c).
Proof.
  intros H1 H2. destruct HA as [A1 A2]. destruct Hdx as [d1 d2].
  unfold diffAE, diffAW, diffAP. cbn [kadd kmul ksub kdiv kopp k0 k1 ROps K].
  repeat split.
  - apply div_nonneg_pos; [repeat apply Rmult_le_pos; assumption|apply Rmult_lt_0_compat; assumption].
  - apply div_nonneg_pos; [repeat apply Rmult_le_pos; assumption|apply Rmult_lt_0_compat; assumption].
Qed.
(* upwind term with u_upwind = u, on a cell that is not adjacent to the boundary along this axis:
   diagonal >= 0, off-diagonals <= 0 (at boundary-adjacent cells the face-average treatment of the inflow face moves
   half of the inflow weight to the ghost cell; eliminating the ghost by the boundary row restores this shape) *)
Lemma umax_nonneg (u : fvar ROps) cc : 0 <= umax ROps u u a cc.
Proof. unfold umax. cbn [kltb ROps K k0]. unfold R_ltb. destruct (Rlt_dec (u a cc) 0); lra. Qed.
Lemma umin_nonpos (u : fvar ROps) cc : umin ROps u u a cc <= 0.
Proof. unfold umin. cbn [kltb ROps K k0]. unfold R_ltb. destruct (Rlt_dec 0 (u a cc)); lra. Qed.
Theorem upwind_signs (u : fvar ROps) : is_lo a c = false -> is_hi ROps m a c = false ->
  upwAE ROps m u u a c <= 0 /\ upwAW ROps m u u a c <= 0 /\ 0 <= upwAP ROps m u u a c.
Proof.
  intros Hlo Hhi. destruct HA as [A1 A2].
  pose proof (umax_nonneg u c) as P1. pose proof (umin_nonpos u c) as M1.
  pose proof (umax_nonneg u (cdn a c)) as P0. pose proof (umin_nonpos u (cdn a c)) as M0.
  assert (Hinv : 0 < / mW ROps m a (cidx a c)) by (apply Rinv_0_lt_compat; exact HW).
  unfold upwAE, upwAW, upwAP, half_if. rewrite Hlo, Hhi. cbn [kadd kmul ksub kdiv kopp k0 k1 ROps K].
  set (f := mfac ROps m a c) in *. set (W := mW ROps m a (cidx a c)) in *.
  set (Ai := mA ROps m a (cidx a c)) in *. set (Am := mA ROps m a (pred (cidx a c))) in *.
  set (up := umax ROps u u a c) in *. set (um := umin ROps u u a c) in *.
  set (up0 := umax ROps u u a (cdn a c)) in *. set (um0 := umin ROps u u a (cdn a c)) in *.
  unfold Rdiv.
  assert (0 <= f * Ai) by (apply Rmult_le_pos; assumption).
  assert (0 <= f * Am) by (apply Rmult_le_pos; assumption).
  assert (f * Ai * um <= 0) by nra.
  assert (0 <= f * Am * up0) by nra.
  assert (0 <= Ai * up) by (apply Rmult_le_pos; assumption).
  assert (Am * um0 <= 0) by nra.
  assert (0 <= f * (Ai * up - Am * um0)) by (apply Rmult_le_pos; [assumption|lra]).
  repeat split; nra.
Qed.
End Signs.

(* ---------- (3) row sum of the upwind stencil = discrete divergence of u (generic field) ---------- *)
Section RowSum.
Variable F : FieldOps.
Variable L : FieldLaws F.
Add Field FFmp : (FL_field F L).
Theorem upwind_row_sum (m : Mesh F) (u : fvar F) a c :
  is_lo a c = false -> is_hi F m a c = false -> mW F m a (cidx a c) <> k0 F ->
  (u a c = k0 F -> u a c = k0 F) ->
  kadd F (kadd F (upwAW F m u u a c) (upwAP F m u u a c)) (upwAE F m u u a c) = divrow F m u a c.
Proof.
  intros Hlo Hhi HW _. unfold upwAW, upwAP, upwAE, half_if, divrow. rewrite Hlo, Hhi.
  rewrite <- (umax_umin_sum F L u u a c) by auto. rewrite <- (umax_umin_sum F L u u a (cdn a c)) by auto.
  field. exact HW.
Qed.
End RowSum.

(* ---------- (4) one axis of -diffusionTerm(D) + convectionUpwindTerm(u) is "diagonal * x_c - sum of non-negative
   weights * neighbours", and the diagonal is the sum of the weights plus the discrete divergence of u ---------- *)
Section RowShape.
Variable m : Mesh ROps.
Variable a : axis.
Variable c : cell.
Hypothesis HA : 0 <= mA ROps m a (cidx a c) /\ 0 <= mA ROps m a (pred (cidx a c)).
Hypothesis HW : 0 < mW ROps m a (cidx a c).
Hypothesis Hfac : 0 <= mfac ROps m a c.
Hypothesis Hdx : 0 < mdxf ROps m a (cidx a c) /\ 0 < mdxf ROps m a (pred (cidx a c)).
Hypothesis Hlo : is_lo a c = false.
Hypothesis Hhi : is_hi ROps m a c = false.

Theorem row_convex_axis (D u : fvar ROps) (x : cvar ROps) :
  0 <= D a c -> 0 <= D a (cdn a c) ->
  let wdn := diffAW ROps m D a c - upwAW ROps m u u a c in
  let wup := diffAE ROps m D a c - upwAE ROps m u u a c in
  0 <= wdn /\ 0 <= wup /\
  - apply_axis ROps (diffAW ROps m D) (diffAP ROps m D) (diffAE ROps m D) x a c
  + apply_axis ROps (upwAW ROps m u u) (upwAP ROps m u u) (upwAE ROps m u u) x a c
  = (wdn + wup + divrow ROps m u a c) * x c - wdn * x (cdn a c) - wup * x (cup a c).
Proof.
  intros D1 D0 wdn wup.
  destruct (diffusion_signs m a c HA HW Hfac Hdx D D1 D0) as (S1 & S2 & S3).
  destruct (upwind_signs m a c HA HW Hfac u Hlo Hhi) as (U1 & U2 & U3).
  assert (HWne : mW ROps m a (cidx a c) <> k0 ROps) by (cbn; lra).
  pose proof (upwind_row_sum ROps RLaws m u a c Hlo Hhi HWne (fun H => H)) as RS.
  cbn [kadd ROps K] in RS.
  unfold wdn, wup. repeat split; try lra.
  unfold apply_axis. cbn [kadd kmul ROps K]. rewrite S3. rewrite <- RS. ring.
Qed.
End RowShape.
