"""C08 check module."""
import traceback
import lib
from common import run_suites
import probes
from suites import bcsuite, solvesuite

REL = lambda suite, b: suite != "means" or b.get("what") in ("linearMean", "upwindMean")


def run(ctx):
    import pyfvtool as pf
    ctx.rule = ("per-axis correspondence of every builder (Mx, My, Mz compared separately with the one per-axis model stencil) + bc + solve suites; "
                "impl_probe: identical two-step solve sequences (transient, diffusion, upwind + TVD, sink) on 7 embedding pairs with data invariant along the dropped "
                "axes (periodic or no-flux there), Cartesian axis permutations, mirrors with reversed velocity component and cyclic shifts along a periodic uniform axis; "
                "non-trivial = N>=2 on every axis")
    ctx.prove("C08")
    from suites import symsuite
    run_suites(ctx, ["symbolic"], runner=symsuite.run_suite, relevant=symsuite.relevant_for(['diffusion', 'central', 'upwind', 'tvd', 'tvdfsarg']))
    run_suites(ctx, ["diffusion", "conv_central", "conv_upwind", "tvd", "divergence", "gradient", "means"], relevant=REL)
    run_suites(ctx, ["bc_ghost", "bc_rows"], runner=bcsuite.run_suite)
    run_suites(ctx, ["solve"], runner=solvesuite.run_suite)
    try:
        n = probes.probe_c08(ctx, pf)
        ctx.add_cases("impl_probe", n, [f"c08probe{i}" for i in range(min(n, 80))])
    except Exception:
        ctx.broke("correspondence", "impl_probe/harness", traceback.format_exc()[-1200:])


def replay(path):
    print(open(path).read()[:4000])
    return 0
