"""state suite: operation histories on real CellVariable / BoundaryConditions objects vs the heap machine Model/State.v.
After every operation the harness observes, for every live variable: value flag, BC flag, ghost freshness (stored array vs a
fresh cellValuesWithBoundaries), cached-term freshness (vs a fresh boundaryConditionsTerm), identity of its BC object."""
import random, itertools, traceback, copy
import numpy as np
import lib, gen

HEADER = ("From Coq Require Import List Bool Arith.\nFrom PFV Require Import State CorrLib.\nImport ListNotations.\n")
SIDES = [("left", "right"), ("bottom", "top"), ("back", "front")]
GRIDS = ["Grid1D", "Grid2D", "PolarGrid2D", "Grid3D", "CylindricalGrid1D"]


class World:
    def __init__(self, pf, rng, cname, style):
        self.pf, self.rng, self.cname = pf, rng, cname
        d = gen.DIM[cname]
        n = 3 if d < 3 else 2
        fs = [np.linspace(0.5, 2.0, n + 1) for _ in range(d)]
        self.mesh = gen.build_mesh(pf, cname, fs)
        self.d = d
        self.counter = 10.0
        if style == "bc_passed":
            bc = pf.BoundaryConditions(self.mesh)
            v = pf.CellVariable(self.mesh, self.newvals(), bc)
        else:
            v = pf.CellVariable(self.mesh, self.newvals())
        self.vars = [v]
        self.bcs = [v.BCs]
        self.D = pf.FaceVariable(self.mesh, 1.0)
        self.reg = {}

    def ver(self, kind, arr):
        """content -> version number (equal content <=> equal version)"""
        key = (kind, np.round(np.asarray(arr, dtype=float), 10).tobytes())
        if key not in self.reg:
            self.reg[key] = len(self.reg) + 1
        return self.reg[key]

    def iver(self, v):
        return self.ver("i", np.array(v.value))

    def bvers(self, bc):
        t, g = self.bc_signature(bc)
        return self.ver("g", g), self.ver("t", t)

    def val(self):
        self.counter += 1.0 + self.rng.random()
        return self.counter

    def newvals(self):
        return np.array([self.val() for _ in range(int(np.prod(self.mesh.dims)))]).reshape(tuple(int(k) for k in self.mesh.dims))

    def bc_signature(self, bc):
        M, r = self.pf.boundaryConditionsTerm(bc)
        probe = np.arange(1, int(np.prod(self.mesh.dims)) + 1, dtype=float).reshape(tuple(int(k) for k in self.mesh.dims)) ** 1.5
        g = self.pf.boundary.cellValuesWithBoundaries(probe, bc)
        return np.hstack([M.toarray().ravel(), r]), g.ravel()

    def bc_index(self, bc):
        for i, b in enumerate(self.bcs):
            if b is bc:
                return i
        self.bcs.append(bc)
        return len(self.bcs) - 1

    # ---- operations; each returns the Coq op text
    def edit_bc(self, b):
        bc = self.bcs[b]
        before = self.bc_signature(bc)
        ax = self.rng.randrange(self.d)
        radial = gen.AXKIND[self.cname][ax] == "rad"
        face = getattr(bc, self.rng.choice(SIDES[ax]))
        kind = self.rng.choice(["whole_a", "whole_c", "slice_c", "view_c", "fixedValue", "fixedGradient", "newton", "noflux", "same", "iadd", "periodic"])
        if kind == "periodic" and radial:
            kind = "whole_c"
        v = self.val()
        if kind == "whole_a":
            face.a = 0.5 + v / 100.0
        elif kind == "whole_c":
            face.c = v
        elif kind == "slice_c":
            face.c[..., 0:1] = v
        elif kind == "view_c":
            w = face.c[...]
            w[..., -1:] = v
        elif kind == "fixedValue":
            face.fixedValue(v)
        elif kind == "fixedGradient":
            face.fixedGradient(v / 10.0)
        elif kind == "newton":
            face.newtonCooling(1.0 + v / 50.0, 2.0, v)
        elif kind == "noflux":
            face.defaultNoFlux()
        elif kind == "same":
            face.b = np.array(face.b)
        elif kind == "iadd":
            face.c += v
        elif kind == "periodic":
            face.periodic = not face.periodic
        gv, tv = self.bvers(bc)
        return f"EditBC {b} {gv} {tv}", kind

    def edit_val(self, i):
        v = self.vars[i]
        kind = self.rng.choice(["whole", "slice", "iadd", "view"])
        if kind == "whole":
            v.value = self.newvals()
        elif kind == "slice":
            v.value[..., 0:1] = self.val()
        elif kind == "iadd":
            v.value += self.val()
        else:
            w = v.value
            w[..., -1:] = self.val()
        return f"EditVal {i} {self.iver(v)}", kind

    def do(self, opname, a, b=None):
        pf = self.pf
        if opname == "EditBC":
            return self.edit_bc(a)
        if opname == "EditVal":
            return self.edit_val(a)
        if opname == "UpdateValue":
            self.vars[a].update_value(self.vars[b]); return f"UpdateValue {a} {b}", ""
        if opname == "ApplyBCs":
            self.vars[a].apply_BCs(); return f"ApplyBCs {a}", ""
        if opname == "Solve":
            v = self.vars[a]
            pf.solvePDE(v, [pf.transientTerm(v, 0.5 + self.rng.random(), 1.0), -pf.diffusionTerm(self.D)])
            return f"Solve {a} {self.iver(v)}", ""
        if opname == "SolveExplicit":
            v = self.vars[a]
            rhs = np.full(int(np.prod([int(k) + 2 for k in self.mesh.dims])), self.val() / 100.0)
            w = pf.solveExplicitPDE(v, 0.01, rhs)
            self.vars.append(w); self.bc_index(w.BCs)
            return f"SolveExplicit {a} {self.iver(w)}", ""
        if opname == "Copy":
            w = self.vars[a].copy(); self.vars.append(w); self.bc_index(w.BCs); return f"Copy {a}", ""
        if opname == "Arith":
            k = self.rng.choice(["mul", "add", "neg", "radd", "pow"])
            v = self.vars[a]
            w = {"mul": lambda: v * (1.0 + self.val() / 100), "add": lambda: v + self.val(), "neg": lambda: -v,
                 "radd": lambda: self.val() + v, "pow": lambda: abs(v) ** 1.01}[k]()
            self.vars.append(w); self.bc_index(w.BCs); return f"Arith {a} {self.iver(w)}", k
        if opname == "NewShared":
            w = pf.CellVariable(self.mesh, self.newvals(), self.bcs[a]); self.vars.append(w); return f"NewShared {a} {self.iver(w)}", ""
        raise ValueError(opname)

    def observe(self):
        pf = self.pf
        out = []
        for v in self.vars:
            fresh = pf.boundary.cellValuesWithBoundaries(np.array(v.value), v.BCs)
            gf = bool(np.allclose(np.asarray(v._value), fresh, rtol=1e-12, atol=1e-12))
            if hasattr(v, "_BCsTerm"):
                M, r = v._BCsTerm
                M2, r2 = pf.boundaryConditionsTerm(v.BCs)
                cf = bool(abs(M - M2).max() <= 1e-12 * (1 + abs(M2).max()) and np.allclose(r, r2, rtol=1e-12, atol=1e-12))
                cft = f"(Some {'true' if cf else 'false'})"
            else:
                cf = None
                cft = "None"
            out.append((bool(v.value.modified), bool(v.BCs.modified), gf, cf, self.bc_index(v.BCs)))
        return out


def obs_text(obs):
    def b(x): return "true" if x else "false"
    return "[" + "; ".join(f"({b(a)}, {b(bb)}, {b(c)}, {'None' if d is None else '(Some ' + b(d) + ')'}, {e})" for a, bb, c, d, e in obs) + "]"


OPS1 = ["EditBC", "EditVal", "ApplyBCs", "Solve", "SolveExplicit", "Copy", "Arith", "NewShared", "UpdateValue"]


def gen_history(rng, world, length, forced=None):
    ops, exp, desc = [], [], []
    for step in range(length):
        name = forced[step] if forced else rng.choice(OPS1)
        nv, nb = len(world.vars), len(world.bcs)
        if nv >= 5 and name in ("SolveExplicit", "Copy", "Arith", "NewShared"):
            name = rng.choice(["EditBC", "EditVal", "Solve", "ApplyBCs"])
        if name in ("EditBC", "NewShared"):
            a, b = rng.randrange(nb), None
        elif name == "UpdateValue":
            a, b = rng.randrange(nv), rng.randrange(nv)
        else:
            a, b = rng.randrange(nv), None
        try:
            with np.errstate(all="ignore"):
                txt, kind = world.do(name, a, b)
                obs = world.observe()
        except Exception as ex:
            return ops, exp, desc, f"{name}({a},{b}) raised {type(ex).__name__}: {ex}"
        ops.append(txt); exp.append(obs); desc.append(txt + (f" [{kind}]" if kind else ""))
    return ops, exp, desc, None


def run_suite(suite, tier, seed):
    import pyfvtool as pf
    rng = random.Random(f"state-{seed}")
    files, labels = [], []
    cur, vers = [], []
    keys, samples, dist, skipped = set(), [], {}, []
    nh = 0
    def add(ops, exp, label, init):
        nonlocal cur, vers
        i = len(labels)
        cur.append(f"Definition h{i} : bool := history_ok {init[0]} {init[1]} {init[2]} [{'; '.join(ops)}] [{'; '.join(obs_text(o) for o in exp)}].\n")
        vers.append(f"h{i}")
        labels.append(label)
    def flush():
        nonlocal cur, vers
        if vers:
            files.append((f"state_{len(files)}", HEADER + "".join(cur) + "Eval vm_compute in (report [" + "; ".join(vers) + "]).\n", len(vers)))
            cur, vers = [], []
    # bounded-exhaustive over a reduced alphabet, then random long histories
    depth = 3 if tier == "quick" else 4
    alphabet = ["EditBC", "EditVal", "Solve", "SolveExplicit", "NewShared", "Copy", "ApplyBCs"]
    seqs = list(itertools.product(alphabet, repeat=depth))
    if tier == "quick":
        seqs = seqs[::2]
    jobs = [(s, "Grid1D", "bc_default" if k % 2 else "bc_passed") for k, s in enumerate(seqs)]
    nrand = 60 if tier == "quick" else 400
    for k in range(nrand):
        jobs.append((None, GRIDS[k % len(GRIDS)], "bc_default" if k % 2 else "bc_passed"))
    for forced, cname, style in jobs:
        world = World(pf, rng, cname, style)
        length = len(forced) if forced else rng.randint(6, 14 if tier == "quick" else 30)
        iv0 = world.iver(world.vars[0]); gv0, tv0 = world.bvers(world.bcs[0])
        ops, exp, desc, err = gen_history(rng, world, length, forced)
        label = {"cls": cname, "style": style, "history": desc}
        if err:
            skipped.append({"cls": cname, "what": "history", "reason": "implementation raised", "trace": err, "label": label})
        if ops:
            add(ops, exp, label, (iv0, gv0, tv0))
            keys.add(" ".join(o.split()[0] + o.split()[1] for o in ops))
            nh += 1
            dist[cname] = dist.get(cname, 0) + 1
            dist["len=%d" % len(ops)] = dist.get("len=%d" % len(ops), 0) + 1
            if len(samples) < 2 and forced is None:
                samples.append(label)
        if len(vers) >= 120:
            flush()
    flush()
    res = lib.coq_eval_many([(n, t) for n, t, _ in files], timeout=900)
    bad, errors, nchecks, off = [], [], 0, 0
    for n, t, cnt in files:
        rc, out = res[n]
        rep = lib.parse_report(out) if rc == 0 else None
        if rep is None:
            errors.append({"file": n, "out": out[-600:]})
        else:
            nchecks += rep[0]
            for i in rep[1]:
                bad.append(dict(labels[off + i], what="history: model and implementation observations diverge"))
        off += cnt
    return {"suite": "state", "cases": nh, "checks": nchecks, "bad": bad, "errors": errors, "skipped": skipped,
            "keys": sorted(keys)[:2000], "samples": samples, "dist": dist}
