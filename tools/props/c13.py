"""C13 - flux limiters: regenerated definitions + theorems, translator sanity at Qc, search on the implementation."""
import math, random, itertools, json, traceback
import numpy as np
import lib

NAMES = ["CHARM", "HCUS", "HQUICK", "ospre", "VanLeer", "VanAlbada1", "VanAlbada2", "MinMod", "SUPERBEE",
         "Osher", "Sweby", "smart", "Koren", "MUSCL", "QUICK", "UMIST"]
CLIPPED = ["MinMod", "SUPERBEE", "Osher", "Sweby", "Koren", "MUSCL", "QUICK", "UMIST", "smart", "VanLeer"]

# independent float re-statement of the published forms (search oracle; the proof uses Spec/LimiterSpec.v)
def _pos(f):
    return lambda r: 0.0 if r <= 0 else f(r)
PUB = {
    "CHARM": _pos(lambda r: r * (3 * r + 1) / (r + 1) ** 2),
    "HCUS": _pos(lambda r: 3 * r / (r + 2)),
    "HQUICK": _pos(lambda r: 4 * r / (r + 3)),
    "ospre": lambda r: 1.5 * (r * r + r) / (r * r + r + 1),
    "VanLeer": lambda r: (r + abs(r)) / (1 + abs(r)),
    "VanAlbada1": lambda r: (r * r + r) / (r * r + 1),
    "VanAlbada2": lambda r: 2 * r / (r * r + 1),
    "MinMod": lambda r: max(0.0, min(1.0, r)),
    "SUPERBEE": lambda r: max(0.0, min(2 * r, 1.0), min(r, 2.0)),
    "Osher": lambda r: max(0.0, min(r, 1.5)),
    "Sweby": lambda r: max(0.0, min(1.5 * r, 1.0), min(r, 1.5)),
    "smart": lambda r: max(0.0, min(2 * r, 0.25 + 0.75 * r, 4.0)),
    "Koren": lambda r: max(0.0, min(2 * r, (1 + 2 * r) / 3, 2.0)),
    "MUSCL": lambda r: max(0.0, min(2 * r, 0.5 * (1 + r), 2.0)),
    "QUICK": lambda r: max(0.0, min(2 * r, (3 + r) / 4, 2.0)),
    "UMIST": lambda r: max(0.0, min(2 * r, 0.25 + 0.75 * r, 0.75 + 0.25 * r, 2.0)),
}

SPECIAL = [0.0, 1.0, -1.0, 2.0, -2.0, 3.0, -3.0, 0.5, -0.5, 1 / 3, -1 / 3, 0.25, 4.0, 1.5, -1.5, 2 / 3, 5.0, 0.2, -0.25]


def points(tier, rng):
    n = 60 if tier == "quick" else 600
    pts = list(SPECIAL)
    pts += [round(rng.uniform(-1e3, 1e3), 3) for _ in range(n)]
    pts += [k / 16.0 for k in range(-64, 65, 1 if tier != "quick" else 4)]
    exps = range(-100, 101, 10 if tier == "quick" else 1)
    pts += [s * 10.0 ** e for e in exps for s in (1, -1)]
    return pts


def suite_limiters(ctx, pf):
    """translator sanity: generated definitions evaluated at Qc inside Coq  vs  the real FL on the same r"""
    rng = random.Random(ctx.seed)
    pts = points(ctx.tier, rng)
    eps = 2e-16
    items = []
    per = {}
    for name in NAMES + ["no_such_limiter"]:
        import io, contextlib
        with contextlib.redirect_stdout(io.StringIO()):
            FL = pf.fluxLimiter(name)
        with np.errstate(all="ignore"):
            vals = FL(np.array(pts, dtype=float))
        rows = []
        for r, v in zip(pts, vals):
            if not math.isfinite(v):
                ctx.violation(f"limiters:{name}:nonfinite", f"fluxLimiter('{name}')({r!r}) = {v!r} (not finite)",
                              {"name": name, "r": r, "value": repr(v)})
                continue
            rows.append((r, float(v)))
        per[name] = rows
        body = ";\n".join(f"({lib.q_of(r)}, {lib.q_of(v)})" for r, v in rows)
        v = ("From Coq Require Import ZArith QArith Qcanon List String.\n"
             "From PFV Require Import OField KOps Limiters CorrLib.\nImport ListNotations.\n"
             f"Definition pts : list (Qc * Qc) := [\n{body}].\n"
             f'Definition verdicts := map (fun p => close tol12 (FL_dispatch QcOps "{name}"%string (qc ({lib.Fraction(eps).numerator}) {lib.Fraction(eps).denominator}) (fst p)) (snd p)) pts.\n'
             "Eval vm_compute in (summary verdicts).\n")
        items.append((f"lim_{name}", v))
    res = lib.coq_eval_many(items)
    for name in NAMES + ["no_such_limiter"]:
        rc, out = res[f"lim_{name}"]
        m = lib.parse_summary(out) if rc == 0 else None
        rows = per[name]
        nz = [f"{name}:{r!r}" for r, _ in rows if r != 0]
        ctx.add_cases("limiters", len(rows), nz, samples=[{"name": name, "r": rows[3][0], "impl": rows[3][1]}] if name == "Koren" else (),
                      dist={"points_" + name: len(rows)})
        if rc != 0 or not m:
            ctx.broke("correspondence", f"limiters/{name}", out[-800:])
            continue
        if m[1] != 0:
            i = m[2]
            ctx.broke("correspondence", f"limiters/{name}", f"generated definition and numpy disagree at r={rows[i][0]!r}: impl={rows[i][1]!r}")


# ---------------------------------------------------------------- binary64 level
SAFE_F64 = ["VanLeer", "VanAlbada1", "VanAlbada2", "MinMod", "SUPERBEE", "Osher", "Sweby", "smart", "Koren", "MUSCL", "QUICK", "UMIST"]
OVERFLOWING = ["CHARM", "HCUS", "HQUICK", "ospre", "VanLeer", "VanAlbada1", "VanAlbada2"]     # known finding c13:float_overflow


def fhex(x):
    """Coq literal of a binary64 value (primitive float)"""
    x = float(x)
    if math.isnan(x):
        return "nan"
    if math.isinf(x):
        return "infinity" if x > 0 else "neg_infinity"
    h = x.hex()
    return f"({h})" if h.startswith("-") else h


def float_points(tier, rng):
    pts = list(SPECIAL) + [-3.0000000000000004, -2.0000000000000004, -0.9999999999999999, 5e-324, -5e-324, 2.2250738585072014e-308]
    pts += [rng.uniform(-8, 8) for _ in range(40 if tier == "quick" else 400)]
    pts += [s * rng.uniform(1, 10) * 10.0 ** rng.randint(-300, 150) for s in (1, -1) for _ in range(20 if tier == "quick" else 200)]
    pts += [s * 2.0 ** k for s in (1, -1) for k in (-1074, -1022, -600, -53, 52, 53, 100, 255, 256, 340, 341, 499, 500)]
    # beyond 2^500: where the rational limiters overflow (known finding); the model must reproduce inf / nan exactly there too
    pts += [s * v for s in (1, -1) for v in (2.0 ** 511, 1e154, 2.0 ** 512, 1.5e154, 1e155, 2.0 ** 520, 1e200, 2.0 ** 1023, 1e308, 1.7976931348623157e308)]
    return pts


def suite_limiters_f64(ctx, pf):
    """the regenerated definitions evaluated in binary64 inside Coq (primitive floats) vs numpy float64: bit for bit
    (0 = -0; inf / nan only have to agree on not being finite)"""
    import io, contextlib, inspect
    rng = random.Random(f"f64-{ctx.seed}")
    pts = float_points(ctx.tier, rng)
    items, per = [], {}
    for name in NAMES + ["no_such_limiter"]:
        with contextlib.redirect_stdout(io.StringIO()):
            FL = pf.fluxLimiter(name)
        with np.errstate(all="ignore"):
            vals = np.asarray(FL(np.array(pts, dtype=float)), dtype=float)
        per[name] = list(zip(pts, [float(v) for v in vals]))
        body = ";\n".join(f"({fhex(r)}, {fhex(v)})" for r, v in per[name])
        v = ("From Coq Require Import ZArith List String PrimFloat.\n"
             "From PFV Require Import OField KOps Limiters CorrLib F64Ops.\nImport ListNotations.\nOpen Scope float_scope.\n"
             f"Definition pts : list (float * float) := [\n{body}].\n"
             f'Definition verdicts := map (fun p => fsame (FL_dispatch FOps "{name}"%string (eps_default FOps) (fst p)) (snd p)) pts.\n'
             "Eval vm_compute in (summary verdicts).\n")
        items.append((f"limf64_{name}", v))
    # the guard
    eps1 = inspect.signature(pf.advection._fsign).parameters["eps1"].default
    gpts = [0.0, -0.0] + [s * k for s in (1.0, -1.0) for k in (eps1, np.nextafter(eps1, 0), np.nextafter(eps1, 1), eps1 / 2, 5e-324, 1e-300, 1.0, 0.3, 1e300, 2.0 ** 1000)]
    with np.errstate(all="ignore"):
        gv = [float(y) for y in pf.advection._fsign(np.array(gpts))]
    body = ";\n".join(f"({fhex(r)}, {fhex(v)})" for r, v in zip(gpts, gv))
    items.append(("limf64_fsign",
                  "From Coq Require Import ZArith List String PrimFloat.\n"
                  "From PFV Require Import OField KOps Limiters CorrLib F64Ops.\nImport ListNotations.\nOpen Scope float_scope.\n"
                  f"Definition pts : list (float * float) := [\n{body}].\n"
                  "Definition verdicts := map (fun p => fsame (fsign FOps (eps1_default FOps) (fst p)) (snd p)) pts.\n"
                  "Eval vm_compute in (summary verdicts).\n"))
    per["fsign"] = list(zip(gpts, gv))
    res = lib.coq_eval_many(items)
    for name in NAMES + ["no_such_limiter", "fsign"]:
        rc, out = res[f"limf64_{name}"]
        m = lib.parse_summary(out) if rc == 0 else None
        rows = per[name]
        ctx.add_cases("limiters_f64", len(rows), [f"f64:{name}:{r!r}" for r, _ in rows if r != 0],
                      samples=[{"name": name, "r": rows[7][0].hex(), "impl": rows[7][1].hex()}] if name == "VanAlbada1" else (),
                      dist={"f64_points_" + name: len(rows), "f64_nonfinite_" + name: sum(1 for _, v in rows if not math.isfinite(v))})
        if rc != 0 or not m:
            ctx.broke("correspondence", f"limiters_f64/{name}", out[-800:])
            continue
        if m[1] != 0:
            i = m[2]
            ctx.broke("correspondence", f"limiters_f64/{name}",
                      f"the regenerated definition evaluated in binary64 inside Coq and numpy disagree at r={rows[i][0]!r} ({rows[i][0].hex()}): impl={rows[i][1]!r}")
    # the property's own observable at the float level: finite values for finite ratios
    #   |r| <= 2^500: proved for SAFE_F64 (C13_float_finite_partial), observed for the other four
    #   beyond: the rational limiters overflow (C13_float_overflow_refuted) -- known finding; anything else is a new violation
    overflow_seen = []
    for name in NAMES:
        for r, v in per[name]:
            if math.isfinite(v):
                continue
            if abs(r) > 2.0 ** 500 and name in OVERFLOWING:
                overflow_seen.append((name, r, v))
            else:
                ctx.violation(f"limiters:{name}:nonfinite", f"fluxLimiter('{name}')({r!r}) = {v!r} (not finite)", {"name": name, "r": r, "value": repr(v)})
                break
    if overflow_seen:
        name, r, v = overflow_seen[0]
        ctx.violation("c13:float_overflow", f"fluxLimiter('{name}')({r!r}) = {v!r}: intermediate overflow in binary64 for |r| >= 1.3e154 "
                      f"({len(overflow_seen)} (name, r) pairs over {sorted({n for n, _, _ in overflow_seen})})", {"name": name, "r": r, "value": repr(v)})


def search(ctx, pf):
    """direct evaluation of the property's observables on the real code"""
    import io, contextlib
    rng = random.Random(ctx.seed + 1)
    pts = points("thorough" if ctx.tier != "quick" else "quick", rng)
    arr = np.array(pts, dtype=float)
    n_eval = 0
    for name in NAMES:
        FL = pf.fluxLimiter(name)
        with np.errstate(all="ignore"):
            vals = FL(arr)
        for r, v in zip(pts, vals):
            n_eval += 1
            want = PUB[name](r)
            ok = math.isfinite(v) and abs(v - want) <= 1e-11 * (1 + abs(want))
            if ok and r > 0:
                ok = -1e-12 <= v <= min(2 * r, 4.0) * (1 + 1e-12) + 1e-300
            if ok and r <= 0 and name in CLIPPED:
                ok = (v == 0)
            if not ok:
                ctx.violation(f"limiters:{name}:value", f"fluxLimiter('{name}')({r!r}) = {v!r}, published form gives {want!r}",
                              {"name": name, "r": r, "impl": repr(v), "published": want})
                break
        v1 = FL(np.float64(1.0))
        if not abs(float(v1) - 1.0) <= 1e-12:
            ctx.violation(f"limiters:{name}:one", f"fluxLimiter('{name}')(1) = {v1!r} != 1", {"name": name, "r": 1.0, "impl": repr(v1)})
        # elementwise on 0-3D shapes
        base = np.array([-3.0, -2.0, -1.0, -0.5, 0.0, 0.5, 1.0, 2.0, 3.0, 7.0, 0.25, 100.0])
        with np.errstate(all="ignore"):
            flat = FL(base)
            for shp in [(), (12,), (3, 4), (2, 3, 2)]:
                x = base.reshape(shp) if shp else np.float64(0.5)
                y = np.asarray(FL(x))
                ref = flat.reshape(shp) if shp else np.asarray(flat[5])
                n_eval += 1
                if y.shape != np.shape(x) or not np.array_equal(y, ref):
                    ctx.violation(f"limiters:{name}:shape", f"fluxLimiter('{name}') is not elementwise on shape {shp}",
                                  {"name": name, "shape": shp, "got": y.tolist()})
    # fallback
    with contextlib.redirect_stdout(io.StringIO()):
        FLu = pf.fluxLimiter("definitely-not-a-limiter")
    FLs = pf.fluxLimiter("SUPERBEE")
    if not np.array_equal(FLu(arr), FLs(arr)):
        ctx.violation("limiters:fallback", "unknown limiter name does not behave like SUPERBEE", {"name": "definitely-not-a-limiter"})
    # TVD correction finite on all small integer fields (Grid1D family) and a sample on every class
    vals = (-1, 0, 1, 2) if ctx.tier == "quick" else (-2, -1, 0, 1, 2, 3)
    N = 3
    m = pf.Grid1D(np.array([0.0, 1.0, 2.0, 3.0]))
    fields = list(itertools.product(vals, repeat=N + 2))
    if ctx.tier == "quick":
        fields = fields[::3]
    from pyfvtool.advection import convectionTvdRHS1D
    for name in NAMES:
        FL = pf.fluxLimiter(name)
        for sgn in (1.0, -1.0):
            u = pf.FaceVariable(m, sgn)
            bad = None
            for f in fields:
                phi = pf.CellVariable(m, np.array(f, dtype=float))
                with np.errstate(all="ignore"):
                    rhs = convectionTvdRHS1D(u, phi, FL)
                n_eval += 1
                if not np.all(np.isfinite(rhs)):
                    bad = f; break
            if bad is not None:
                ctx.violation(f"tvd:{name}:nonfinite", f"TVD correction with '{name}' is not finite for field {list(bad)} (u={sgn})",
                              {"limiter": name, "grid": "Grid1D faces [0,1,2,3]", "phi_with_ghosts": list(bad), "u": sgn})
    # every class, random integer fields
    classes = [("Grid1D", 1), ("CylindricalGrid1D", 1), ("SphericalGrid1D", 1), ("Grid2D", 2), ("CylindricalGrid2D", 2),
               ("PolarGrid2D", 2), ("Grid3D", 3), ("CylindricalGrid3D", 3), ("SphericalGrid3D", 3)]
    reps = 3 if ctx.tier == "quick" else 20
    for cname, d in classes:
        faces = [np.array([0.5, 1.0, 2.0, 2.5]), np.array([0.25, 0.5, 1.0]), np.array([0.0, 0.5, 1.5])][:d]
        mesh = getattr(pf, cname)(*faces)
        for name in NAMES:
            FL = pf.fluxLimiter(name)
            for _ in range(reps):
                shape = tuple(int(k) + 2 for k in mesh.dims)
                f = np.array([rng.choice((-1, 0, 1, 2)) for _ in range(int(np.prod(shape)))], dtype=float).reshape(shape)
                phi = pf.CellVariable(mesh, f)
                u = pf.FaceVariable(mesh, rng.choice((1.0, -1.0)))
                with np.errstate(all="ignore"):
                    rhs = pf.convectionTVDupwindRHSTerm(u, phi, FL)
                n_eval += 1
                if not np.all(np.isfinite(rhs)):
                    ctx.violation(f"tvd:{cname}:{name}:nonfinite", f"TVD correction with '{name}' on {cname} is not finite",
                                  {"limiter": name, "grid": cname, "faces": [x.tolist() for x in faces], "phi_with_ghosts": f.tolist()})
                    break
    ctx.add_cases("impl_probe", n_eval, [f"probe:{n}" for n in NAMES], dist={"probe_evaluations": n_eval})


def run(ctx):
    import pyfvtool as pf
    ctx.rule = ("limiters suite: every (name, r) with r from special rationals, a seeded grid over [-1e3,1e3] and powers of ten to 1e+-100; "
                "non-trivial = r != 0, distinct by (name, r). impl_probe: direct evaluation of the property's observables on the real code")
    ctx.extra_trusted = ["translator tools/tr_limiters.py (symbolic tracing of the executed code, fail closed; Python float literals taken exactly)",
                         "numpy elementwise semantics of + - * / abs minimum maximum and of boolean factors",
                         "binary64 level: Coq's primitive floats (kernel implementation of IEEE 754 binary64, evaluated by vm_compute) and the standard "
                         "library's specification of them (Coq.Floats.FloatAxioms: add_spec, mul_spec, ... as listed by Print Assumptions), Flocq 's "
                         "Binary / PrimFloat theory; the order of operations of the regenerated definitions is the traced order of the Python code"]
    ctx.prove("C13")
    # how the code FORMS the gradient ratios of the TVD correction (a / _fsign(x) with x a face gradient, then FL(.)) is traced
    # symbolically and proved equal to the model's: that is what makes C13_fsign_ratio_bounded / C13_total statements about the code
    from suites import symsuite
    from common import run_suites
    run_suites(ctx, ["symbolic"], runner=symsuite.run_suite, relevant=symsuite.relevant_for(['tvd', 'tvdfsarg']))
    try:
        suite_limiters(ctx, pf)
    except Exception:
        ctx.broke("correspondence", "limiters/harness", traceback.format_exc()[-1200:])
    try:
        suite_limiters_f64(ctx, pf)
    except Exception:
        ctx.broke("correspondence", "limiters_f64/harness", traceback.format_exc()[-1200:])
    try:
        search(ctx, pf)
        import reprprobes
        n2 = reprprobes.extra_c13(ctx, pf)     # the zero guard at its exact thresholds
        ctx.add_cases("impl_probe", n2, [f"threshold{i}" for i in range(min(n2, 20))])
    except Exception:
        ctx.broke("correspondence", "impl_probe/harness", traceback.format_exc()[-1200:])


def replay(path):
    import pyfvtool as pf
    r = json.load(open(path))
    print(json.dumps(r, indent=1)[:3000])
    rp = r.get("replay", {})
    if "name" in rp and "r" in rp:
        v = pf.fluxLimiter(rp["name"])(np.float64(rp["r"]))
        print("now:", rp["name"], rp["r"], "->", v, "published:", PUB.get(rp["name"], lambda x: None)(rp["r"]))
    return 0
