(* Structured grids of PyFVTool: axes, the 9 grid classes, metric weights, cell volumes.
   Generic over the scalar field F.  Cell numbering follows the code: along each active axis
   index 0 and N+1 are ghost cells, 1..N interior; faces are numbered 0..N, face f lies between
   cells f and f+1. *)
From Coq Require Import Arith List Bool.
From PFV Require Import OField KOps.
Import ListNotations.

Inductive axis := AX | AY | AZ.
Definition cell := (nat * nat * nat)%type.
Definition cidx (a : axis) (c : cell) : nat :=
  match a, c with AX, (i, _, _) => i | AY, (_, j, _) => j | AZ, (_, _, k) => k end.
Definition cset (a : axis) (c : cell) (n : nat) : cell :=
  match a, c with AX, (_, j, k) => (n, j, k) | AY, (i, _, k) => (i, n, k) | AZ, (i, j, _) => (i, j, n) end.
Definition cup (a : axis) (c : cell) : cell := cset a c (S (cidx a c)).
Definition cdn (a : axis) (c : cell) : cell := cset a c (pred (cidx a c)).
Definition axis_eqb (a b : axis) : bool :=
  match a, b with AX, AX | AY, AY | AZ, AZ => true | _, _ => false end.

Inductive gclass := G1 | C1 | S1 | G2 | C2 | P2 | G3 | C3 | S3.
Definition gdim (g : gclass) : nat :=
  match g with G1 | C1 | S1 => 1 | G2 | C2 | P2 => 2 | G3 | C3 | S3 => 3 end.
Definition axes_of (g : gclass) : list axis :=
  match gdim g with 1 => [AX] | 2 => [AX; AY] | _ => [AX; AY; AZ] end.
Definition all_classes : list gclass := [G1; C1; S1; G2; C2; P2; G3; C3; S3].

Section Grid.
Variable F : FieldOps.
Local Notation K := (K F).
Local Notation "0" := (k0 F).
Local Notation "1" := (k1 F).
Local Infix "+" := (kadd F).
Local Infix "*" := (kmul F).
Local Infix "-" := (ksub F).
Local Infix "/" := (kdiv F).
Local Notation two := (kadd F (k1 F) (k1 F)).
Local Notation three := (kadd F (k1 F) (kadd F (k1 F) (k1 F))).

(* one coordinate axis *)
Record Axis := mkAxis { aN : nat; axf : nat -> K }.
Definition aDX (a : Axis) (p : nat) : K :=
  if Nat.eqb p 0 then axf a 1%nat - axf a 0%nat
  else if Nat.ltb (aN a) p then axf a (aN a) - axf a (pred (aN a))
  else axf a p - axf a (pred p).
Definition axc (a : Axis) (p : nat) : K := (axf a p + axf a (pred p)) / two.
Definition adxf (a : Axis) (f : nat) : K := (aDX a f + aDX a (S f)) / two.

(* a mesh: class, three axes (unused ones are ignored), and the numbers standing for
   pi, sin(theta_p j), sin(theta_f j).  No theorem about the discrete operators depends on
   a trigonometric identity, so these are parameters. *)
Record Mesh := mkMesh {
  mcls : gclass;
  max : axis -> Axis;
  mpi : K;
  msinp : nat -> K;
  msinf : nat -> K
}.
Definition mN (m : Mesh) (a : axis) : nat := aN (max m a).
Definition mDX (m : Mesh) (a : axis) (p : nat) : K := aDX (max m a) p.
Definition mdxf (m : Mesh) (a : axis) (f : nat) : K := adxf (max m a) f.
Definition mrf (m : Mesh) (f : nat) : K := axf (max m AX) f.
Definition mrp (m : Mesh) (p : nat) : K := axc (max m AX) p.

(* face weight A, cell weight W, transverse factor: see DESIGN.md section 3 *)
Definition mA (m : Mesh) (a : axis) (f : nat) : K :=
  match mcls m, a with
  | (C1 | C2 | P2 | C3), AX => mrf m f
  | (S1 | S3), AX => mrf m f * mrf m f
  | S3, AY => msinf m f
  | _, _ => 1
  end.
Definition mW (m : Mesh) (a : axis) (p : nat) : K :=
  match mcls m, a with
  | (C1 | C2 | P2 | C3), AX => mrp m p * mDX m AX p
  | S1, AX => (mrf m p * mrf m p * mrf m p - mrf m (pred p) * mrf m (pred p) * mrf m (pred p)) / three
  | S3, AX => mrp m p * mrp m p * mDX m AX p
  | S3, AY => msinp m p * mDX m AY p
  | _, _ => mDX m a p
  end.
Definition mfac (m : Mesh) (a : axis) (c : cell) : K :=
  match mcls m, a with
  | (P2 | C3 | S3), AY => 1 / mrp m (cidx AX c)
  | S3, AZ => 1 / (mrp m (cidx AX c) * msinp m (cidx AY c))
  | _, _ => 1
  end.

(* cell volume exactly as coded in mesh._getCellVolumes (np.abs dropped: faces increase) *)
Definition r2diff (m : Mesh) (i : nat) : K := mrf m i * mrf m i - mrf m (pred i) * mrf m (pred i).
Definition r3diff (m : Mesh) (i : nat) : K :=
  mrf m i * mrf m i * mrf m i - mrf m (pred i) * mrf m (pred i) * mrf m (pred i).
Definition four := two * two.
Definition mvol (m : Mesh) (c : cell) : K :=
  let '(i, j, k) := c in
  match mcls m with
  | G1 => mDX m AX i
  | C1 => mpi m * r2diff m i
  | S1 => four / three * mpi m * r3diff m i
  | G2 => mDX m AX i * mDX m AY j
  | C2 => mpi m * r2diff m i * mDX m AY j
  | P2 => mDX m AY j / (two * mpi m) * (mpi m * r2diff m i)
  | G3 => mDX m AX i * mDX m AY j * mDX m AZ k
  | C3 => mDX m AY j / (two * mpi m) * (mpi m * r2diff m i * mDX m AZ k)
  | S3 => four / three * mpi m * r3diff m i * (mDX m AY j / mpi m) * (mDX m AZ k / (two * mpi m))
  end.
(* the measure with respect to which the SphericalGrid3D operators are in flux form *)
Definition mvol_mid (m : Mesh) (c : cell) : K :=
  let '(i, j, k) := c in
  match mcls m with
  | S3 => mrp m i * mrp m i * msinp m j * mDX m AX i * mDX m AY j * mDX m AZ k
  | _ => mvol m c
  end.

Definition active (m : Mesh) (a : axis) : bool :=
  match a with AX => true | AY => Nat.leb 2 (gdim (mcls m)) | AZ => Nat.leb 3 (gdim (mcls m)) end.
Definition interior (m : Mesh) (c : cell) : bool :=
  forallb (fun a => Nat.leb 1 (cidx a c) && Nat.leb (cidx a c) (mN m a)) (axes_of (mcls m)).

(* row-major (C order) numbering of cells incl. ghosts, as MeshStructure.cell_numbers *)
Definition cellno (m : Mesh) (c : cell) : nat :=
  let '(i, j, k) := c in
  match gdim (mcls m) with
  | 1 => i
  | 2 => (i * (mN m AY + 2) + j)%nat
  | _ => ((i * (mN m AY + 2) + j) * (mN m AZ + 2) + k)%nat
  end.
Definition cell_of_no (m : Mesh) (r : nat) : cell :=
  match gdim (mcls m) with
  | 1 => (r, 0, 0)%nat
  | 2 => (Nat.div r (mN m AY + 2), Nat.modulo r (mN m AY + 2), 0)%nat
  | _ => let q := Nat.div r (mN m AZ + 2) in
         (Nat.div q (mN m AY + 2), Nat.modulo q (mN m AY + 2), Nat.modulo r (mN m AZ + 2))
  end.
Definition ncells (m : Mesh) : nat :=
  fold_left (fun acc a => (acc * (mN m a + 2))%nat) (axes_of (mcls m)) 1%nat.

(* interior cells in row-major order *)
Definition range1 (n : nat) : list nat := seq 1 n.
Definition interior_cells (m : Mesh) : list cell :=
  match gdim (mcls m) with
  | 1 => map (fun i => (i, 0, 0)%nat) (range1 (mN m AX))
  | 2 => flat_map (fun i => map (fun j => (i, j, 0)%nat) (range1 (mN m AY))) (range1 (mN m AX))
  | _ => flat_map (fun i => flat_map (fun j => map (fun k => (i, j, k)) (range1 (mN m AZ)))
                                     (range1 (mN m AY))) (range1 (mN m AX))
  end.
End Grid.
