(* C16 / C05: finite facts about the dispatch and error-branch structure REGENERATED from the source. *)
From Coq Require Import String List Bool Arith.
From PFV Require Import Grid Dispatch.
Import ListNotations.

Definition radial_class (g : gclass) : bool := match g with G1 | G2 | G3 => false | _ => true end.
Definition radial_axis (g : gclass) (a : axis) : bool := match a with AX => radial_class g | _ => false end.

(* periodic flags on a radial boundary raise ValueError in the boundary-term builder of the class; no other
   periodic flag does *)
Theorem radial_periodic_ok : forall g a, periodic_raises_valueerror g a = radial_axis g a.
Proof. intros g a. destruct g, a; reflexivity. Qed.

(* classification of the elements of eqnterms by solvePDE *)
Inductive tkind :=
| KTuple2 (ndM ndR : option nat)   (* 2-tuple; ndim of each component, None = no ndim attribute *)
| KTupleN (n : nat)                (* tuple of length n <> 2 *)
| KObj (nd : option nat).          (* anything else; its ndim if it has one *)
Inductive outcome := Accept | TypeErr | ValueErr | AttrErr.
Definition opt_eqb (o : option nat) (n : nat) : bool := match o with Some k => Nat.eqb k n | None => false end.
Definition classify (k : tkind) : outcome :=
  match k with
  | KTupleN n => if solve_tuple_len_check then TypeErr else ValueErr    (* unpacking a wrong-length tuple raises ValueError *)
  | KTuple2 a b =>
      match a, b with
      | Some _, Some _ => if opt_eqb a 2 && opt_eqb b 1 then Accept else TypeErr
      | _, _ => if solve_tuple_ndim_check then TypeErr else AttrErr
      end
  | KObj None => if solve_ndim_guard then TypeErr else AttrErr
  | KObj (Some n) =>
      if solve_ndim1 && Nat.eqb n 1 then Accept
      else if solve_ndim2 && Nat.eqb n 2 then Accept
      else if solve_else_typeerror then TypeErr else Accept
  end.
Definition conforming (k : tkind) : bool :=
  match k with
  | KTuple2 a b => opt_eqb a 2 && opt_eqb b 1
  | KTupleN _ => false
  | KObj o => opt_eqb o 1 || opt_eqb o 2
  end.
Theorem terms_ok : forall k, classify k = if conforming k then Accept else TypeErr.
Proof.
  intros k. unfold classify, conforming, opt_eqb.
  unfold solve_tuple_len_check, solve_tuple_ndim_check, solve_ndim_guard, solve_ndim1, solve_ndim2, solve_else_typeerror.
  destruct k as [a b|n|o].
  - destruct a as [x|], b as [y|]; cbn [andb]; try reflexivity.
    destruct (Nat.eqb x 2); reflexivity.
  - reflexivity.
  - destruct o as [n|]; [|reflexivity].
    destruct n as [|[|[|n]]]; reflexivity.
Qed.

(* every per-class dispatcher covers the nine classes; convectionUpwindTerm and the TVD term forward *args *)
Theorem upwind_forwards_args : forall g, snd (disp_convectionUpwindTerm g) = true /\ snd (disp_convectionTVDupwindRHSTerm g) = true.
Proof. intros g. destruct g; split; reflexivity. Qed.

(* C14: every arithmetic / logical operator is defined together with its reflected form (scalar on either side);
   comparisons need no reflected method (Python swaps to the mirrored comparison); unary minus and abs exist *)
Open Scope string_scope.
Definition binary_ops : list string := ["add"; "sub"; "mul"; "truediv"; "pow"; "and"; "or"].
Definition comparison_ops : list string := ["gt"; "ge"; "lt"; "le"].
Definition sin (x : string) (l : list string) : bool := existsb (String.eqb x) l.
Definition ops_complete (tbl : list string) : bool :=
  forallb (fun o => sin ("__" ++ o ++ "__") tbl && sin ("__r" ++ o ++ "__") tbl) binary_ops
  && forallb (fun o => sin ("__" ++ o ++ "__") tbl) comparison_ops
  && sin "__neg__" tbl && sin "__abs__" tbl.
Theorem operators_complete : ops_complete cell_dunders = true /\ ops_complete face_dunders = true.
Proof. split; vm_compute; reflexivity. Qed.
