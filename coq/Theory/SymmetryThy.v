(* C08: redundant axes. On a field that does not vary along an axis, the block of that axis of every matrix term reduces to
   (field value) * (discrete divergence of the velocity along that axis) -- zero for diffusion -- so a solution of the reduced
   problem, extruded, solves the higher-dimensional one.  Generic field. *)
From Coq Require Import Arith List Bool Field Lia.
From PFV Require Import OField KOps Grid Ops StencilThy.

Section Symmetry.
Variable F : FieldOps.
Variable L : FieldLaws F.
Add Field FFsy : (FL_field F L).
Local Notation K := (K F).
Local Notation "0" := (k0 F).
Local Infix "+" := (kadd F).
Local Infix "*" := (kmul F).
Local Infix "-" := (ksub F).
Local Infix "/" := (kdiv F).
Local Notation two := (kadd F (k1 F) (k1 F)).
Local Notation Mesh := (Mesh F).

Definition constant_along (x : cvar F) (a : axis) (c : cell) : Prop := x (cdn a c) = x c /\ x (cup a c) = x c.

Theorem diffusion_block_vanishes (m : Mesh) (D : fvar F) (x : cvar F) a c :
  constant_along x a c -> apply_axis F (diffAW F m D) (diffAP F m D) (diffAE F m D) x a c = 0.
Proof. intros [E1 E2]. unfold apply_axis, diffAP. rewrite E1, E2. ring. Qed.

(* the TVD correction along an axis on which the field does not vary is zero, whatever the limiter and the guard *)
Theorem tvd_block_vanishes (fsgn FLm : K -> K) (m : Mesh) (u uup : fvar F) (x : cvar F) a c :
  constant_along x a c -> 1 <= cidx a c -> tvdrow F fsgn FLm m u uup x a c = 0.
Proof.
  intros [E1 E2] Hi. unfold tvdrow, divrow, tvdflux, psi_p, psi_m.
  rewrite (cup_cdn a c Hi), E1, E2.
  destruct (Nat.eqb (cidx a c) 0), (Nat.eqb (cidx a c) (mN F m a)), (Nat.eqb (cidx a (cdn a c)) 0), (Nat.eqb (cidx a (cdn a c)) (mN F m a)); ring.
Qed.

Theorem central_block_on_invariant_field (m : Mesh) (u : fvar F) (x : cvar F) a c :
  constant_along x a c -> 1 <= cidx a c ->
  mW F m a (cidx a c) <> 0 -> mDX F m a (cidx a c) <> 0 ->
  mDX F m a (cidx a c) + mDX F m a (S (cidx a c)) <> 0 ->
  mDX F m a (cidx a c) + mDX F m a (pred (cidx a c)) <> 0 ->
  apply_axis F (cenAW F m u) (cenAP F m u) (cenAE F m u) x a c = x c * divrow F m u a c.
Proof.
  intros [E1 E2] Hi HW HDX He Hw. unfold apply_axis. rewrite E1, E2.
  unfold cenAP, cenAE, cenAW, cenE, cenW, divrow. field. repeat split; auto.
Qed.

Theorem upwind_block_on_invariant_field (m : Mesh) (u uup : fvar F) (x : cvar F) a c :
  constant_along x a c -> 1 <= cidx a c -> cidx a c <= mN F m a -> mW F m a (cidx a c) <> 0 ->
  (uup a c = 0 -> u a c = 0) -> (uup a (cdn a c) = 0 -> u a (cdn a c) = 0) ->
  apply_axis F (upwAW F m u uup) (upwAP F m u uup) (upwAE F m u uup) x a c = x c * divrow F m u a c.
Proof.
  intros [E1 E2] Hi HN HW Hz1 Hz2.
  transitivity (apply_axis F (upwAW F m u uup) (upwAP F m u uup) (upwAE F m u uup) (fun _ => x c) a c).
  - unfold apply_axis. rewrite E1, E2. reflexivity.
  - apply (upwind_of_constant F L); assumption.
Qed.

(* if moreover the velocity data do not vary along the axis (equal face weights times velocity on the two faces of the cell),
   the whole block vanishes *)
Theorem divrow_of_invariant_velocity (m : Mesh) (u : fvar F) a c :
  kmul F (mA F m a (cidx a c)) (u a c) = kmul F (mA F m a (pred (cidx a c))) (u a (cdn a c)) ->
  divrow F m u a c = 0.
Proof. intros E. unfold divrow. rewrite E. ring. Qed.
End Symmetry.
