(* C04 — solvePDE solves exactly the system its term list and BCs define, in place.
   is_solution (Model/Solver.v): term rows on interior cells only, boundary rows on the others; the suite
   `solve` evaluates this model system at the real solver's answer for random term lists. *)
From Coq Require Import Arith List Permutation.
From PFV Require Import OField KOps Grid Ops Boundary Solver StencilThy SolverThy.

Theorem C04_order_irrelevant : forall (F : FieldOps) (L : FieldLaws F) (m : Mesh F) (bc : BCs F) (ts ts' : list (term F)) (x : cvar F),
  Permutation ts ts' -> is_solution F m bc ts x -> is_solution F m bc ts' x.
Proof. exact solution_perm. Qed.
Print Assumptions C04_order_irrelevant.

Theorem C04_linear_in_unknown : forall (F : FieldOps) (L : FieldLaws F) (m : Mesh F) (ts : list (term F)) (k : F) (x y : cvar F) c,
  sys_lhs F m ts (lincomb F k x y) c = kadd F (kmul F k (sys_lhs F m ts x c)) (sys_lhs F m ts y c).
Proof. exact sys_lhs_lin. Qed.
Print Assumptions C04_linear_in_unknown.

Theorem C04_superposition : forall (F : FieldOps) (L : FieldLaws F) (m : Mesh F) (bc : BCs F) (ts : list (term F)) (k : F)
    (x y : cvar F) (r1 r2 b1 b2 : cell -> F),
  (forall c, interior F m c = true -> sys_lhs F m ts x c = r1 c) ->
  (forall c, interior F m c = true -> sys_lhs F m ts y c = r2 c) ->
  (forall g, interior F m g = false -> bc_lhs F m bc x g = b1 g) ->
  (forall g, interior F m g = false -> bc_lhs F m bc y g = b2 g) ->
  (forall c, interior F m c = true -> sys_lhs F m ts (lincomb F k x y) c = kadd F (kmul F k (r1 c)) (r2 c)) /\
  (forall g, interior F m g = false -> bc_lhs F m bc (lincomb F k x y) g = kadd F (kmul F k (b1 g)) (b2 g)).
Proof. exact superposition. Qed.
Print Assumptions C04_superposition.

(* terms never contribute to boundary equations: the boundary part of is_solution does not mention ts *)
Theorem C04_terms_interior_only : forall (F : FieldOps) (m : Mesh F) (bc : BCs F) (ts ts' : list (term F)) (x : cvar F),
  is_solution F m bc ts x ->
  forall g, interior F m g = false -> in_range F m g -> bc_lhs F m bc x g = bc_rhs F m bc g.
Proof. intros F m bc ts ts' x [_ H] g Hg Hr. exact (H g Hg Hr). Qed.
Print Assumptions C04_terms_interior_only.

(* uniqueness for the transient / diffusion / upwind (divergence-free) / sink systems of C07: the solution the solver returns is
   THE solution (over R; ghost cells tied to their inner neighbours by Dirichlet or no-flux rows) *)
From Coq Require Import Reals.
From PFV Require Import ConservThy MaxPrincipleThy MaxPrincipleModel.
Local Open Scope R_scope.
Theorem C04_unique_if_dominant : forall (m : Mesh ROps) (D u : fvar ROps) (x y alpha beta old : cvar ROps) (dt : R) (cells : list cell),
  cells <> nil ->
  (forall c a, In c cells -> In a (active_axes ROps m) -> (1 <= cidx a c <= mN ROps m a)%nat /\ signs_ok m D c a) ->
  (forall c, In c cells -> alpha c / dt * (x c - old c) + rsuml (fun a => axis_term m D u x a c) (active_axes ROps m) + beta c * x c = 0) ->
  (forall c, In c cells -> alpha c / dt * (y c - old c) + rsuml (fun a => axis_term m D u y a c) (active_axes ROps m) + beta c * y c = 0) ->
  (forall c, In c cells -> rsuml (fun a => divrow ROps m u a c) (active_axes ROps m) = 0) ->
  (forall c, In c cells -> 0 < alpha c /\ 0 <= beta c) -> 0 < dt ->
  (forall c a, In c cells -> In a (active_axes ROps m) ->
     (In (cdn a c) cells \/ (x (cdn a c) - y (cdn a c) = x c - y c \/ x (cdn a c) - y (cdn a c) = - (x c - y c))) /\
     (In (cup a c) cells \/ (x (cup a c) - y (cup a c) = x c - y c \/ x (cup a c) - y (cup a c) = - (x c - y c)))) ->
  forall c, In c cells -> x c = y c.
Proof. exact solution_unique. Qed.
Print Assumptions C04_unique_if_dominant.

From Coq Require Import Reals.
From PFV Require Import Boundary Solver MaxPrincipleThy MaxPrincipleModel ComparisonThy.

(* uniqueness for every closure the comparison principle covers (Dirichlet, no-flux, Robin of one sign, periodic images) *)
Theorem C04_unique_general : forall (m : Mesh ROps) (D u : fvar ROps) (kap x y f : cvar ROps) (cells : list cell),
  cells <> nil ->
  (forall c a, In c cells -> In a (active_axes ROps m) -> (1 <= cidx a c <= mN ROps m a)%nat /\ signs_ok m D c a) ->
  (forall c, In c cells -> Lrow m D u kap x c = f c) ->
  (forall c, In c cells -> Lrow m D u kap y c = f c) ->
  (forall c, In c cells -> rsuml (fun a => divrow ROps m u a c) (active_axes ROps m) = 0) ->
  (forall c, In c cells -> 0 < kap c) ->
  (forall c a, In c cells -> In a (active_axes ROps m) ->
     nb_homog cells (fun c => x c - y c) c (cdn a c) /\ nb_homog cells (fun c => x c - y c) c (cup a c)) ->
  forall c, In c cells -> x c = y c.
Proof. exact unique_general. Qed.
Print Assumptions C04_unique_general.

(* ---- and directly for solutions of the assembled system (Theory/ClosureThy.v): the closure hypotheses are DERIVED from the boundary
   rows of is_solution (cell numbering round trip, classification of the neighbours of interior cells, the Robin row algebra), so the
   hypotheses are about the data only: mesh and coefficient signs, discretely divergence-free u, non-periodic boundary conditions whose
   ghost coefficient b/2 +- a/h is non-zero and has the sign of b (Dirichlet, Neumann, Robin with a, b of one sign) ---- *)
From PFV Require Import ClosureThy.
Theorem C04_solution_is_unique : forall (m : Mesh ROps) (bc : BCs ROps) (D u : fvar ROps),
  interior_cells ROps m <> nil ->
  (forall c a, In c (interior_cells ROps m) -> In a (active_axes ROps m) -> (1 <= cidx a c <= mN ROps m a)%nat /\ signs_ok m D c a) ->
  (forall c, In c (interior_cells ROps m) -> rsuml (fun a => divrow ROps m u a c) (active_axes ROps m) = 0%R) ->
  bc_sign_ok m bc ->
  forall (alpha beta s old x y : cvar ROps) (dt : R),
  (0 < dt)%R -> (forall c, In c (interior_cells ROps m) -> (0 < alpha c)%R /\ (0 <= beta c)%R) ->
  is_solution ROps m bc (tlist D u alpha beta s old dt) x -> is_solution ROps m bc (tlist D u alpha beta s old dt) y ->
  forall c, In c (interior_cells ROps m) -> x c = y c.
Proof. exact solution_is_unique. Qed.
Print Assumptions C04_solution_is_unique.
