(* Coordinate systems of the nine grid classes (hand-written reference): which labels exist and which
   internal slot (0,1,2 = first, second, third axis) each one names. *)
From Coq Require Import String List Arith.
From PFV Require Import Grid.
Import ListNotations.
Open Scope string_scope.
Definition coord_system (g : gclass) : list string :=
  match g with
  | G1 => ["x"] | C1 => ["r"] | S1 => ["r"]
  | G2 => ["x"; "y"] | C2 => ["r"; "z"] | P2 => ["r"; "theta"]
  | G3 => ["x"; "y"; "z"] | C3 => ["r"; "theta"; "z"] | S3 => ["r"; "theta"; "phi"]
  end.
Definition all_labels : list string := ["x"; "y"; "z"; "r"; "theta"; "phi"].
Fixpoint index_of (s : string) (l : list string) : option nat :=
  match l with [] => None | x :: l' => if String.eqb s x then Some 0 else option_map S (index_of s l') end.
