(* C01 — Closed systems conserve the domain integral (interior face fluxes cancel).
   sum_cells m (fun c => V c * term c) is what domainIntegral() of (M phi) computes; boundary_flux sums,
   over the boundary faces only, (transverse measure) * (face weight) * (face flux). *)
From Coq Require Import Arith List ZArith QArith Qcanon.
From PFV Require Import OField KOps Grid Ops StencilThy ConservThy MeasureThy TermsThy Examples.

(* the coded cellvolume is a flux-form measure on the eight classes other than SphericalGrid3D ... *)
Theorem C01_cellvolume_is_flux_measure : forall (F : FieldOps) (L : FieldLaws F) (m : Mesh F) a,
  mesh_ok F m -> In a (active_axes F m) -> mcls F m <> S3 -> measure_ok F m (mvol F m) (mT F m) a.
Proof. exact measure_ok_class. Qed.
Print Assumptions C01_cellvolume_is_flux_measure.
(* ... and on SphericalGrid3D the operators conserve the midpoint measure r_p^2 sin(theta_p) dr dtheta dphi *)
Theorem C01_S3_midpoint_measure : forall (F : FieldOps) (L : FieldLaws F) (m : Mesh F) a,
  mesh_ok F m -> mcls F m = S3 -> measure_ok F m (mvol_mid F m) (mT F m) a.
Proof. exact measure_ok_S3_mid. Qed.
Print Assumptions C01_S3_midpoint_measure.

(* interior faces cancel exactly: for ANY face flux field, any N, any spacing *)
Theorem C01_divergence : forall (F : FieldOps) (L : FieldLaws F) (m : Mesh F) V T,
  (forall a, In a (active_axes F m) -> measure_ok F m V T a) ->
  forall Fl, sum_cells F m (fun c => kmul F (V c) (divergence F m Fl c)) = boundary_flux F m T Fl.
Proof. exact divergence_term_conserved. Qed.
Print Assumptions C01_divergence.

Theorem C01_diffusion : forall (F : FieldOps) (L : FieldLaws F) (m : Mesh F) V T,
  (forall a, In a (active_axes F m) -> measure_ok F m V T a) -> stencil_ok F m ->
  forall D phi, sum_cells F m (fun c => kmul F (V c) (apply_stencil F m (diffAW F m D) (diffAP F m D) (diffAE F m D) phi c))
              = boundary_flux F m T (fmul F D (gradient F m phi)).
Proof. exact diffusion_term_conserved. Qed.
Print Assumptions C01_diffusion.

Theorem C01_central : forall (F : FieldOps) (L : FieldLaws F) (m : Mesh F) V T,
  (forall a, In a (active_axes F m) -> measure_ok F m V T a) -> stencil_ok F m ->
  forall u phi, sum_cells F m (fun c => kmul F (V c) (apply_stencil F m (cenAW F m u) (cenAP F m u) (cenAE F m u) phi c))
              = boundary_flux F m T (fmul F u (linmean F m phi)).
Proof. exact central_term_conserved. Qed.
Print Assumptions C01_central.

Theorem C01_upwind : forall (F : FieldOps) (L : FieldLaws F) (m : Mesh F) V T,
  (forall a, In a (active_axes F m) -> measure_ok F m V T a) -> stencil_ok F m ->
  forall u uup phi, sum_cells F m (fun c => kmul F (V c) (apply_stencil F m (upwAW F m u uup) (upwAP F m u uup) (upwAE F m u uup) phi c))
              = boundary_flux F m T (upwflux F m u uup phi).
Proof. exact upwind_term_conserved. Qed.
Print Assumptions C01_upwind.

Theorem C01_tvd : forall (F : FieldOps) (L : FieldLaws F) (m : Mesh F) V T,
  (forall a, In a (active_axes F m) -> measure_ok F m V T a) ->
  forall fsgn FLm u uup phi, sum_cells F m (fun c => kmul F (V c) (tvdrhs F fsgn FLm m u uup phi c))
              = kopp F (boundary_flux F m T (tvdflux F fsgn FLm m u uup phi)).
Proof. exact tvd_term_conserved. Qed.
Print Assumptions C01_tvd.

Example C01_nonvacuous : mesh_ok QcOps ex_C2 /\ stencil_ok QcOps ex_C2 /\ mesh_ok QcOps ex_S3.
Proof. split; [exact ex_C2_mesh_ok|split; [exact ex_C2_stencil_ok|exact ex_S3_mesh_ok]]. Qed.

(* ---- solver steps ---- *)
From PFV Require Import Boundary Solver SolverThy BalanceThy.
(* open-boundary balance of one implicit step (any scaling of the three flux-form terms, any alpha, dt) *)
Theorem C01_implicit_step_balance : forall (F : FieldOps) (L : FieldLaws F) (m : Mesh F) V T,
  (forall a, In a (active_axes F m) -> measure_ok F m V T a) -> stencil_ok F m ->
  forall (bc : BCs F) alpha (dt : F) old x (sD sC sU : F) D u1 u2 uup,
  dt <> k0 F ->
  is_solution F m bc (TTrans F alpha dt old :: TDiff F sD D :: TCen F sC u1 :: TUpw F sU u2 uup :: nil) x ->
  kadd F (kadd F (kadd F (sum_cells F m (fun c => kmul F (V c) (kdiv F (kmul F (alpha c) (ksub F (x c) (old c))) dt)))
                         (kmul F sD (boundary_flux F m T (fmul F D (gradient F m x)))))
                 (kmul F sC (boundary_flux F m T (fmul F u1 (linmean F m x)))))
         (kmul F sU (boundary_flux F m T (upwflux F m u2 uup x))) = k0 F.
Proof. exact implicit_step_balance. Qed.
Print Assumptions C01_implicit_step_balance.

Theorem C01_implicit_step_closed : forall (F : FieldOps) (L : FieldLaws F) (m : Mesh F) V T,
  (forall a, In a (active_axes F m) -> measure_ok F m V T a) -> stencil_ok F m ->
  forall (bc : BCs F) alpha (dt : F) old x (sD sC sU : F) D u1 u2 uup,
  dt <> k0 F ->
  is_solution F m bc (TTrans F alpha dt old :: TDiff F sD D :: TCen F sC u1 :: TUpw F sU u2 uup :: nil) x ->
  boundary_flux F m T (fmul F D (gradient F m x)) = k0 F ->
  boundary_flux F m T (fmul F u1 (linmean F m x)) = k0 F ->
  boundary_flux F m T (upwflux F m u2 uup x) = k0 F ->
  sum_cells F m (fun c => kmul F (V c) (kmul F (alpha c) (x c))) = sum_cells F m (fun c => kmul F (V c) (kmul F (alpha c) (old c))).
Proof. exact implicit_step_closed. Qed.
Print Assumptions C01_implicit_step_closed.

Theorem C01_explicit_step_balance : forall (F : FieldOps) (L : FieldLaws F) (m : Mesh F) V T,
  (forall a, In a (active_axes F m) -> measure_ok F m V T a) ->
  forall (bc : BCs F) old (dt : F) (Fl : fvar F),
  sum_cells F m (fun c => kmul F (V c) (explicit_step F m bc old dt (fun c => kopp F (divergence F m Fl c)) c))
  = ksub F (sum_cells F m (fun c => kmul F (V c) (old c))) (kmul F dt (boundary_flux F m T Fl)).
Proof. exact explicit_step_balance. Qed.
Print Assumptions C01_explicit_step_balance.

(* known finding: across a periodic boundary the upwind flux through the two copies of the periodic face differs
   (face-average treatment of inflow boundary faces), so the boundary fluxes do not cancel: witness at Qc,
   Grid1D with 3 unit cells, u = 1, phi = (1,2,4) with wrap-copied ghost cells *)
Definition ex_G1 : Mesh QcOps :=
  Exec.mk_mesh G1 (CorrLib.qc 0 1 :: CorrLib.qc 1 1 :: CorrLib.qc 2 1 :: CorrLib.qc 3 1 :: nil) nil nil (CorrLib.qc 355 113) nil nil.
Definition ex_phi_wrap : cvar QcOps :=
  fun c => match fst (fst c) with 0%nat => CorrLib.qc 4 1 | 1%nat => CorrLib.qc 1 1 | 2%nat => CorrLib.qc 2 1 | 3%nat => CorrLib.qc 4 1 | _ => CorrLib.qc 1 1 end.
Theorem C01_upwind_periodic_refuted :
  boundary_flux QcOps ex_G1 (mT QcOps ex_G1) (upwflux QcOps ex_G1 (fun _ _ => CorrLib.qc 1 1) (fun _ _ => CorrLib.qc 1 1) ex_phi_wrap)
  <> k0 QcOps.
Proof. apply qc_neq. vm_compute. reflexivity. Qed.
Print Assumptions C01_upwind_periodic_refuted.

(* ---- closed systems, ANY number of steps (Theory/ClosedThy.v).  The closure hypotheses are what the boundary rows impose on the
   stored ghost cells: no-flux rows give ghost = adjacent cell (C07_noflux_ghost), periodic rows/wrap give ghost = opposite end
   cell (C03_periodic_wrap).  Existence of the solutions xs (S k) is not part of the model (the sparse solver is not modelled). ---- *)
From PFV Require Import Boundary Solver BalanceThy ClosedThy.
Import ListNotations.
Theorem C01_boundary_flux_cancels : forall (F : FieldOps) (L : FieldLaws F) (m : Mesh F) (T : axis -> cell -> K F) (Fl : fvar F),
  faces_cancel F m Fl -> boundary_flux F m T Fl = k0 F.
Proof. exact boundary_flux_cancels. Qed.
Theorem C01_noflux_steps_conserve : forall (F : FieldOps) (L : FieldLaws F) (m : Mesh F) V T,
  (forall a, In a (active_axes F m) -> measure_ok F m V T a) -> stencil_ok F m ->
  forall (bc : BCs F) (alpha : cvar F) (dts : nat -> K F) (sD sC sU : K F) (D u : fvar F) (xs : nat -> cvar F),
  (forall k, dts k <> k0 F) ->
  (forall k, is_solution F m bc [TTrans F alpha (dts k) (xs k); TDiff F sD D; TCen F sC u; TUpw F sU u u] (xs (S k))) ->
  (forall k, noflux_closure F m (xs (S k))) -> wall_velocity_zero F m u ->
  forall k, sum_cells F m (fun c => kmul F (V c) (kmul F (alpha c) (xs k c)))
          = sum_cells F m (fun c => kmul F (V c) (kmul F (alpha c) (xs 0%nat c))).
Proof. exact noflux_steps_conserve. Qed.
Theorem C01_periodic_steps_conserve : forall (F : FieldOps) (L : FieldLaws F) (m : Mesh F) V T,
  (forall a, In a (active_axes F m) -> measure_ok F m V T a) -> stencil_ok F m ->
  (forall a, In a (active_axes F m) -> (1 <= mN F m a)%nat) ->
  forall (bc : BCs F) (alpha : cvar F) (dts : nat -> K F) (sD sC sU : K F) (D u : fvar F) (xs : nat -> cvar F),
  (forall k, dts k <> k0 F) ->
  (forall k, is_solution F m bc [TTrans F alpha (dts k) (xs k); TDiff F sD D; TCen F sC u;
                                 TUpw F sU (fun _ _ => k0 F) (fun _ _ => k0 F)] (xs (S k))) ->
  periodic_metric F m -> (forall k, periodic_closure F m (xs (S k))) -> periodic_coeff F m D -> periodic_coeff F m u ->
  forall k, sum_cells F m (fun c => kmul F (V c) (kmul F (alpha c) (xs k c)))
          = sum_cells F m (fun c => kmul F (V c) (kmul F (alpha c) (xs 0%nat c))).
Proof. exact periodic_steps_conserve. Qed.
Theorem C01_noflux_explicit_steps_conserve : forall (F : FieldOps) (L : FieldLaws F) (m : Mesh F) V T,
  (forall a, In a (active_axes F m) -> measure_ok F m V T a) ->
  forall (bc : BCs F) (dts : nat -> K F) (sD sC : K F) (D u : fvar F) (xs : nat -> cvar F),
  (forall k, xs (S k) = explicit_step F m bc (xs k) (dts k) (fun c => kopp F (divergence F m (flux_of F m sD sC D u (xs k)) c))) ->
  (forall k, noflux_closure F m (xs k)) -> wall_velocity_zero F m u ->
  forall k, sum_cells F m (fun c => kmul F (V c) (xs k c)) = sum_cells F m (fun c => kmul F (V c) (xs 0%nat c)).
Proof. exact noflux_explicit_steps_conserve. Qed.
Print Assumptions C01_noflux_steps_conserve.
Print Assumptions C01_periodic_steps_conserve.
Print Assumptions C01_noflux_explicit_steps_conserve.
