(* A first-order CONVERGENCE theorem for upwind advection-diffusion on a uniform Cartesian axis: consistency (Taylor remainders of
   TaylorThy / Taylor1Thy) x stability (comparison principle).  Grid1D, uniform spacing h, constant diffusivity d >= 0, constant face
   velocity uc <> 0 (either sign), kap = alpha/dt + beta >= k0 > 0, over a range of cells in which the upwind stencil has its
   interior form (the code halves the ghost-side coefficient in the first and the last cell), the closure of the error across the
   ends of the range given by `nb_homog`.  Then  max |x_i - f(xi_i)| <= (d max|f''''| h^2/12 + |uc| max|f''| h/2) / k0. *)
From Coq Require Import Reals Lra Lia List.
From Coquelicot Require Import Coquelicot.
From PFV Require Import OField KOps Grid Ops ExactnessThy StencilThy ConservThy MaxPrincipleThy MaxPrincipleModel ComparisonThy TaylorThy Taylor1Thy.
Import ListNotations.
Local Open Scope R_scope.

Theorem convergence_upwind_cartesian_1D (f : R -> R) (m : Mesh ROps) (D u : fvar ROps) (kap x : cvar ROps) (xi : cell -> R)
  (cells : list cell) (h d uc M4 M2 k0' : R) :
  mcls ROps m = G1 ->
  cells <> [] ->
  (forall c a, In c cells -> In a (active_axes ROps m) -> (1 <= cidx a c <= mN ROps m a)%nat /\ signs_ok m D c a) ->
  (forall a c, u a c = uc) -> uc <> 0 ->
  0 < h -> 0 <= d -> 0 < k0' -> (forall c, In c cells -> k0' <= kap c) ->
  (forall c, In c cells ->
     is_lo AX c = false /\ is_hi ROps m AX c = false /\
     mdxf ROps m AX (cidx AX c) = h /\ mdxf ROps m AX (pred (cidx AX c)) = h /\ mfac ROps m AX c = 1 /\
     mA ROps m AX (cidx AX c) = 1 /\ mA ROps m AX (pred (cidx AX c)) = 1 /\ mW ROps m AX (cidx AX c) = h /\
     D AX c = d /\ D AX (cdn AX c) = d) ->
  (forall t k, (k <= 4)%nat -> ex_derive_n f k t) ->
  (forall t, Rabs (Derive_n f 4 t) <= M4) -> (forall t, Rabs (Derive_n f 2 t) <= M2) ->
  (forall c, In c cells -> xi (cup AX c) = xi c + h /\ xi (cdn AX c) = xi c - h) ->
  (* the discrete equations: kap x - d Laplace_h x + uc Upwind_h x = kap f - d f'' + uc f'  in every cell of the range *)
  (forall c, In c cells -> Lrow m D u kap x c = kap c * f (xi c) - d * Derive_n f 2 (xi c) + uc * Derive_n f 1 (xi c)) ->
  (forall c a, In c cells -> In a (active_axes ROps m) ->
     nb_homog cells (fun c => x c - f (xi c)) c (cdn a c) /\ nb_homog cells (fun c => x c - f (xi c)) c (cup a c)) ->
  forall c, In c cells -> Rabs (x c - f (xi c)) <= (d * (M4 * (h * h) / 12) + Rabs uc * (M2 * h / 2)) / k0'.
Proof.
  intros Hcls Hne Hcells Hu Hu0 Hh Hd Hk Hkap Huni Sm HM4 HM2 Hxi Hrow Hnb c Hc.
  set (e := fun c => f (xi c)).
  set (s := fun c => kap c * f (xi c) - d * Derive_n f 2 (xi c) + uc * Derive_n f 1 (xi c)).
  assert (Hdiv : forall c, In c cells -> rsuml (fun a => divrow ROps m u a c) (active_axes ROps m) = 0).
  { intros c0 Hc0. destruct (Huni c0 Hc0) as (_ & _ & _ & _ & Hf & HA1 & HA0 & HW & _).
    unfold active_axes. rewrite Hcls. cbn [axes_of gdim map fold_right rsuml]. unfold rsuml. cbn [map fold_right].
    unfold divrow. rewrite !Hu, Hf, HA1, HA0, HW.
    cbn [kadd kmul ksub kdiv ROps k0 k1 K]. field. lra. }
  assert (MB4 : 0 <= M4) by (eapply Rle_trans; [apply Rabs_pos|apply (HM4 0)]).
  assert (MB2 : 0 <= M2) by (eapply Rle_trans; [apply Rabs_pos|apply (HM2 0)]).
  apply (error_bounded_by_truncation m D u cells Hne Hcells Hdiv kap s x e (fun c => Lrow m D u kap e c - s c)
           (d * (M4 * (h * h) / 12) + Rabs uc * (M2 * h / 2)) k0').
  - apply Rplus_le_le_0_compat.
    + apply Rmult_le_pos; [exact Hd|]. apply Rmult_le_pos; [apply Rmult_le_pos; [exact MB4|apply Rmult_le_pos; lra]|lra].
    + apply Rmult_le_pos; [apply Rabs_pos|]. apply Rmult_le_pos; [apply Rmult_le_pos; [exact MB2|lra]|lra].
  - exact Hk.
  - exact Hkap.
  - exact Hrow.
  - intros c0 _. ring.
  - intros c0 Hc0. destruct (Huni c0 Hc0) as (Hlo & Hhi & E1 & E0 & Hf & HA1 & HA0 & HW & D1 & D0). destruct (Hxi c0 Hc0) as [Xu Xd].
    unfold Lrow, s, active_axes. rewrite Hcls. cbn [axes_of gdim map fold_right rsuml]. unfold rsuml. cbn [map fold_right].
    unfold axis_term.
    set (Df := apply_axis ROps (diffAW ROps m D) (diffAP ROps m D) (diffAE ROps m D) e AX c0).
    set (Uf := apply_axis ROps (upwAW ROps m u u) (upwAP ROps m u u) (upwAE ROps m u u) e AX c0).
    replace (kap c0 * e c0 + (- Df + Uf + 0)
             - (kap c0 * f (xi c0) - d * Derive_n f 2 (xi c0) + uc * Derive_n f 1 (xi c0)))
      with (- (Df - d * Derive_n f 2 (xi c0)) + (Uf - uc * Derive_n f 1 (xi c0)))
      by (unfold e; ring).
    eapply Rle_trans; [apply Rabs_triang|]. rewrite Rabs_Ropp. apply Rplus_le_compat.
    + rewrite <- (Rabs_pos_eq d Hd) at 2. unfold Df.
      apply (taylor_cartesian_axis f m AX c0 h (xi c0) d M4 D e Sm Hh (conj E1 E0) (conj D1 D0)); try assumption.
      * unfold e. rewrite Xu, Xd. auto.
      * intros t _. apply HM4.
    + unfold Uf.
      apply (taylor_upwind_cartesian_axis f m AX c0 h (xi c0) uc M2 u e); try assumption.
      * intros t k Hk2. apply Sm. lia.
      * split; apply Hu.
      * unfold e. rewrite Xu, Xd. auto.
      * intros t _. apply HM2.
  - exact Hnb.
  - exact Hc.
Qed.

(* the hypotheses are satisfiable: three unit cells on [0,3], the middle cell as the range, d = 1, uc = 1, kap = 1, f(t) = t sampled at
   the cell centres (1/2, 3/2, 5/2): both stencils are exact on linear functions, so the discrete equation holds exactly *)
Definition exR3 : Mesh ROps :=
  mkMesh ROps G1 (fun _ => mkAxis ROps 3 (fun p => match p with O => 0 | 1%nat => 1 | 2%nat => 2 | 3%nat => 3 | _ => 4 end)) PI (fun _ => 1) (fun _ => 1).
Definition exu1 : fvar ROps := fun _ _ => 1.
Definition exf1 : R -> R := fun t => t ^ 1.
Lemma exu1_max a c : umax ROps exu1 exu1 a c = 1.
Proof. unfold umax, exu1. cbn [kltb ROps k0 K]. unfold R_ltb. destruct (Rlt_dec 1 0); [exfalso; lra|reflexivity]. Qed.
Lemma exu1_min a c : umin ROps exu1 exu1 a c = 0.
Proof. unfold umin, exu1. cbn [kltb ROps k0 K]. unfold R_ltb. destruct (Rlt_dec 0 1); [reflexivity|exfalso; lra]. Qed.
Example convergence_upwind_hyps_satisfiable :
  let cells := [(2, 0, 0)%nat] in
  let x := fun c => exf1 (exxi c) in
  mcls ROps exR3 = G1 /\ cells <> [] /\
  (forall c a, In c cells -> In a (active_axes ROps exR3) -> (1 <= cidx a c <= mN ROps exR3 a)%nat /\ signs_ok exR3 exD c a) /\
  (forall a c, exu1 a c = 1) /\ 1 <> 0 /\
  (forall c, In c cells ->
     is_lo AX c = false /\ is_hi ROps exR3 AX c = false /\
     mdxf ROps exR3 AX (cidx AX c) = 1 /\ mdxf ROps exR3 AX (pred (cidx AX c)) = 1 /\ mfac ROps exR3 AX c = 1 /\
     mA ROps exR3 AX (cidx AX c) = 1 /\ mA ROps exR3 AX (pred (cidx AX c)) = 1 /\ mW ROps exR3 AX (cidx AX c) = 1 /\
     exD AX c = 1 /\ exD AX (cdn AX c) = 1) /\
  (forall t k, (k <= 4)%nat -> ex_derive_n exf1 k t) /\
  (forall t, Rabs (Derive_n exf1 4 t) <= 0) /\ (forall t, Rabs (Derive_n exf1 2 t) <= 0) /\
  (forall c, In c cells -> exxi (cup AX c) = exxi c + 1 /\ exxi (cdn AX c) = exxi c - 1) /\
  (forall c, In c cells -> Lrow exR3 exD exu1 (fun _ => 1) x c = 1 * exf1 (exxi c) - 1 * Derive_n exf1 2 (exxi c) + 1 * Derive_n exf1 1 (exxi c)) /\
  (forall c a, In c cells -> In a (active_axes ROps exR3) ->
     nb_homog cells (fun c => x c - exf1 (exxi c)) c (cdn a c) /\ nb_homog cells (fun c => x c - exf1 (exxi c)) c (cup a c)).
Proof.
  cbv zeta. split; [reflexivity|]. split; [discriminate|].
  split. { intros c a [<-|[]] [<-|[]]. split; [cbn; lia|]. constructor; cbn; unfold exD; lra. }
  split; [reflexivity|]. split; [lra|].
  split. { intros c [<-|[]]. cbn. unfold exD. repeat split; try reflexivity; lra. }
  split. { intros t k _. apply ex_derive_n_pow. }
  split. { intros t. unfold exf1. rewrite Derive_n_pow_bigi by lia. rewrite Rabs_R0. lra. }
  split. { intros t. unfold exf1. rewrite Derive_n_pow_bigi by lia. rewrite Rabs_R0. lra. }
  split. { intros c [<-|[]]. unfold exxi. cbn. split; lra. }
  split.
  { intros c [<-|[]]. unfold exf1 at 3 4. rewrite Derive_n_pow_bigi by lia. rewrite Derive_n_pow_smalli by lia.
    unfold Lrow, rsuml, axis_term, apply_axis. cbn. rewrite !exu1_max, !exu1_min. unfold exD, exf1, exxi. cbn. field_simplify. lra. }
  intros c a [<-|[]] [<-|[]]. split; right; right; exists 0; split; try lra; ring.
Qed.
