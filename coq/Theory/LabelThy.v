(* C10 / C16: labels. Finite enumeration over the tables REGENERATED from face.py / mesh.py. *)
From Coq Require Import String List Arith Bool.
From PFV Require Import Grid Labels LabelSpec.
Import ListNotations.
Open Scope string_scope.

Definition action_eqb (a b : action) : bool :=
  match a, b with
  | Slot n, Slot k => Nat.eqb n k | AttrErr, AttrErr => true | NotImplErr, NotImplErr => true | OtherErr, OtherErr => true
  | _, _ => false
  end.
Lemma action_eqb_eq a b : action_eqb a b = true -> a = b.
Proof. destruct a, b; cbn; intros H; try discriminate; try reflexivity. apply Nat.eqb_eq in H. subst. reflexivity. Qed.

Fixpoint slookup {A} (s : string) (t : list (string * A)) : option A :=
  match t with [] => None | (k, v) :: t' => if String.eqb s k then Some v else slookup s t' end.
Definition face_action (tbl : list (string * list action)) (label : string) (g : gclass) : action :=
  match slookup label tbl with Some row => nth (class_index g) row OtherErr | None => OtherErr end.
Definition face_get := face_action face_get_table.
Definition face_set := face_action face_set_table.
(* mesh.CellProp.<label> on a grid of class g *)
Definition cellprop_get (label : string) (g : gclass) : action :=
  match slookup label (nth (class_index g) coord_table []) with
  | Some slot => match slookup label cellprop_allowed with
                 | Some ok => if existsb (Nat.eqb slot) ok then Slot slot else AttrErr
                 | None => OtherErr end
  | None => match slookup label cellprop_allowed with Some _ => AttrErr | None => OtherErr end
  end.
(* documented behaviour: the label names its axis iff it belongs to the class's coordinate system *)
Definition expected (label : string) (g : gclass) : action :=
  match index_of label (coord_system g) with Some n => Slot n | None => AttrErr end.

Definition labels_okb : bool :=
  forallb (fun g => forallb (fun l =>
      action_eqb (face_get l g) (expected l g) && action_eqb (face_set l g) (expected l g)
      && action_eqb (cellprop_get l g) (expected l g)) all_labels) all_classes.

Theorem labels_ok : forall g l, In l all_labels ->
  face_get l g = expected l g /\ face_set l g = expected l g /\ cellprop_get l g = expected l g.
Proof.
  assert (H : labels_okb = true) by (vm_compute; reflexivity).
  intros g l Hl. unfold labels_okb in H. rewrite forallb_forall in H.
  assert (Hg : In g all_classes) by (destruct g; cbn; tauto).
  specialize (H g Hg). rewrite forallb_forall in H. specialize (H l Hl).
  apply andb_true_iff in H. destruct H as [H H3]. apply andb_true_iff in H. destruct H as [H1 H2].
  repeat split; apply action_eqb_eq; assumption.
Qed.
(* the coordlabels dictionaries passed by the constructors are exactly the coordinate systems *)
Theorem coord_tables_ok : forall g, map fst (nth (class_index g) coord_table []) = coord_system g.
Proof. intros g. destruct g; vm_compute; reflexivity. Qed.
