(* C12 — Time stepping: steady states are fixed points; identities behind dt->0 and dt->inf; explicit step. *)
From Coq Require Import Arith List.
From PFV Require Import OField KOps Grid Ops Boundary Solver StencilThy SolverThy.

Theorem C12_backward_euler_row : forall (F : FieldOps) (L : FieldLaws F) (m : Mesh F) (bc : BCs F) (sp : list (term F))
    alpha (dt : F) old x c,
  dt <> k0 F -> is_solution F m bc (TTrans F alpha dt old :: sp) x -> interior F m c = true ->
  kadd F (kdiv F (kmul F (alpha c) (ksub F (x c) (old c))) dt) (sys_lhs F m sp x c) = sys_rhs F m sp c.
Proof. exact backward_euler_row. Qed.
Print Assumptions C12_backward_euler_row.

Theorem C12_steady_is_fixed_point : forall (F : FieldOps) (L : FieldLaws F) (m : Mesh F) (bc : BCs F) (sp : list (term F))
    alpha (dt : F) x,
  dt <> k0 F -> is_solution F m bc sp x -> is_solution F m bc (TTrans F alpha dt x :: sp) x.
Proof. exact steady_is_fixed_point. Qed.
Print Assumptions C12_steady_is_fixed_point.

Theorem C12_fixed_point_is_steady : forall (F : FieldOps) (L : FieldLaws F) (m : Mesh F) (bc : BCs F) (sp : list (term F))
    alpha (dt : F) x,
  dt <> k0 F -> is_solution F m bc (TTrans F alpha dt x :: sp) x -> is_solution F m bc sp x.
Proof. exact fixed_point_is_steady. Qed.
Print Assumptions C12_fixed_point_is_steady.

(* new - old = (dt/alpha)(b - S new): tends to 0 with dt for bounded solutions, and S new - b = -(alpha/dt)(new-old)
   tends to 0 as dt -> infinity *)
Theorem C12_increment_identity : forall (F : FieldOps) (L : FieldLaws F) (m : Mesh F) (bc : BCs F) (sp : list (term F))
    alpha (dt : F) old x c,
  dt <> k0 F -> alpha c <> k0 F -> is_solution F m bc (TTrans F alpha dt old :: sp) x -> interior F m c = true ->
  ksub F (x c) (old c) = kmul F (kdiv F dt (alpha c)) (ksub F (sys_rhs F m sp c) (sys_lhs F m sp x c)).
Proof. exact increment_identity. Qed.
Print Assumptions C12_increment_identity.

Theorem C12_explicit_interior : forall (F : FieldOps) (m : Mesh F) (bc : BCs F) old (dt : F) rhs c,
  interior F m c = true -> explicit_step F m bc old dt rhs c = kadd F (old c) (kmul F dt (rhs c)).
Proof. exact explicit_step_interior. Qed.
Print Assumptions C12_explicit_interior.
Theorem C12_explicit_boundary : forall (F : FieldOps) (m : Mesh F) (bc : BCs F) old (dt : F) rhs g a hi,
  interior F m g = false -> ghost_axis F m g = Some (a, hi) ->
  explicit_step F m bc old dt rhs g = ghost_value F m bc (fun c => kadd F (old c) (kmul F dt (rhs c))) a hi g.
Proof. exact explicit_step_boundary. Qed.
Print Assumptions C12_explicit_boundary.
