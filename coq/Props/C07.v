(* C07 — Discrete maximum principle: no overshoot, no negative concentrations.
   (1) every solution of a system whose rows are convex combinations (plus sink) stays within the data;
   (2) sign structure of the diffusion and upwind stencils of the model (tied to every builder by the operator suites);
   (3) per axis, -diffusionTerm(D) + convectionUpwindTerm(u) has exactly that row shape, with diagonal excess = div(u).
   (4) on the MODEL ITSELF (all classes, all dimensions): every solution of the system assembled from transient, -diffusion,
   upwind (divergence-free u) and sink stays between min(previous values, 0 / boundary data) and max(...), given that ghost values
   do not exceed an inner cell that is above the bound -- which Dirichlet rows (x_g = 2c - x_i, c within the bound) and no-flux
   rows (x_g = x_i) imply (C07_dirichlet_ghost, C07_noflux_ghost).  Remaining gap (PARTIAL): periodic axes are not covered by (4),
   and the ghost hypothesis is discharged per boundary kind by the two lemmas rather than derived once for arbitrary BC objects. *)
From Coq Require Import Reals Arith List Lra Lia.
From PFV Require Import OField KOps Grid Ops Boundary Solver StencilThy ConservThy MaxPrincipleThy MaxPrincipleModel.
Import ListNotations.
Local Open Scope R_scope.

Theorem C07_upper : forall n x g w s beta (M : R),
  (0 < n)%nat -> convex_system n x g w s beta -> (forall i, (i < n)%nat -> g i <= M) -> 0 <= M ->
  forall i, (i < n)%nat -> x i <= M.
Proof. exact convex_rows_upper. Qed.
Print Assumptions C07_upper.
Theorem C07_lower : forall n x g w s beta (m : R),
  (0 < n)%nat -> convex_system n x g w s beta -> (forall i, (i < n)%nat -> m <= g i) -> m <= 0 ->
  forall i, (i < n)%nat -> m <= x i.
Proof. exact convex_rows_lower. Qed.
Print Assumptions C07_lower.
Theorem C07_upper_without_sink : forall n x g w s (M : R),
  (0 < n)%nat -> convex_system n x g w s (fun _ => 0) -> (forall i, (i < n)%nat -> g i <= M) ->
  forall i, (i < n)%nat -> x i <= M.
Proof. exact convex_rows_upper_nosink. Qed.
Print Assumptions C07_upper_without_sink.
Theorem C07_nonnegative : forall n x g w s beta,
  (0 < n)%nat -> convex_system n x g w s beta -> (forall i, (i < n)%nat -> 0 <= g i) -> forall i, (i < n)%nat -> 0 <= x i.
Proof. exact nonnegative_stays_nonnegative. Qed.
Print Assumptions C07_nonnegative.

Theorem C07_row_shape : forall (m : Mesh ROps) a c,
  0 <= mA ROps m a (cidx a c) /\ 0 <= mA ROps m a (pred (cidx a c)) -> 0 < mW ROps m a (cidx a c) -> 0 <= mfac ROps m a c ->
  0 < mdxf ROps m a (cidx a c) /\ 0 < mdxf ROps m a (pred (cidx a c)) ->
  is_lo a c = false -> is_hi ROps m a c = false ->
  forall (D u : fvar ROps) (x : cvar ROps), 0 <= D a c -> 0 <= D a (cdn a c) ->
  let wdn := diffAW ROps m D a c - upwAW ROps m u u a c in
  let wup := diffAE ROps m D a c - upwAE ROps m u u a c in
  0 <= wdn /\ 0 <= wup /\
  - apply_axis ROps (diffAW ROps m D) (diffAP ROps m D) (diffAE ROps m D) x a c
  + apply_axis ROps (upwAW ROps m u u) (upwAP ROps m u u) (upwAE ROps m u u) x a c
  = (wdn + wup + divrow ROps m u a c) * x c - wdn * x (cdn a c) - wup * x (cup a c).
Proof. exact row_convex_axis. Qed.
Print Assumptions C07_row_shape.

(* non-vacuity: a 2-unknown system x0 = (x1 + g0)/2, x1 = (x0 + g1)/2 *)
Example C07_nonvacuous : convex_system 2 (fun i => match i with 0%nat => 5/3 | _ => 4/3 end) (fun i => match i with 0%nat => 2 | _ => 1 end)
                                        (fun i j => if Nat.eqb i j then 0 else 1) (fun _ => 1) (fun _ => 0).
Proof.
  constructor.
  - intros i Hi. destruct i as [|[|i]]; cbn; try lra; lia.
  - intros i j _ _. destruct (Nat.eqb i j); lra.
  - intros; lra.
  - intros; lra.
Qed.

(* ---- on the model: upper and lower bound for every solution, every grid class and dimension ---- *)
Theorem C07_model_upper : forall (m : Mesh ROps) (D u : fvar ROps) (x alpha beta old : cvar ROps) (dt M : R) (cells : list cell),
  cells <> [] ->
  (forall c a, In c cells -> In a (active_axes ROps m) -> (1 <= cidx a c <= mN ROps m a)%nat /\ signs_ok m D c a) ->
  (forall c, In c cells -> alpha c / dt * (x c - old c) + rsuml (fun a => axis_term m D u x a c) (active_axes ROps m) + beta c * x c = 0) ->
  (forall c, In c cells -> rsuml (fun a => divrow ROps m u a c) (active_axes ROps m) = 0) ->
  (forall c, In c cells -> 0 < alpha c /\ 0 <= beta c) -> 0 < dt ->
  (forall c, In c cells -> old c <= M) -> 0 <= M ->
  (forall c a, In c cells -> In a (active_axes ROps m) ->
     (In (cdn a c) cells \/ (M < x c -> x (cdn a c) <= x c)) /\ (In (cup a c) cells \/ (M < x c -> x (cup a c) <= x c))) ->
  forall c, In c cells -> x c <= M.
Proof. exact max_principle_upper. Qed.
Print Assumptions C07_model_upper.
Theorem C07_model_lower : forall (m : Mesh ROps) (D u : fvar ROps) (x alpha beta old : cvar ROps) (dt lo : R) (cells : list cell),
  cells <> [] ->
  (forall c a, In c cells -> In a (active_axes ROps m) -> (1 <= cidx a c <= mN ROps m a)%nat /\ signs_ok m D c a) ->
  (forall c, In c cells -> alpha c / dt * (x c - old c) + rsuml (fun a => axis_term m D u x a c) (active_axes ROps m) + beta c * x c = 0) ->
  (forall c, In c cells -> rsuml (fun a => divrow ROps m u a c) (active_axes ROps m) = 0) ->
  (forall c, In c cells -> 0 < alpha c /\ 0 <= beta c) -> 0 < dt ->
  (forall c, In c cells -> lo <= old c) -> lo <= 0 ->
  (forall c a, In c cells -> In a (active_axes ROps m) ->
     (In (cdn a c) cells \/ (x c < lo -> x c <= x (cdn a c))) /\ (In (cup a c) cells \/ (x c < lo -> x c <= x (cup a c)))) ->
  forall c, In c cells -> lo <= x c.
Proof. exact max_principle_lower. Qed.
Print Assumptions C07_model_lower.
(* the row hypothesis is the interior equation of is_solution for the term list of the property *)
Theorem C07_rows_from_is_solution : forall (m : Mesh ROps) (bc : BCs ROps) (D u : fvar ROps) (x alpha beta old : cvar ROps) (dt : R) c,
  dt <> 0 ->
  is_solution ROps m bc [TTrans ROps alpha dt old; TDiff ROps (-1) D; TUpw ROps 1 u u; TLin ROps 1 beta] x ->
  interior ROps m c = true ->
  alpha c / dt * (x c - old c) + rsuml (fun a => axis_term m D u x a c) (active_axes ROps m) + beta c * x c = 0.
Proof. exact is_solution_row. Qed.
Print Assumptions C07_rows_from_is_solution.
(* the ghost hypothesis from the boundary rows *)
Theorem C07_dirichlet_ghost : forall xg xi cD M : R, 1 / 2 * xg + 1 / 2 * xi = cD -> cD <= M -> M < xi -> xg <= xi.
Proof. exact dirichlet_ghost. Qed.
Theorem C07_noflux_ghost : forall xg xi aoh : R, aoh <> 0 -> (0 / 2 + aoh) * xg + (0 / 2 - aoh) * xi = 0 -> xg <= xi.
Proof. exact noflux_ghost. Qed.
Print Assumptions C07_noflux_ghost.

From Coq Require Import Reals.
From PFV Require Import Boundary Solver MaxPrincipleThy MaxPrincipleModel ComparisonThy.

(* the comparison principle behind both bounds, periodic neighbours included: a neighbour is an unknown, the periodic image of an
   unknown, or a ghost cell that cannot exceed a cell above the bound *)
Theorem C07_comparison : forall (m : Mesh ROps) (D u : fvar ROps) (kap z r : cvar ROps) (E : R) (cells : list cell),
  cells <> [] ->
  (forall c a, In c cells -> In a (active_axes ROps m) -> (1 <= cidx a c <= mN ROps m a)%nat /\ signs_ok m D c a) ->
  (forall c, In c cells -> Lrow m D u kap z c = r c) ->
  (forall c, In c cells -> rsuml (fun a => divrow ROps m u a c) (active_axes ROps m) = 0) ->
  (forall c, In c cells -> 0 < kap c) ->
  (forall c, In c cells -> r c <= kap c * E) ->
  (forall c a, In c cells -> In a (active_axes ROps m) ->
     nb_upper z E cells c (cdn a c) /\ nb_upper z E cells c (cup a c)) ->
  forall c, In c cells -> z c <= E.
Proof. exact comparison_upper. Qed.
Print Assumptions C07_comparison.
(* the hypotheses are satisfiable: one-cell mesh [0,1], D = 1, u = 0, homogeneous Dirichlet on both sides *)
Example C07_comparison_nonvacuous :
  let cells := [(1, 0, 0)%nat] in
  cells <> [] /\
  (forall c a, In c cells -> In a (active_axes ROps exR) -> (1 <= cidx a c <= mN ROps exR a)%nat /\ signs_ok exR exD c a) /\
  (forall c, In c cells -> Lrow exR exD exu (fun _ => 1) exz c = 5) /\
  (forall c, In c cells -> rsuml (fun a => divrow ROps exR exu a c) (active_axes ROps exR) = 0) /\
  (forall c a, In c cells -> In a (active_axes ROps exR) -> nb_homog cells exz c (cdn a c) /\ nb_homog cells exz c (cup a c)) /\
  Rabs (exz (1, 0, 0)%nat) <= 5.
Proof. exact comparison_hyps_satisfiable. Qed.

(* ---- the bounds for solutions of the assembled system, hypotheses on the DATA only (Theory/ClosureThy.v): the ghost hypothesis is
   derived from the boundary rows of arbitrary non-periodic boundary objects (Dirichlet, Neumann, Robin of one sign); the boundary
   data must not push beyond the bound: (c - b*M) * d <= 0 with d = b/2 +- a/h the ghost coefficient (Dirichlet: c/b <= M;
   homogeneous Neumann: always) ---- *)
From PFV Require Import ComparisonThy ClosureThy.
Theorem C07_solution_upper_bound : forall (m : Mesh ROps) (bc : BCs ROps) (D u : fvar ROps),
  interior_cells ROps m <> [] ->
  (forall c a, In c (interior_cells ROps m) -> In a (active_axes ROps m) -> (1 <= cidx a c <= mN ROps m a)%nat /\ signs_ok m D c a) ->
  (forall c, In c (interior_cells ROps m) -> rsuml (fun a => divrow ROps m u a c) (active_axes ROps m) = 0) ->
  bc_sign_ok m bc ->
  forall (alpha beta s old x : cvar ROps) (dt M : R),
  0 < dt -> (forall c, In c (interior_cells ROps m) -> 0 < alpha c /\ 0 <= beta c) ->
  is_solution ROps m bc (tlist D u alpha beta s old dt) x ->
  (forall c, In c (interior_cells ROps m) -> old c <= M /\ s c <= beta c * M) -> data_below m bc M ->
  forall c, In c (interior_cells ROps m) -> x c <= M.
Proof. exact solution_upper_bound. Qed.
Theorem C07_solution_lower_bound : forall (m : Mesh ROps) (bc : BCs ROps) (D u : fvar ROps),
  interior_cells ROps m <> [] ->
  (forall c a, In c (interior_cells ROps m) -> In a (active_axes ROps m) -> (1 <= cidx a c <= mN ROps m a)%nat /\ signs_ok m D c a) ->
  (forall c, In c (interior_cells ROps m) -> rsuml (fun a => divrow ROps m u a c) (active_axes ROps m) = 0) ->
  bc_sign_ok m bc ->
  forall (alpha beta s old x : cvar ROps) (dt lo : R),
  0 < dt -> (forall c, In c (interior_cells ROps m) -> 0 < alpha c /\ 0 <= beta c) ->
  is_solution ROps m bc (tlist D u alpha beta s old dt) x ->
  (forall c, In c (interior_cells ROps m) -> lo <= old c /\ beta c * lo <= s c) -> data_above m bc lo ->
  forall c, In c (interior_cells ROps m) -> lo <= x c.
Proof. exact solution_lower_bound. Qed.
Print Assumptions C07_solution_upper_bound.
Print Assumptions C07_solution_lower_bound.
(* non-vacuity: a concrete solution of the assembled system (one-cell mesh, Dirichlet data, one backward-Euler step of diffusion)
   satisfies every hypothesis of the two theorems, which then give 0 <= 1/5 <= 1 *)
Example C07_is_solution_example :
  is_solution ROps exR exbc (tlist exD exu (fun _ => 1) (fun _ => 0) (fun _ => 0) (fun _ => 1) 1) exx.
Proof. exact is_solution_example. Qed.
Example C07_bounds_apply : 0 <= exx (1, 0, 0)%nat <= 1.
Proof. exact bounds_apply. Qed.
