"""C07 check module."""
import traceback
import lib
from common import run_suites
import probes
from suites import bcsuite, solvesuite


def run(ctx):
    import pyfvtool as pf
    ctx.rule = ("operator suites diffusion / conv_upwind + bc_rows + solve (the stencils whose sign structure is proved are compared with every builder); "
                "impl_probe: multi-step implicit solves with D contrast up to 1e8 (with zeros), discretely divergence-free u (one-directional A*u = const on every "
                "class, stream function on Grid2D), optional sink, dt in 1e-4..1e4, Dirichlet / no-flux / periodic per side; bounds vs previous values and Dirichlet "
                "data; an overshoot is reported only if it survives an exact rational re-solve of the assembled system; non-trivial = N>=2 on every axis")
    ctx.prove("C07")
    from suites import symsuite
    run_suites(ctx, ["symbolic"], runner=symsuite.run_suite, relevant=symsuite.relevant_for(['diffusion', 'upwind', 'linsource', 'transientM', 'transientR', 'solveL', 'solveR']))
    run_suites(ctx, ["diffusion", "conv_upwind"])
    run_suites(ctx, ["bc_rows"], runner=bcsuite.run_suite)
    run_suites(ctx, ["solve"], runner=solvesuite.run_suite)
    try:
        n = probes.probe_c07(ctx, pf)
        ctx.add_cases("impl_probe", n, [f"c07probe{i}" for i in range(min(n, 80))])
    except Exception:
        ctx.broke("correspondence", "impl_probe/harness", traceback.format_exc()[-1200:])


def replay(path):
    print(open(path).read()[:4000])
    return 0
