(* C17 — Results do not depend on the unit system (dimensional homogeneity); linearity in coefficient fields.
   scale_mesh Lc m multiplies the faces of the length-like axes by Lc (angles unchanged).  Every stencil
   coefficient of the rescaled problem is 1/Tc times the original one, boundary coefficients a/h are unchanged and
   ghost values scale with the field: so K*x satisfies every row of the rescaled system whenever x satisfies the
   original one (rows are sums of these coefficients times x, see Model/Solver.v).  The assembly of that last step
   for arbitrary term lists is done on the real code by the check (two unit systems, L,T,K over +-6 decades). *)
From Coq Require Import Arith List.
From PFV Require Import OField KOps Grid Ops Boundary Solver StencilThy MeasureThy ScalingThy.

Theorem C17_diffusion_rows : forall (F : FieldOps) (L : FieldLaws F) (Lc Tc : F), Lc <> k0 F -> Tc <> k0 F ->
  forall (m : Mesh F) (D : fvar F) a c, fac_ok F m c -> mW F m a (cidx a c) <> k0 F ->
  mdxf F m a (cidx a c) <> k0 F -> mdxf F m a (pred (cidx a c)) <> k0 F ->
  diffAE F (scale_mesh F Lc m) (scaleD F Lc Tc D) a c = kdiv F (diffAE F m D a c) Tc /\
  diffAW F (scale_mesh F Lc m) (scaleD F Lc Tc D) a c = kdiv F (diffAW F m D a c) Tc.
Proof. intros F L Lc Tc HL HT m D a c Hf HW H1 H0. split; [apply diffAE_scale|apply diffAW_scale]; assumption. Qed.
Print Assumptions C17_diffusion_rows.

Theorem C17_central_rows : forall (F : FieldOps) (L : FieldLaws F) (Lc Tc : F), Lc <> k0 F -> Tc <> k0 F ->
  forall (m : Mesh F) (u : fvar F) a c, fac_ok F m c -> mW F m a (cidx a c) <> k0 F ->
  kadd F (mDX F m a (cidx a c)) (mDX F m a (S (cidx a c))) <> k0 F ->
  kadd F (mDX F m a (cidx a c)) (mDX F m a (pred (cidx a c))) <> k0 F ->
  cenE F (scale_mesh F Lc m) (scaleU F Lc Tc u) a c = kdiv F (cenE F m u a c) Tc /\
  cenW F (scale_mesh F Lc m) (scaleU F Lc Tc u) a c = kdiv F (cenW F m u a c) Tc.
Proof. intros F L Lc Tc HL HT m u a c Hf HW H1 H0. split; [apply cenE_scale|apply cenW_scale]; assumption. Qed.
Print Assumptions C17_central_rows.

Theorem C17_upwind_rows : forall (F : FieldOps) (L : FieldLaws F) (Lc Tc : F), Lc <> k0 F -> Tc <> k0 F ->
  forall (m : Mesh F) (u uup : fvar F) a c, fac_ok F m c -> mW F m a (cidx a c) <> k0 F ->
  upwAE F (scale_mesh F Lc m) (scaleU F Lc Tc u) uup a c = kdiv F (upwAE F m u uup a c) Tc /\
  upwAW F (scale_mesh F Lc m) (scaleU F Lc Tc u) uup a c = kdiv F (upwAW F m u uup a c) Tc /\
  upwAP F (scale_mesh F Lc m) (scaleU F Lc Tc u) uup a c = kdiv F (upwAP F m u uup a c) Tc.
Proof.
  intros F L Lc Tc HL HT m u uup a c Hf HW.
  split; [apply upwAE_scale|split; [apply upwAW_scale|apply upwAP_scale]]; assumption.
Qed.
Print Assumptions C17_upwind_rows.

Theorem C17_boundary_rows_unchanged : forall (F : FieldOps) (L : FieldLaws F) (Lc : F), Lc <> k0 F ->
  forall (m : Mesh F) (Kc : F) (bc : BCs F) a (hi : bool) g,
  fac_ok F m (if hi then cdn a g else cup a g) -> mDX F m a (cidx a g) <> k0 F ->
  aoh F (scale_mesh F Lc m) (scale_bcs F Lc Kc bc) a hi g = aoh F m bc a hi g.
Proof. intros F L Lc HL m Kc bc a hi g. apply aoh_scale; assumption. Qed.
Print Assumptions C17_boundary_rows_unchanged.

Theorem C17_ghost_values_scale : forall (F : FieldOps) (L : FieldLaws F) (Lc : F), Lc <> k0 F ->
  forall (m : Mesh F) (Kc : F) (bc : BCs F) (phi : cvar F) a (hi : bool) g,
  fac_ok F m (if hi then cdn a g else cup a g) -> mDX F m a (cidx a g) <> k0 F ->
  (if hi then kadd F (aoh F m bc a hi g) (kdiv F (bcb F bc a hi g) (kadd F (k1 F) (k1 F))) <> k0 F
         else kadd F (kopp F (aoh F m bc a hi g)) (kdiv F (bcb F bc a hi g) (kadd F (k1 F) (k1 F))) <> k0 F) ->
  ghost_value F (scale_mesh F Lc m) (scale_bcs F Lc Kc bc) (fun c => kmul F Kc (phi c)) a hi g
  = kmul F Kc (ghost_value F m bc phi a hi g).
Proof. intros F L Lc HL m Kc bc phi a hi g. apply ghost_scale; assumption. Qed.
Print Assumptions C17_ghost_values_scale.

Theorem C17_linear_in_D : forall (F : FieldOps) (L : FieldLaws F) (m : Mesh F) (D1 D2 : fvar F) (k : F) a c,
  mW F m a (cidx a c) <> k0 F -> mdxf F m a (cidx a c) <> k0 F -> mdxf F m a (pred (cidx a c)) <> k0 F ->
  diffAE F m (fun a c => kadd F (kmul F k (D1 a c)) (D2 a c)) a c = kadd F (kmul F k (diffAE F m D1 a c)) (diffAE F m D2 a c) /\
  diffAW F m (fun a c => kadd F (kmul F k (D1 a c)) (D2 a c)) a c = kadd F (kmul F k (diffAW F m D1 a c)) (diffAW F m D2 a c).
Proof. exact diff_linear_in_D. Qed.
Print Assumptions C17_linear_in_D.
Theorem C17_linear_in_u_central : forall (F : FieldOps) (L : FieldLaws F) (m : Mesh F) (u1 u2 : fvar F) (k : F) a c,
  mW F m a (cidx a c) <> k0 F -> kadd F (mDX F m a (cidx a c)) (mDX F m a (S (cidx a c))) <> k0 F ->
  kadd F (mDX F m a (cidx a c)) (mDX F m a (pred (cidx a c))) <> k0 F ->
  cenE F m (fun a c => kadd F (kmul F k (u1 a c)) (u2 a c)) a c = kadd F (kmul F k (cenE F m u1 a c)) (cenE F m u2 a c) /\
  cenW F m (fun a c => kadd F (kmul F k (u1 a c)) (u2 a c)) a c = kadd F (kmul F k (cenW F m u1 a c)) (cenW F m u2 a c).
Proof. exact cen_linear_in_u. Qed.
Print Assumptions C17_linear_in_u_central.
Theorem C17_upwind_additive_fixed_direction : forall (F : FieldOps) (L : FieldLaws F) (m : Mesh F) (u1 u2 uup : fvar F) (k : F) a c,
  mW F m a (cidx a c) <> k0 F ->
  upwAE F m (fun a c => kadd F (kmul F k (u1 a c)) (u2 a c)) uup a c = kadd F (kmul F k (upwAE F m u1 uup a c)) (upwAE F m u2 uup a c) /\
  upwAW F m (fun a c => kadd F (kmul F k (u1 a c)) (u2 a c)) uup a c = kadd F (kmul F k (upwAW F m u1 uup a c)) (upwAW F m u2 uup a c).
Proof. exact upw_linear_in_u. Qed.
Print Assumptions C17_upwind_additive_fixed_direction.

(* solution level: K*x solves the system assembled from the rescaled data, for every grid class, every term list
   (TVD corrections enter as right-hand-side vectors scaled like K/T; that the code's TVD vector itself scales this way
   holds unless a non-zero gradient falls below _fsign's absolute threshold 1e-16 -- exercised on the code, not proved) *)
From PFV Require Import ConservThy TermsThy SolverThy ScalingSolveThy Examples.
Theorem C17_solution_scales : forall (F : FieldOps) (L : FieldLaws F) (Lc Tc Kc : F), Lc <> k0 F -> Tc <> k0 F ->
  forall (m : Mesh F), stencil_ok F m -> (forall c, interior F m c = true -> fac_ok F m c) ->
  forall (bc : BCs F), bc_ok F m bc ->
  forall (ts : list (term F)) (x : cvar F), dts_ok F ts ->
  is_solution F m bc ts x ->
  is_solution F (scale_mesh F Lc m) (scale_bcs F Lc Kc bc) (map (scale_term F Lc Tc Kc) ts) (scale_field F Kc x).
Proof. intros F L Lc Tc Kc HL HT m Hok Hfac bc Hbc ts x Hd Hs. exact (solution_scales F L Lc Tc Kc HL HT m Hok Hfac bc Hbc ts x Hd Hs). Qed.
Print Assumptions C17_solution_scales.
Example C17_nonvacuous : stencil_ok QcOps ex_C2 /\ bc_ok QcOps ex_C2 ex_bc
  /\ (forall c, interior QcOps ex_C2 c = true -> fac_ok QcOps ex_C2 c).
Proof. split; [exact ex_C2_stencil_ok|split; [exact ex_C2_bc_ok|exact ex_C2_fac_ok]]. Qed.

(* the TVD correction vector itself: with u -> (L/T) u and field -> K field on the rescaled grid every axis-row of the vector
   is K/T times the original row, for ANY limiter (it only sees the dimensionless gradient ratio) and any zero guard that commutes
   with the change of units on the face gradients that occur (tvd_face_ok); the code's guard _fsign does so exactly when the
   gradient is above its absolute threshold 1e-16 in both unit systems (C17_guard_commutes_above_threshold): below it the property
   fails for the code as written, which the search on the implementation leaves outside its range *)
From PFV Require Import Limiters LimiterThy CorrLib.
From Coq Require Import Reals ZArith QArith Qcanon.
Theorem C17_tvd_rows_scale : forall (F : FieldOps) (L : FieldLaws F) (Lc Tc : F), Lc <> k0 F -> Tc <> k0 F ->
  forall (m : Mesh F) (fsgn FLim : F -> F) (Kc : F), Kc <> k0 F ->
  forall (u uup : fvar F) (phi : cvar F) a c, fac_ok F m c -> mW F m a (cidx a c) <> k0 F ->
  tvd_face_ok F Lc m fsgn Kc phi a c -> tvd_face_ok F Lc m fsgn Kc phi a (cdn a c) ->
  tvdrow F fsgn FLim (scale_mesh F Lc m) (scaleU F Lc Tc u) uup (fun c => kmul F Kc (phi c)) a c
  = kdiv F (kmul F Kc (tvdrow F fsgn FLim m u uup phi a c)) Tc.
Proof. intros F L Lc Tc HL HT m fsgn FLim Kc HK u uup phi a c. exact (tvdrow_scale F L Lc Tc HL HT m fsgn FLim Kc HK u uup phi a c). Qed.
Print Assumptions C17_tvd_rows_scale.
Theorem C17_guard_commutes_above_threshold : forall eps1 g x : R, (0 < eps1)%R -> (eps1 <= Rabs x)%R -> (eps1 <= Rabs (g * x))%R ->
  fsign ROps eps1 (g * x)%R = (g * fsign ROps eps1 x)%R.
Proof. exact fsign_commutes_above_threshold. Qed.
Print Assumptions C17_guard_commutes_above_threshold.
(* non-vacuity of tvd_face_ok: the graded r-z example grid, length unit 1/1000, field unit 7, a quadratic field, identity guard *)
Example C17_tvd_nonvacuous :
  tvd_face_ok QcOps (qc 1 1000) ex_C2 (fun x => x) (qc 7 1) (fun c => let '(i, j, _) := c in qc (Z.of_nat (i * i + 3 * j)) 1) AX (2, 1, 0)%nat.
Proof.
  unfold tvd_face_ok. repeat split; try (apply qc_neq; vm_compute; reflexivity).
Qed.
