#!/usr/bin/env python3
"""markdown table of the seeded changes under /verif/seeded (usage: seedtable.py [suffix], e.g. 'b' for round 2)"""
import json, os, re, sys
suf = sys.argv[1] if len(sys.argv) > 1 else ""
print("| seeded change | file | caught by | first VIOLATION line (replay has the concrete input) | history |")
print("|---|---|---|---|---|")
for k in sorted(os.listdir("/verif/seeded")):
    if (suf and not k.endswith(suf)) or (not suf and not re.fullmatch(r"C\d\d", k)):
        continue
    m = json.load(open(f"/verif/seeded/{k}/meta.json"))
    diff = open(f"/verif/seeded/{k}/patch.diff").read()
    f = re.search(r"\+\+\+ b/src/pyfvtool/(\S+)", diff).group(1)
    line = ""
    for c, r in (m.get("checks") or {}).items():
        for l in r.get("lines", []):
            mm = re.search(r"what=['\"](.*)", l)
            if mm:
                line = mm.group(1)[:150]; break
        if line: break
    print(f"| {k} | {f} | {', '.join(m.get('caught_by', []))} | {line} | {m.get('history', 'caught on first run')} |")
