"""C16 check module."""
import traceback
import lib
import probes


def run(ctx):
    import pyfvtool as pf
    ctx.rule = ("errors probe: every row of the regenerated label / periodic / term tables executed on the implementation for N in {1,2,3} on all 9 classes "
                "(6 labels x get/set, all periodic-flag patterns, 8 shape families, constructor arities 0..7, BoundaryFace argument types, 12 term kinds); "
                "non-trivial = every case (each is a distinct (class, request) pair)")
    ctx.extra_trusted = ["translators tools/tr_labels.py and tools/tr_dispatch.py (fail-closed ast fragments)"]
    ctx.prove("C16")
    try:
        n = probes.probe_c16(ctx, pf)
        ctx.add_cases("errors", n, [f"c16row{i}" for i in range(min(n, 500))], samples=[{"cls": "PolarGrid2D", "request": "FaceVariable.zvalue", "expected": "AttributeError"}])
    except Exception:
        ctx.broke("correspondence", "errors/harness", traceback.format_exc()[-1200:])


def replay(path):
    print(open(path).read()[:4000])
    return 0
