"""C02 check module."""
import traceback
import lib
from common import run_suites
import probes
from suites import bcsuite, solvesuite, meshsuite

REL = lambda suite, b: suite != "means" or b.get("what") in ("linearMean", "upwindMean")


def run(ctx):
    import pyfvtool as pf
    ctx.rule = ("all operator suites + mesh + bc + solve (the stencils whose exactness is proved are compared with every builder); impl_probe: manufactured "
                "solutions (product of smooth functions of every coordinate, variable D, divergence-free radial/first-axis u, sink, source from the continuous "
                "operator of the class's coordinate system via sympy) on all 9 classes, 3 resolutions, uniform and smoothly graded, Dirichlet and Robin data on "
                "every side, central and upwind; observed order >= 1.5 (central) / 0.75 (upwind); every (class, scheme, bc, grading) is a distinct case")
    ctx.prove("C02")
    from suites import symsuite
    run_suites(ctx, ["symbolic"], runner=symsuite.run_suite, relevant=symsuite.relevant_for(['diffusion', 'central', 'divergence', 'gradient', 'linmean', 'linsource', 'constsource', 'transientM', 'transientR', 'bcM', 'bcR', 'ghosts', 'upwind', 'harmmean', 'solveL', 'solveR']))
    run_suites(ctx, ["mesh"], runner=meshsuite.run_suite)
    run_suites(ctx, ["diffusion", "conv_central", "conv_upwind", "divergence", "gradient", "means"], relevant=REL)
    run_suites(ctx, ["bc_ghost", "bc_rows"], runner=bcsuite.run_suite)
    run_suites(ctx, ["solve"], runner=solvesuite.run_suite)
    try:
        n = probes.probe_c02(ctx, pf)
        ctx.add_cases("impl_probe", n, [f"c02probe{i}" for i in range(min(n, 80))])
    except Exception:
        ctx.broke("correspondence", "impl_probe/harness", traceback.format_exc()[-1200:])


def replay(path):
    print(open(path).read()[:4000])
    return 0
