(* Boundary conditions: ghost values (the cellValuesWithBoundaries family of boundary.py) and the boundary rows
   of the linear system (the boundaryConditionsTerm family), generic over the grid class. *)
From Coq Require Import Arith List Bool.
From PFV Require Import OField KOps Grid Ops.
Import ListNotations.

Section Boundary.
Variable F : FieldOps.
Local Notation K := (K F).
Local Notation "0" := (k0 F).
Local Notation "1" := (k1 F).
Local Infix "+" := (kadd F).
Local Infix "*" := (kmul F).
Local Infix "-" := (ksub F).
Local Infix "/" := (kdiv F).
Local Notation "- x" := (kopp F x).
Local Notation two := (kadd F (k1 F) (k1 F)).
Local Notation Mesh := (Mesh F).

(* a*dphi/dn + b*phi = c on each boundary face; the coefficient functions are indexed by the ghost cell
   (only its transverse indices matter).  bper a: the axis is treated as periodic (the code does so as soon
   as ONE of its two faces carries the flag). *)
Record BCs := mkBCs {
  bca : axis -> bool -> cell -> K;     (* bool: true = hi side (right/top/front), false = lo side *)
  bcb : axis -> bool -> cell -> K;
  bcc : axis -> bool -> cell -> K;
  bper : axis -> bool
}.

(* classification of a cell of the padded array *)
Definition on_lo (a : axis) (c : cell) : bool := Nat.eqb (cidx a c) 0.
Definition on_hi (m : Mesh) (a : axis) (c : cell) : bool := Nat.eqb (cidx a c) (S (mN F m a)).
Definition nghost (m : Mesh) (c : cell) : nat :=
  List.length (filter (fun a => on_lo a c || on_hi m a c) (axes_of (mcls F m))).
(* the axis along which c is a (face) ghost cell, if it is one in exactly one direction *)
Definition ghost_axis (m : Mesh) (c : cell) : option (axis * bool) :=
  if Nat.eqb (nghost m c) 1 then
    match filter (fun a => on_lo a c || on_hi m a c) (axes_of (mcls F m)) with
    | a :: _ => Some (a, on_hi m a c)
    | [] => None
    end
  else None.

(* a/h with h = (ghost size)/fac: the 1/r and 1/(r sin theta) factors of angular directions *)
Definition aoh (m : Mesh) (bc : BCs) (a : axis) (hi : bool) (g : cell) : K :=
  let ci := if hi then cdn a g else cup a g in
  bca bc a hi g * mfac F m a ci / mDX F m a (cidx a g).

Definition ghost_value (m : Mesh) (bc : BCs) (phi : cvar F) (a : axis) (hi : bool) (g : cell) : K :=
  if bper bc a then
    (if hi then phi (cset a g 1) else phi (cset a g (mN F m a)))
  else if hi then
    (bcc bc a hi g - phi (cdn a g) * (- aoh m bc a hi g + bcb bc a hi g / two)) / (aoh m bc a hi g + bcb bc a hi g / two)
  else
    (bcc bc a hi g - phi (cup a g) * (aoh m bc a hi g + bcb bc a hi g / two)) / (- aoh m bc a hi g + bcb bc a hi g / two).

(* cellValuesWithBoundaries: interior values kept, face ghosts computed, corner/edge cells 0 *)
Definition with_boundaries (m : Mesh) (bc : BCs) (phi : cvar F) : cvar F :=
  fun c => if interior F m c then phi c
           else match ghost_axis m c with
                | Some (a, hi) => ghost_value m bc phi a hi c
                | None => 0
                end.

(* CellVariable.plotprofile: the values of the padded array with every face ghost position replaced by the value AT the boundary face,
   i.e. the average of the ghost cell and its interior neighbour (edge / corner positions are not specified here) *)
Definition plot_profile (m : Mesh) (x : cvar F) : cvar F :=
  fun c => if interior F m c then x c
           else match ghost_axis m c with
                | Some (a, hi) => (x c + x (if hi then cdn a c else cup a c)) / two
                | None => x c
                end.

(* boundaryConditionsTerm: one row per non-interior cell *)
Fixpoint kmaxl (l : list K) (d : K) : K :=
  match l with [] => d | x :: l' => kmax F x (kmaxl l' d) end.
Definition corner_diag (m : Mesh) (bc : BCs) : K :=
  match gdim (mcls F m) with
  | 2 => match map (fun i => bcb bc AY true (i, S (mN F m AY), 0)%nat / two
                             + bca bc AY true (i, S (mN F m AY), 0)%nat / mDX F m AY (S (mN F m AY)))
                   (seq 1 (mN F m AX)) with
         | [] => 0
         | x :: l => kmaxl l x
         end
  | _ => 1
  end.

Definition bc_row (m : Mesh) (bc : BCs) (c : cell) : list (nat * K) :=
  if interior F m c then []
  else match ghost_axis m c with
       | None => [(cellno F m c, corner_diag m bc)]
       | Some (a, hi) =>
         let n := mN F m a in
         if bper bc a then
           if hi then
             let r := mDX F m a (S n) / mDX F m a 0 in
             [(cellno F m c, 1); (cellno F m (cdn a c), - (1)); (cellno F m (cset a c 0), r); (cellno F m (cset a c 1), - r)]
           else
             [(cellno F m c, 1); (cellno F m (cup a c), 1); (cellno F m (cset a c n), - (1)); (cellno F m (cset a c (S n)), - (1))]
         else if hi then
           [(cellno F m c, bcb bc a hi c / two + aoh m bc a hi c); (cellno F m (cdn a c), bcb bc a hi c / two - aoh m bc a hi c)]
         else
           [(cellno F m (cup a c), - (bcb bc a hi c / two + aoh m bc a hi c)); (cellno F m c, - (bcb bc a hi c / two - aoh m bc a hi c))]
       end.
Definition bc_rhs (m : Mesh) (bc : BCs) (c : cell) : K :=
  if interior F m c then 0
  else match ghost_axis m c with
       | None => 0
       | Some (a, hi) => if bper bc a then 0 else if hi then bcc bc a hi c else - bcc bc a hi c
       end.

(* the left-hand side of a boundary row applied to a field *)
Definition row_apply (m : Mesh) (row : list (nat * K)) (x : nat -> K) : K :=
  fold_right (fun cv acc => snd cv * x (fst cv) + acc) 0 row.
End Boundary.
