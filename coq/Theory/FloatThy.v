(* Floating-point theory for the generated limiter definitions evaluated in binary64 (FOps):
   interval propagation with power-of-two bounds on top of Flocq's specification of Coq's primitive floats. *)
From Coq Require Import ZArith Reals Lra Lia Bool Floats.
From Flocq Require Import Core.Core IEEE754.BinarySingleNaN.
From Flocq Require IEEE754.PrimFloat.
From PFV Require Import OField KOps F64Ops.
Module FP := Flocq.IEEE754.PrimFloat.
Local Open Scope R_scope.

Definition emin := (3 - emax - prec)%Z.
Notation fexp := (FLT_exp emin prec).
Notation rnd := (round radix2 fexp ZnearestE).
Local Instance prec_pos : Prec_gt_0 prec := eq_refl.
Local Instance fexp_valid : Valid_exp fexp := FLT_exp_valid emin prec.
Notation pfloat := PrimFloat.float.
Definition FR (f : pfloat) : R := B2R (FP.Prim2B f).
Definition ffin (f : pfloat) : Prop := is_finite (FP.Prim2B f) = true.
Definition fin (k : Z) (f : pfloat) : Prop := ffin f /\ Rabs (FR f) <= bpow radix2 k.
Definition okexp (k : Z) : bool := ((emin <=? k) && (k <? emax))%Z.

Lemma okexp_spec k : okexp k = true -> (emin <= k < emax)%Z.
Proof. unfold okexp. rewrite andb_true_iff, Z.leb_le, Z.ltb_lt. tauto. Qed.

Lemma fmt_bpow k : (emin <= k)%Z -> generic_format radix2 fexp (bpow radix2 k).
Proof. intro H. apply generic_format_FLT_bpow; [reflexivity|exact H]. Qed.

Lemma fmt_FR f : generic_format radix2 fexp (FR f).
Proof. unfold FR. change (FLT_exp emin prec) with (SpecFloat.fexp prec emax). apply generic_format_B2R. Qed.

Lemma rnd_le x y : x <= y -> rnd x <= rnd y.
Proof. apply round_le; auto with typeclass_instances. Qed.
Lemma rnd_FR f : rnd (FR f) = FR f.
Proof. apply round_generic; [auto with typeclass_instances|apply fmt_FR]. Qed.

Lemma rnd_bound x k : okexp k = true -> Rabs x <= bpow radix2 k ->
  Rabs (rnd x) <= bpow radix2 k /\ Rlt_bool (Rabs (rnd x)) (bpow radix2 emax) = true.
Proof.
  intros Hk Hx. apply okexp_spec in Hk.
  assert (Rabs (rnd x) <= bpow radix2 k) as Hb.
  { apply abs_round_le_generic; auto with typeclass_instances. apply fmt_bpow. lia. }
  split; [exact Hb|]. apply Rlt_bool_true. eapply Rle_lt_trans; [exact Hb|]. apply bpow_lt. lia.
Qed.

Lemma bpow_max k1 k2 : bpow radix2 k1 <= bpow radix2 (Z.max k1 k2) /\ bpow radix2 k2 <= bpow radix2 (Z.max k1 k2).
Proof. split; apply bpow_le; lia. Qed.

Lemma bpow_double k : bpow radix2 k + bpow radix2 k = bpow radix2 (k + 1).
Proof. rewrite bpow_plus. simpl. lra. Qed.

(* ---- the four operations ---- *)
Lemma fin_add k1 k2 a b : fin k1 a -> fin k2 b -> okexp (Z.max k1 k2 + 1) = true ->
  fin (Z.max k1 k2 + 1) (PrimFloat.add a b) /\ FR (PrimFloat.add a b) = rnd (FR a + FR b).
Proof.
  intros [Fa Ba] [Fb Bb] Hk. unfold fin, ffin, FR in *. rewrite FP.add_equiv.
  generalize (Bplus_correct prec emax FP.Hprec FP.Hmax mode_NE _ _ Fa Fb).
  destruct (bpow_max k1 k2) as [M1 M2].
  assert (Rabs (B2R (FP.Prim2B a) + B2R (FP.Prim2B b)) <= bpow radix2 (Z.max k1 k2 + 1)) as Hs.
  { rewrite <- bpow_double. eapply Rle_trans; [apply Rabs_triang|]. lra. }
  destruct (rnd_bound _ _ Hk Hs) as [Hb Hlt]. simpl round_mode. change (SpecFloat.fexp prec emax) with (FLT_exp emin prec). rewrite Hlt.
  intros (E & F & _). rewrite E. auto.
Qed.

Lemma fin_sub k1 k2 a b : fin k1 a -> fin k2 b -> okexp (Z.max k1 k2 + 1) = true ->
  fin (Z.max k1 k2 + 1) (PrimFloat.sub a b) /\ FR (PrimFloat.sub a b) = rnd (FR a - FR b).
Proof.
  intros [Fa Ba] [Fb Bb] Hk. unfold fin, ffin, FR in *. rewrite FP.sub_equiv.
  generalize (Bminus_correct prec emax FP.Hprec FP.Hmax mode_NE _ _ Fa Fb).
  destruct (bpow_max k1 k2) as [M1 M2].
  assert (Rabs (B2R (FP.Prim2B a) - B2R (FP.Prim2B b)) <= bpow radix2 (Z.max k1 k2 + 1)) as Hs.
  { rewrite <- bpow_double. unfold Rminus. eapply Rle_trans; [apply Rabs_triang|]. rewrite Rabs_Ropp. lra. }
  destruct (rnd_bound _ _ Hk Hs) as [Hb Hlt]. simpl round_mode. change (SpecFloat.fexp prec emax) with (FLT_exp emin prec). rewrite Hlt.
  intros (E & F & _). rewrite E. auto.
Qed.

Lemma fin_mul k1 k2 a b : fin k1 a -> fin k2 b -> okexp (k1 + k2) = true ->
  fin (k1 + k2) (PrimFloat.mul a b) /\ FR (PrimFloat.mul a b) = rnd (FR a * FR b).
Proof.
  intros [Fa Ba] [Fb Bb] Hk. unfold fin, ffin, FR in *. rewrite FP.mul_equiv.
  generalize (Bmult_correct prec emax FP.Hprec FP.Hmax mode_NE (FP.Prim2B a) (FP.Prim2B b)).
  assert (Rabs (B2R (FP.Prim2B a) * B2R (FP.Prim2B b)) <= bpow radix2 (k1 + k2)) as Hs.
  { rewrite Rabs_mult, bpow_plus. apply Rmult_le_compat; try apply Rabs_pos; assumption. }
  destruct (rnd_bound _ _ Hk Hs) as [Hb Hlt]. simpl round_mode. change (SpecFloat.fexp prec emax) with (FLT_exp emin prec). rewrite Hlt.
  intros (E & F & _). rewrite E, F, Fa, Fb. auto.
Qed.

(* division by a number known to be at least 2^l in magnitude *)
Lemma fin_div k1 l a b : fin k1 a -> ffin b -> bpow radix2 l <= Rabs (FR b) -> okexp (k1 - l) = true ->
  fin (k1 - l) (PrimFloat.div a b) /\ FR (PrimFloat.div a b) = rnd (FR a / FR b).
Proof.
  intros [Fa Ba] Fb Lb Hk. unfold fin, ffin, FR in *. rewrite FP.div_equiv.
  assert (B2R (FP.Prim2B b) <> 0) as Nz.
  { intro E. rewrite E, Rabs_R0 in Lb. pose proof (bpow_gt_0 radix2 l). lra. }
  generalize (Bdiv_correct prec emax FP.Hprec FP.Hmax mode_NE (FP.Prim2B a) (FP.Prim2B b) Nz).
  assert (Rabs (B2R (FP.Prim2B a) / B2R (FP.Prim2B b)) <= bpow radix2 (k1 - l)) as Hs.
  { unfold Rdiv, Zminus. rewrite Rabs_mult, bpow_plus, bpow_opp, Rabs_Rinv by exact Nz.
    pose proof (bpow_gt_0 radix2 l) as Hl.
    apply Rmult_le_compat; try apply Rabs_pos; [|assumption|].
    - apply Rlt_le, Rinv_0_lt_compat. lra.
    - apply Rinv_le_contravar; lra. }
  destruct (rnd_bound _ _ Hk Hs) as [Hb Hlt]. simpl round_mode. change (SpecFloat.fexp prec emax) with (FLT_exp emin prec). rewrite Hlt.
  intros (E & F & _). rewrite E, F, Fa. auto.
Qed.

Lemma fin_opp k a : fin k a -> fin k (PrimFloat.opp a) /\ FR (PrimFloat.opp a) = - FR a.
Proof.
  intros [Fa Ba]. unfold fin, ffin, FR in *. rewrite FP.opp_equiv, is_finite_Bopp, B2R_Bopp, Rabs_Ropp. auto.
Qed.

Lemma fin_weaken k k' a : fin k a -> (k <= k')%Z -> fin k' a.
Proof. intros [F B] H. split; [exact F|]. eapply Rle_trans; [exact B|]. apply bpow_le, H. Qed.

Lemma fin_if k1 k2 (c : bool) a b : fin k1 a -> fin k2 b -> fin (Z.max k1 k2) (if c then a else b).
Proof. intros Ha Hb. destruct c; eapply fin_weaken; eauto; lia. Qed.

(* comparisons of finite numbers are the comparisons of the reals they denote *)
Lemma ltb_FR a b : ffin a -> ffin b -> PrimFloat.ltb a b = Rlt_bool (FR a) (FR b).
Proof. intros Fa Fb. rewrite FP.ltb_equiv. apply Bltb_correct; assumption. Qed.
Lemma leb_FR a b : ffin a -> ffin b -> PrimFloat.leb a b = Rle_bool (FR a) (FR b).
Proof. intros Fa Fb. rewrite FP.leb_equiv. apply Bleb_correct; assumption. Qed.

(* ---- closed constants ---- *)
Lemma const_FR c s m e : Prim2SF c = S754_finite s m e ->
  ffin c /\ FR c = IZR (cond_Zopp s (Zpos m)) * bpow radix2 e.
Proof.
  intro H. unfold ffin, FR, FP.Prim2B. rewrite is_finite_SF2B, B2R_SF2B, H. split; reflexivity.
Qed.
Lemma const_zero c s : Prim2SF c = S754_zero s -> ffin c /\ FR c = 0.
Proof. intro H. unfold ffin, FR, FP.Prim2B. rewrite is_finite_SF2B, B2R_SF2B, H. split; reflexivity. Qed.

Lemma fin_const c s m e : Prim2SF c = S754_finite s m e -> fin (Z.pos (digits2_pos m) + e) c.
Proof.
  intro H. destruct (const_FR c s m e H) as [F E]. split; [exact F|]. rewrite E.
  rewrite Rabs_mult, (Rabs_pos_eq (bpow radix2 e)) by apply bpow_ge_0.
  rewrite bpow_plus. apply Rmult_le_compat_r; [apply bpow_ge_0|].
  rewrite <- abs_IZR, abs_cond_Zopp. simpl Z.abs.
  rewrite Digits.Zpos_digits2_pos.
  apply Rlt_le. rewrite <- (Z.abs_eq (Z.pos m)) at 1 by lia. rewrite <- IZR_Zpower by (apply Digits.Zdigits_ge_0).
  apply IZR_lt. apply (Digits.Zdigits_correct radix2 (Z.pos m)).
Qed.
Lemma fin_const0 c s : Prim2SF c = S754_zero s -> fin 0 c.
Proof. intro H. destruct (const_zero c s H) as [F E]. split; [exact F|]. rewrite E, Rabs_R0. apply bpow_ge_0. Qed.

(* ---- lower bounds (for denominators) ---- *)
Definition pos (l : Z) (f : pfloat) : Prop := bpow radix2 l <= FR f.

Lemma pos_abs l f : pos l f -> bpow radix2 l <= Rabs (FR f).
Proof. unfold pos. intro H. eapply Rle_trans; [exact H|apply Rle_abs]. Qed.

Lemma fin_div' k1 k2 l a b : fin k1 a -> fin k2 b -> pos l b -> okexp (k1 - l) = true -> fin (k1 - l) (PrimFloat.div a b).
Proof. intros Ha [Fb _] Hp Hk. exact (proj1 (fin_div k1 l a b Ha Fb (pos_abs _ _ Hp) Hk)). Qed.

Lemma pos_const c m e : Prim2SF c = S754_finite false m e -> pos (Z.pos (digits2_pos m) - 1 + e) c.
Proof.
  intro H. destruct (const_FR c false m e H) as [F E]. unfold pos. rewrite E. simpl cond_Zopp.
  rewrite bpow_plus. apply Rmult_le_compat_r; [apply bpow_ge_0|].
  rewrite Digits.Zpos_digits2_pos.
  rewrite <- IZR_Zpower by (pose proof (Digits.Zdigits_gt_0 radix2 (Z.pos m)); lia).
  apply IZR_le. pose proof (Digits.Zdigits_correct radix2 (Z.pos m)) as [L _]. rewrite Z.abs_eq in L by lia. exact L.
Qed.

Lemma pos_add_l k1 k2 l a b : fin k1 a -> fin k2 b -> okexp (Z.max k1 k2 + 1) = true -> pos l a -> 0 <= FR b ->
  pos l (PrimFloat.add a b).
Proof.
  intros Ha Hb Hk Hp Hn. destruct (fin_add k1 k2 a b Ha Hb Hk) as [_ E]. unfold pos in *. rewrite E.
  eapply Rle_trans; [exact Hp|]. rewrite <- (rnd_FR a) at 1. apply rnd_le. lra.
Qed.
Lemma pos_add_r k1 k2 l a b : fin k1 a -> fin k2 b -> okexp (Z.max k1 k2 + 1) = true -> pos l b -> 0 <= FR a ->
  pos l (PrimFloat.add a b).
Proof.
  intros Ha Hb Hk Hp Hn. destruct (fin_add k1 k2 a b Ha Hb Hk) as [_ E]. unfold pos in *. rewrite E.
  eapply Rle_trans; [exact Hp|]. rewrite <- (rnd_FR b) at 1. apply rnd_le. lra.
Qed.

Lemma rnd_0' : rnd 0 = 0.
Proof. apply round_0; auto with typeclass_instances. Qed.

Lemma nonneg_sq k r : fin k r -> okexp (k + k) = true -> 0 <= FR (PrimFloat.mul r r).
Proof.
  intros Hr Hk. destruct (fin_mul k k r r Hr Hr Hk) as [_ E]. rewrite E. rewrite <- rnd_0'. apply rnd_le.
  apply Rle_0_sqr.
Qed.

Lemma FR_zero : ffin zero /\ FR zero = 0.
Proof. apply (const_zero zero false). reflexivity. Qed.

Lemma nonneg_abs r : ffin r -> 0 <= FR (if PrimFloat.ltb r zero then PrimFloat.opp r else r).
Proof.
  intro Fr. destruct FR_zero as [Fz Ez]. rewrite (ltb_FR r zero Fr Fz), Ez.
  destruct (Rlt_bool_spec (FR r) 0) as [H|H].
  - unfold FR. rewrite FP.opp_equiv, B2R_Bopp. fold (FR r). lra.
  - exact H.
Qed.

(* ---- tactics: interval propagation through an expression over primitive floats ---- *)
Ltac has_var c := match goal with x : _ |- _ => lazymatch c with context [x] => idtac end end.
Ltac fconst c :=
  tryif has_var c then fail else
  let v := eval vm_compute in (Prim2SF c) in
  lazymatch v with
  | S754_finite ?s ?m ?e => exact (fin_const c s m e (eq_refl v <: Prim2SF c = v))
  | S754_zero ?s => exact (fin_const0 c s (eq_refl v <: Prim2SF c = v))
  end.
Ltac okside := vm_compute; reflexivity.
Ltac fin_tac :=
  lazymatch goal with
  | H : fin _ ?x |- fin _ ?x => exact H
  | |- fin _ ?c =>
    first
    [ fconst c
    | lazymatch c with
      | PrimFloat.add ?a ?b => refine (proj1 (fin_add _ _ a b _ _ _)); [fin_tac|fin_tac|okside]
      | PrimFloat.sub ?a ?b => refine (proj1 (fin_sub _ _ a b _ _ _)); [fin_tac|fin_tac|okside]
      | PrimFloat.mul ?a ?b => refine (proj1 (fin_mul _ _ a b _ _ _)); [fin_tac|fin_tac|okside]
      | PrimFloat.opp ?a => refine (proj1 (fin_opp _ a _)); fin_tac
      | PrimFloat.div ?a ?b => refine (fin_div' _ _ _ a b _ _ _ _); [fin_tac|fin_tac|pos_tac|okside]
      | (if _ then ?a else ?b) => refine (fin_if _ _ _ a b _ _); [fin_tac|fin_tac]
      end ]
  end
with pos_tac :=
  lazymatch goal with
  | |- pos _ ?c =>
    first
    [ tryif has_var c then fail else
      let v := eval vm_compute in (Prim2SF c) in
      lazymatch v with S754_finite false ?m ?e => exact (pos_const c m e (eq_refl v <: Prim2SF c = v)) end
    | lazymatch c with
      | PrimFloat.add ?a ?b =>
        first [ refine (pos_add_l _ _ _ a b _ _ _ _ _); [fin_tac|fin_tac|okside|pos_tac|nonneg_tac]
              | refine (pos_add_r _ _ _ a b _ _ _ _ _); [fin_tac|fin_tac|okside|pos_tac|nonneg_tac] ]
      end ]
  end
with nonneg_tac :=
  lazymatch goal with
  | |- 0 <= FR (PrimFloat.mul ?r ?r) => refine (nonneg_sq _ r _ _); [fin_tac|okside]
  | H : fin _ ?r |- 0 <= FR (if PrimFloat.ltb ?r zero then PrimFloat.opp ?r else ?r) => exact (nonneg_abs r (proj1 H))
  end.
