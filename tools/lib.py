"""Shared machinery of the /verif checks: Coq build, translators, case evaluation inside Coq,
suite cache, violations / known findings, evidence."""
import os, sys, json, time, subprocess, hashlib, re, fcntl, glob, shutil
from fractions import Fraction

VERIF = os.path.dirname(os.path.dirname(os.path.abspath(__file__)))
REPO = os.environ.get("VERIF_REPO", "/repo")
COQ = os.path.join(VERIF, "coq")
BUILD = os.path.join(VERIF, "build")
PY = "/venv/bin/python"
QFLAGS = ["-Q", "Num", "PFV", "-Q", "Model", "PFV", "-Q", "Theory", "PFV", "-Q", "Props", "PFV",
          "-Q", "Gen", "PFV", "-Q", "Spec", "PFV", "-Q", "Corr", "PFV",
          "-w", "-notation-overridden,-deprecated"]
TRUSTED_COMMON = [
    "Coq 8.16.1 kernel including the vm_compute machine (no native_compute)",
    "hand-written Gallina model of the numpy builders (coq/Model/*.v): tied to /repo by the correspondence suites only",
    "correspondence harness (tools/): case generators, exact float->rational serialisation, tolerance 1e-9 relative",
    "floating-point rounding, numpy broadcasting and the sparse direct solver are not modelled (solver answers are checked by residual)",
]

os.makedirs(BUILD, exist_ok=True)


def sh(cmd, timeout=600, cwd=None, env=None):
    t0 = time.time()
    try:
        p = subprocess.run(cmd, cwd=cwd, env=env, stdout=subprocess.PIPE, stderr=subprocess.STDOUT,
                           timeout=timeout, text=True, shell=isinstance(cmd, str))
        return p.returncode, p.stdout, time.time() - t0
    except subprocess.TimeoutExpired as e:
        out = e.stdout if isinstance(e.stdout, str) else (e.stdout or b"").decode("utf8", "replace")
        return 124, out + "\nTIMEOUT", time.time() - t0


class Lock:
    def __init__(self, name):
        self.path = os.path.join(BUILD, name + ".lock")
    def __enter__(self):
        self.f = open(self.path, "w")
        fcntl.flock(self.f, fcntl.LOCK_EX)
    def __exit__(self, *a):
        fcntl.flock(self.f, fcntl.LOCK_UN)
        self.f.close()


def src_hash(extra=""):
    """key of the suite cache: every source file of /repo, and the part of /verif a suite result can depend on -- the suite drivers,
    generators and translators (not the per-property modules and search probes, which are never cached) and the Coq modules the
    generated case files import (Num, Model, Corr, Gen, Spec; not Theory / Props, which only hold proofs)"""
    h = hashlib.sha256()
    files = sorted(glob.glob(os.path.join(REPO, "src/pyfvtool/*.py")))
    files += sorted(glob.glob(os.path.join(VERIF, "tools/suites/*.py")))
    files += sorted(os.path.join(VERIF, "tools", f) for f in ("lib.py", "gen.py", "common.py", "tr_builders.py", "tr_limiters.py"))
    files += sorted(f for d in ("Num", "Model", "Corr", "Gen", "Spec") for f in glob.glob(os.path.join(COQ, d, "*.v")))
    for f in files:
        h.update(f.encode()); h.update(open(f, "rb").read())
    h.update(extra.encode())
    return h.hexdigest()[:24]


# ---------------------------------------------------------------- numbers -> Coq
def q_of(x):
    """exact rational literal (Qc) of a python float / int / Fraction"""
    fr = Fraction(x)
    return f"(qc ({fr.numerator}) {fr.denominator})"

def qlist(xs):
    return "[" + "; ".join(q_of(x) for x in xs) + "]"

def natlist(xs):
    return "[" + "; ".join(str(int(x)) for x in xs) + "]%nat"


# ---------------------------------------------------------------- translators / build
TRANSLATORS = [("tr_limiters.py", "Gen/Limiters.v"), ("tr_labels.py", "Gen/Labels.v"),
               ("tr_dispatch.py", "Gen/Dispatch.v"), ("tr_effects.py", "Gen/Effects.v")]

GEN_MODULE = {"tr_limiters.py": "Limiters", "tr_labels.py": "Labels", "tr_dispatch.py": "Dispatch", "tr_effects.py": "Effects"}
# correspondence suites whose case files use definitions of a generated module (the other suites only need it to exist)
SUITE_GEN = {"limiters": ["Limiters"]}   # the TVD theorems are generic in the limiter: the tvd suite only needs SOME limiter model to evaluate


def coq_import_closure(rel_v):
    """module names (flat PFV namespace) transitively imported by coq/<rel_v>, from the Require lines of the sources"""
    files = {}
    for d, _, fs in os.walk(COQ):
        for f in fs:
            if f.endswith(".v"):
                files[f[:-2]] = os.path.join(d, f)
    seen, todo = set(), [os.path.join(COQ, rel_v)]
    while todo:
        path = todo.pop()
        try:
            txt = open(path).read()
        except OSError:
            continue
        for m in re.finditer(r"From\s+PFV\s+Require\s+(?:Import|Export)\s+([^.]*)\.", txt):
            for name in m.group(1).split():
                if name not in seen:
                    seen.add(name)
                    if name in files:
                        todo.append(files[name])
    return seen


def regenerate():
    """Run every translator against the current /repo tree. Returns list of (translator, message) failures."""
    fails = []
    os.makedirs(os.path.join(COQ, "Gen"), exist_ok=True)
    for script, dst in TRANSLATORS:
        sp = os.path.join(VERIF, "tools", script)
        if not os.path.exists(sp):
            continue
        rc, out, _ = sh([PY, sp, REPO, os.path.join(COQ, dst)], timeout=60)
        if rc != 0:
            fails.append((script, out.strip()[-600:]))
            # keep the rest of the development buildable: the last committed good output stands in for the module, and every
            # property ABOUT the module is reported broken (Ctx.prove / common.run_suites)
            lg = os.path.join(COQ, "GenLastGood", os.path.basename(dst))
            if not os.path.exists(os.path.join(COQ, dst)) and os.path.exists(lg):
                shutil.copy(lg, os.path.join(COQ, dst))
    return fails


def coq_make(targets, timeout=1500):
    """make the given .vo targets; returns (ok, log, failing) where failing = dict(file, line, proof, msg)"""
    with Lock("coqmake"):
        if not os.path.exists(os.path.join(COQ, "Makefile")) or \
           os.path.getmtime(os.path.join(COQ, "Makefile")) < os.path.getmtime(os.path.join(COQ, "_CoqProject")):
            sh(["coq_makefile", "-f", "_CoqProject", "-o", "Makefile"], cwd=COQ)
        rc, out, dt = sh(["make", "-j12", "-k"] + targets, timeout=timeout, cwd=COQ)
    failing = None
    if rc != 0:
        m = re.search(r'File "\./([^"]+)", line (\d+), characters [\d-]+:\s*\n(?:Warning[^\n]*\n)?Error:\s*(.*?)(?:\n\n|\nmake|\Z)', out, re.S)
        failing = {"file": None, "line": None, "proof": None, "msg": out[-1500:]}
        for m in re.finditer(r'File "\./([^"]+)", line (\d+), characters [\d-]+:\s*\nError:\s*(.*?)(?=\n\n|\nmake|\Z)', out, re.S):
            failing["file"], failing["line"], failing["msg"] = m.group(1), int(m.group(2)), m.group(3)[:800]
            pm = re.search(r"\(in proof ([A-Za-z0-9_']+)\)", m.group(3))
            if pm:
                failing["proof"] = pm.group(1)
            else:
                failing["proof"] = enclosing_proof(os.path.join(COQ, m.group(1)), int(m.group(2)))
            break
    return rc == 0, out, failing


def enclosing_proof(path, line):
    try:
        lines = open(path).read().split("\n")[:line]
    except OSError:
        return None
    for l in reversed(lines):
        m = re.match(r"\s*(?:Theorem|Lemma|Example|Corollary|Definition|Fixpoint|Fact)\s+([A-Za-z0-9_']+)", l)
        if m:
            return m.group(1)
    return None


def theorems_of(vfile):
    txt = open(os.path.join(COQ, vfile)).read()
    return re.findall(r"^\s*(?:Theorem|Example|Corollary)\s+([A-Za-z0-9_']+)", txt, re.M)


def coq_eval(name, vtext, timeout=600):
    """compile a generated file under build/cases/, return (rc, stdout)"""
    d = os.path.join(BUILD, "cases")
    os.makedirs(d, exist_ok=True)
    p = os.path.join(d, name + ".v")
    open(p, "w").write(vtext)
    rc, out, dt = sh(["coqc"] + QFLAGS + [p], cwd=COQ, timeout=timeout)
    for ext in (".vo", ".glob", ".vok", ".vos"):
        try: os.remove(os.path.join(d, name + ext))
        except OSError: pass
    try: os.remove(os.path.join(d, "." + name + ".aux"))
    except OSError: pass
    return rc, out


def coq_eval_many(items, timeout=900, par=14):
    """items: list of (name, vtext); run in parallel; returns dict name -> (rc, out)"""
    from concurrent.futures import ThreadPoolExecutor
    res = {}
    with ThreadPoolExecutor(max_workers=par) as ex:
        futs = {n: ex.submit(coq_eval, n, t, timeout) for n, t in items}
        for n, f in futs.items():
            res[n] = f.result()
    return res


def print_assumptions(prop, thms):
    """returns dict theorem -> list of axiom names ([] = closed under the global context)"""
    if not thms:
        return {}
    v = f"From PFV Require Import {prop}.\n" + "".join(
        f'Goal True. idtac "@@{t}". exact I. Qed.\nPrint Assumptions {t}.\n' for t in thms)
    rc, out = coq_eval("assump_" + prop, v, timeout=600)
    res = {}
    if rc != 0:
        return None
    cur = None
    for line in out.split("\n"):
        if line.startswith("@@"):
            cur = line[2:].strip(); res[cur] = []
        elif cur and re.match(r"^[A-Za-z_][A-Za-z0-9_.']*\s*$", line.strip()) and not line.startswith(" ") \
                and line.strip() not in ("Axioms", "Closed"):
            res[cur].append(line.strip())
        elif cur:
            m = re.match(r"^([A-Za-z_][A-Za-z0-9_.']*)\s*:(?!=)", line)
            if m and not line.startswith(" ") and m.group(1) != "Axioms":
                res[cur].append(m.group(1))
    return res


FORBIDDEN = re.compile(r"\b(Admitted|admit|Axiom|Axioms|Parameter|Parameters|Conjecture|Conjectures|Abort All|bypass_check|Unset Guard Checking|Unset Positivity Checking|Unset Universe Checking|Admit Obligations|native_compute)\b")

def grep_gate():
    """no Admitted / Axiom / ... anywhere in the development (comments stripped)"""
    bad = []
    for f in sorted(glob.glob(os.path.join(COQ, "*/*.v"))):
        txt = open(f).read()
        txt = re.sub(r"\(\*.*?\*\)", "", txt, flags=re.S)
        for i, l in enumerate(txt.split("\n")):
            if FORBIDDEN.search(l):
                bad.append(f"{os.path.relpath(f, COQ)}:{i+1}: {l.strip()[:100]}")
            if re.match(r"\s*(Variable|Variables|Hypothesis|Hypotheses)\b", l):
                pass  # section-scoped use is checked by Print Assumptions (global ones would show up as axioms)
    return bad


def parse_summary(out):
    """parse '= (n, nbad, None|Some i)' printed by Eval vm_compute in (summary ...)"""
    o = out.replace("\n", " ").replace("%nat", "")
    m = re.search(r"=\s*\(\s*(\d+)\s*,\s*(\d+)\s*,\s*(None|Some\s+(\d+))\s*\)", o)
    if not m:
        return None
    return int(m.group(1)), int(m.group(2)), (int(m.group(4)) if m.group(4) is not None else None)


def parse_report(out):
    """parse '= (n, [i; j; ...])' printed by Eval vm_compute in (report ...); returns (n, [bad]) or None"""
    o = out.replace("\n", " ").replace("%nat", "")
    m = re.search(r"=\s*\(\s*(\d+)\s*,\s*\[([\d;\s]*)\]\s*\)", o)
    if not m:
        return None
    bad = [int(x) for x in m.group(2).replace(";", " ").split()]
    return int(m.group(1)), bad


# ---------------------------------------------------------------- known findings
def load_known():
    p = os.path.join(VERIF, "known_findings.jsonl")
    out = []
    if os.path.exists(p):
        for l in open(p):
            l = l.strip()
            if l:
                out.append(json.loads(l))
    return out


class Ctx:
    def __init__(self, prop, tier, seed):
        self.prop, self.tier, self.seed = prop, tier, seed
        self.t0 = time.time()
        self.obligations = []      # names
        self.discharged = []
        self.broken = []           # dicts: kind (translator|proof|correspondence), name, detail
        self.violations = []       # dicts: key, what, replay(obj), found (bool)
        self.suites = {}           # name -> summary dict
        self.samples = []
        self.evaluations = 0
        self.distinct = set()
        self.assumptions = {}
        self.checker_cmd = ""
        self.notes = []
        self.dist = {}

    # --- recording
    def add_cases(self, suite, n, nontrivial_keys, samples=(), dist=None, traces=0):
        s = self.suites.setdefault(suite, {"cases": 0, "bad": 0})
        s["cases"] += n
        self.evaluations += n
        for k in nontrivial_keys:
            self.distinct.add(suite + ":" + k)
        for x in samples:
            if len(self.samples) < 6:
                self.samples.append({"suite": suite, "case": x})
        if dist:
            d = self.dist.setdefault(suite, {})
            for k, v in dist.items():
                d[k] = d.get(k, 0) + v

    def broke(self, kind, name, detail=""):
        self.broken.append({"kind": kind, "name": name, "detail": str(detail)[:1500]})
        if kind == "correspondence":
            self.suites.setdefault(name.split("/")[0], {"cases": 0, "bad": 0})["bad"] += 1

    def violation(self, key, what, replay, found=True):
        for v in self.violations:
            if v["key"] == key:
                return
        self.violations.append({"key": key, "what": what, "replay": replay, "found": found})

    # --- build + obligations
    def prove(self, prop_file, extra_targets=()):
        """regenerate, build Props/<prop_file>.vo; records obligations. Returns True iff all discharged."""
        allfails = regenerate()
        # a translator that no longer understands its source file breaks the properties whose theorems (or correspondence
        # suites, see common.run_suites) are ABOUT the generated module -- not the others
        closure = coq_import_closure(f"Props/{prop_file}.v")
        self.translator_fails = {GEN_MODULE.get(script, script): (script, msg) for script, msg in allfails}
        fails = [(script, msg) for script, msg in allfails
                 if GEN_MODULE.get(script, script) in closure or not os.path.exists(os.path.join(COQ, "Gen", GEN_MODULE.get(script, "?") + ".v"))]
        for script, msg in fails:
            self.broke("translator", script, msg)
        target = f"Props/{prop_file}.vo"
        self.checker_cmd = f"python tools/tr_*.py /repo coq/Gen/ && make -C coq {target} && coqc Print-Assumptions file (tools/lib.py: coq_make, print_assumptions)"
        thms = theorems_of(f"Props/{prop_file}.v")
        self.obligations = thms
        if fails:
            # the generated file is stale/absent: the theorems about it are not re-checked
            return False
        ok, log, failing = coq_make([target] + list(extra_targets))
        if not ok:
            self.broke("proof", (failing or {}).get("proof") or target,
                       json.dumps(failing) if failing else log[-1500:])
            return False
        self.discharged = list(thms)
        gate = grep_gate()
        if gate:
            self.broke("proof", "grep-gate", "; ".join(gate[:5]))
            return False
        a = print_assumptions(prop_file, thms)
        if a is None:
            self.broke("proof", "Print Assumptions " + prop_file, "could not evaluate")
            return False
        self.assumptions = a
        allowed = ("ClassicalDedekindReals.sig_forall_dec", "ClassicalDedekindReals.sig_not_dec",
                   "FunctionalExtensionality.functional_extensionality_dep", "Classical_Prop.classic")
        # primitive 63-bit integers / binary64 floats of the kernel and the standard library's specification of them
        # (Coq.Floats.FloatAxioms, used through Flocq) are the standard library's own declarations: named in the trusted base
        prim = ("PrimFloat.", "PrimInt63.", "FloatAxioms.", "Uint63Axioms.", "Uint63.", "FloatOps.")
        for t, axs in a.items():
            for ax in axs:
                if ax not in allowed and not ax.startswith(prim):
                    self.broke("proof", t, f"depends on non-stdlib axiom {ax}")
        return not self.broken

    # --- finish
    def finish(self):
        os.makedirs(os.path.join(VERIF, "replays"), exist_ok=True)
        os.makedirs(os.environ.get("VERIF_EVIDENCE_DIR", os.path.join(VERIF, "evidence")), exist_ok=True)
        known = [k for k in load_known() if k.get("property") == self.prop and k.get("status") == "known"]
        # a broken obligation with no concrete violation found is still a violation
        # (a concrete violation that is a listed known finding does not account for a broken obligation: only an unlisted one does)
        knownkeys = {k.get("key") for k in known}
        if self.broken and not any(v["found"] and v["key"] not in knownkeys for v in self.violations):
            names = ", ".join(f"{b['kind']}:{b['name']}" for b in self.broken)
            self.violations.append({"key": "unproved:" + names, "what": "obligation(s) no longer check: " + names,
                                    "replay": {"broken": self.broken}, "found": False})
        lines = []
        n_viol = 0
        for v in self.violations:
            kn = [k for k in known if k.get("key") == v["key"]]
            if kn:
                lines.append(f"KNOWN-FINDING: property={self.prop} {kn[0].get('what', v['what'])}")
                continue
            n_viol += 1
            rp = os.path.join(VERIF, "replays", f"{self.prop}_{hashlib.sha1(v['key'].encode()).hexdigest()[:10]}.json")
            json.dump({"property": self.prop, "key": v["key"], "what": v["what"], "broken": self.broken,
                       "replay": v["replay"], "seed": self.seed, "tier": self.tier}, open(rp, "w"), indent=1, default=str)
            tail = "" if v["found"] else " no-failing-input-found"
            lines.append(f"VIOLATION property={self.prop} replay={rp} what={v['what'][:200]!r}{tail}")
        # known findings listed but not re-observed are simply not printed
        axioms = sorted({a for axs in self.assumptions.values() for a in axs})
        tb = list(TRUSTED_COMMON) + ["axioms reported by Print Assumptions over all theorems of this property: "
                                     + (", ".join(axioms) if axioms else "none (closed under the global context)")]
        tb += getattr(self, "extra_trusted", [])
        ev = {
            "property_id": self.prop, "tier": self.tier, "seed": self.seed, "level": "proof",
            "coverage": {
                "obligations": max(1, len(self.obligations)),
                "discharged": len(self.discharged),
                "checker_cmd": self.checker_cmd or "make -C coq",
                "trusted_base": tb,
                "theorems": self.obligations,
                "assumptions_per_theorem": self.assumptions,
                "evaluations": self.evaluations,
                "distinct_nontrivial": len(self.distinct),
                "rule": getattr(self, "rule", "cases distinct by content key; non-trivial per suite rule"),
                "samples": self.samples or [{"note": "no correspondence cases in this run"}],
                "traces_validated_against_impl": self.evaluations,
                "suites": self.suites,
                "input_distribution": self.dist,
                "broken": self.broken,
                "notes": self.notes,
            },
            "assumptions": tb,
            "wall_s": round(time.time() - self.t0, 2),
            "violations": n_viol,
        }
        if not self.discharged:
            # schema: a proof-level record needs discharged >= 1; an unproved run falls back to the generic keys
            ev["coverage"]["discharged_count"] = ev["coverage"].pop("discharged")
            ev["coverage"]["evaluations"] = max(1, ev["coverage"]["evaluations"])
        json.dump(ev, open(os.path.join(os.environ.get("VERIF_EVIDENCE_DIR", os.path.join(VERIF, "evidence")), f"{self.prop}.json"), "w"), indent=1, default=str)
        for l in lines[:8]:
            print(l)
        if len(lines) > 8:
            print(f"... {len(lines) - 8} further lines suppressed (all replays are under replays/)")
        print(f"[{self.prop}] tier={self.tier} obligations={len(self.discharged)}/{len(self.obligations)} "
              f"cases={self.evaluations} violations={n_viol} wall={ev['wall_s']}s")
        sys.exit(1 if n_viol else 0)


# ---------------------------------------------------------------- suite cache
def cached_suite(name, tier, seed, fn):
    """fn() -> json-able dict. Cached on the content of /repo sources, /verif tools and model."""
    key = src_hash(f"{name}|{tier}|{seed}")
    d = os.path.join(BUILD, "cache")
    os.makedirs(d, exist_ok=True)
    p = os.path.join(d, f"{name}_{key}.json")
    if os.path.exists(p) and not os.environ.get("VERIF_NOCACHE"):
        try:
            r = json.load(open(p)); r["cached"] = True
            return r
        except Exception:
            pass
    with Lock("suite_" + name):
        if os.path.exists(p) and not os.environ.get("VERIF_NOCACHE"):
            r = json.load(open(p)); r["cached"] = True
            return r
        r = fn()
        json.dump(r, open(p + ".tmp", "w"), default=str)
        os.replace(p + ".tmp", p)
    r["cached"] = False
    return r
