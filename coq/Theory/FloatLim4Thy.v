(* Binary64 finiteness of CHARM:  [r>0] r (3r+1) / ((r+1)^2 + eps [r = -1]).
   r > 0: the denominator is >= 1.  r <= 0: the numerator is exactly zero and the denominator is a non-zero float: at r = -1 the guard eps;
   otherwise rnd(r+1)^2 cannot underflow to zero, because a float r with 1/2 <= |r| is a multiple of 2^-53, so that |r + 1| >= 2^-53. *)
From Coq Require Import ZArith Reals Lra Lia Bool Floats String List.
From Flocq Require Import Core.Core IEEE754.BinarySingleNaN.
From PFV Require Import OField KOps F64Ops FloatThy Limiters LimiterThy FloatLimThy FloatLim2Thy FloatLim3Thy.
Local Open Scope R_scope.
Local Instance prec_pos4 : Prec_gt_0 prec := eq_refl.
Local Instance fexp_valid4 : Valid_exp fexp := FLT_exp_valid emin prec.

(* granularity: a float of magnitude at least 1/2 is an integer multiple of 2^-53 *)
Lemma granular r : / 2 <= Rabs (FR r) -> exists n : Z, FR r = IZR n * bpow radix2 (-53).
Proof.
  intro H. pose proof (fmt_FR r) as G. unfold generic_format in G. set (x := FR r) in *.
  assert (Hm : (0 <= mag radix2 x)%Z).
  { apply mag_ge_bpow. simpl. replace (IZR (Z.pow_pos 2 1)) with 2 by (simpl; lra). exact H. }
  assert (He : (-53 <= cexp radix2 fexp x)%Z).
  { unfold cexp, FLT_exp, emin, emax, prec. lia. }
  exists (Ztrunc (scaled_mantissa radix2 fexp x) * 2 ^ (cexp radix2 fexp x + 53))%Z.
  rewrite G at 1. unfold F2R. simpl Fnum. simpl Fexp.
  rewrite mult_IZR. rewrite (IZR_Zpower radix2) by lia. rewrite Rmult_assoc. f_equal.
  rewrite <- bpow_plus. f_equal. lia.
Qed.

Lemma fmt_b k : (emin <= k)%Z -> rnd (bpow radix2 k) = bpow radix2 k.
Proof. intro H. apply round_generic; [auto with typeclass_instances|apply fmt_bpow; exact H]. Qed.
Lemma fmt_mb k : (emin <= k)%Z -> rnd (- bpow radix2 k) = - bpow radix2 k.
Proof. intro H. apply round_generic; [auto with typeclass_instances|apply generic_format_opp, fmt_bpow; exact H]. Qed.

(* rnd(r + 1) is at least 2^-53 in magnitude for every float r <> -1 *)
Lemma add_one_away r : ffin r -> FR r <> -1 -> bpow radix2 (-53) <= Rabs (rnd (FR r + 1)).
Proof.
  intros Fr Ne. set (x := FR r).
  assert (B : bpow radix2 (-53) <= / 2) by (replace (/ 2) with (bpow radix2 (-1)) by (simpl; lra); apply bpow_le; lia).
  assert (E53 : (emin <= -53)%Z) by (unfold emin, emax, prec; lia).
  destruct (Rle_or_lt (- / 2) x) as [H1|H1].
  - (* r >= -1/2: r + 1 >= 1/2 *)
    assert (/ 2 <= rnd (x + 1)) by (rewrite <- rnd_half; apply rnd_le; lra).
    rewrite Rabs_pos_eq by lra. lra.
  - destruct (Rle_or_lt x (-2)) as [H2|H2].
    + assert (rnd (x + 1) <= -1).
      { replace (-1) with (- bpow radix2 0) by (simpl; lra). rewrite <- (fmt_mb 0) by (unfold emin, emax, prec; lia). apply rnd_le. simpl. lra. }
      rewrite Rabs_left by lra. lra.
    + (* -2 < r < -1/2: r is a multiple of 2^-53 *)
      destruct (granular r) as (n & En); [fold x; rewrite Rabs_left by lra; lra|]. fold x in En.
      assert (Hn : x + 1 = IZR (n + 2 ^ 53) * bpow radix2 (-53)).
      { rewrite plus_IZR, Rmult_plus_distr_r, <- En. rewrite (IZR_Zpower radix2) by lia. rewrite <- bpow_plus. simpl. lra. }
      assert (Nz : (n + 2 ^ 53 <> 0)%Z).
      { intro E0. rewrite E0 in Hn. simpl in Hn. apply Ne. fold x. lra. }
      pose proof (bpow_gt_0 radix2 (-53)) as Bp.
      destruct (Z_lt_le_dec (n + 2 ^ 53) 0) as [Hl|Hl].
      * assert (IZR (n + 2 ^ 53) <= -1) by (apply IZR_le; lia).
        assert (x + 1 <= - bpow radix2 (-53)) by (rewrite Hn; nra).
        assert (rnd (x + 1) <= - bpow radix2 (-53)) by (rewrite <- (fmt_mb (-53) E53); apply rnd_le; assumption).
        rewrite Rabs_left by lra. lra.
      * assert (1 <= IZR (n + 2 ^ 53)) by (apply IZR_le; lia).
        assert (bpow radix2 (-53) <= x + 1) by (rewrite Hn; nra).
        assert (bpow radix2 (-53) <= rnd (x + 1)) by (rewrite <- (fmt_b (-53) E53); apply rnd_le; assumption).
        rewrite Rabs_pos_eq by lra. lra.
Qed.

Lemma mul_zero_l k1 k2 a b : fin k1 a -> fin k2 b -> okexp (k1 + k2) = true -> FR a = 0 ->
  fin (k1 + k2) (PrimFloat.mul a b) /\ FR (PrimFloat.mul a b) = 0.
Proof. intros Ha Hb Hk E. destruct (fin_mul k1 k2 a b Ha Hb Hk) as [F R]. split; [exact F|]. rewrite R, E, Rmult_0_l. apply rnd_0'. Qed.

Lemma float_CHARM eps r : fin 0 eps -> 0 < FR eps -> fin 500 r -> ffin (FL_CHARM FOps eps r).
Proof.
  intros He Hep Hr. unfold_model.
  destruct FR_zero as [Fz Ez]. destruct FR_one as [F1 E1].
  assert (H1 : fin 1 one) by fin_tac. assert (H0 : fin 0 zero) by fin_tac.
  assert (Hm1 : ffin (- one)%float /\ FR (- one)%float = -1) by (destruct (fin_opp 1 one H1) as [[F _] E]; rewrite E1 in E; split; assumption).
  destruct (fin_add 500 1 r one Hr H1 eq_refl) as [Hx Ex]. rewrite E1 in Ex.
  destruct (fin_mul _ _ _ _ Hx Hx eq_refl) as [Hs Es].
  set (x := (r + one)%float) in *. set (sq := (x * x)%float) in *.
  assert (Hsn : 0 <= FR sq) by (rewrite Es; rewrite <- rnd_0'; apply rnd_le; apply Rle_0_sqr).
  assert (Hb : fin 1 (if (r =? - one)%float then one else zero)) by (destruct (r =? - one)%float; [exact H1|eapply fin_weaken; [exact H0|lia]]).
  assert (Hg : fin (0 + 1) (eps * (if (r =? - one)%float then one else zero))%float) by (apply fin_mul; [assumption|assumption|reflexivity]).
  assert (Hd : fin (Z.max (Z.max 500 1 + 1 + (Z.max 500 1 + 1)) (0 + 1) + 1) (sq + eps * (if (r =? - one)%float then one else zero))%float)
    by (apply fin_add; [assumption|assumption|reflexivity]).
  rewrite (ltb_FR zero r Fz (proj1 Hr)), Ez in *.
  destruct (Rlt_bool_spec 0 (FR r)) as [Hpos|Hneg].
  - (* r > 0 *)
    assert (Hx1 : 1 <= FR x) by (rewrite Ex; rewrite <- rnd_1 at 1; apply rnd_le; lra).
    assert (Hs1 : 1 <= FR sq) by (rewrite Es; rewrite <- rnd_1 at 1; apply rnd_le; nra).
    assert (Hgn : 0 <= FR (eps * (if (r =? - one)%float then one else zero))%float).
    { destruct (r =? - one)%float.
      - rewrite (mul_one_r 0 eps He eq_refl). lra.
      - assert (Hz : fin (0 + 0) (eps * zero)%float /\ FR (eps * zero)%float = 0) by (apply mul_zero_r; [assumption|assumption|reflexivity|assumption]).
        rewrite (proj2 Hz). lra. }
    assert (Hp : pos 0 (sq + eps * (if (r =? - one)%float then one else zero))%float).
    { apply (pos_add_l _ _ 0 sq _ Hs Hg eq_refl); [unfold pos; simpl bpow; lra|exact Hgn]. }
    assert (Hn : { k : Z | fin k (one * r * ((one + (one + one)) * r + one))%float /\ okexp (k - 0) = true }).
    { eexists. split; [fin_tac|vm_compute; reflexivity]. }
    destruct Hn as (k & Hn & Hok).
    exact (proj1 (fin_div' _ _ _ _ _ Hn Hd Hp Hok)).
  - (* r <= 0: the numerator is exactly zero *)
    assert (Hz : fin (0 + 500) (zero * r)%float /\ FR (zero * r)%float = 0) by (apply mul_zero_l; [assumption|assumption|reflexivity|assumption]).
    destruct Hz as [Hz Ezr].
    assert (Hf : { k : Z | fin k ((one + (one + one)) * r + one)%float /\ okexp (0 + 500 + k) = true }).
    { eexists. split; [fin_tac|vm_compute; reflexivity]. }
    destruct Hf as (k & Hf & Hok).
    assert (Hn : fin (0 + 500 + k) (zero * r * ((one + (one + one)) * r + one))%float /\ FR (zero * r * ((one + (one + one)) * r + one))%float = 0)
      by (apply mul_zero_l; assumption).
    destruct Hn as [Hn En].
    assert (Dn : FR (sq + eps * (if (r =? - one)%float then one else zero))%float <> 0).
    { rewrite (eqb_FR r (- one)%float (proj1 Hr) (proj1 Hm1)), (proj2 Hm1).
      destruct (Req_bool_spec (FR r) (-1)) as [Eq|Ne].
      - (* r = -1: x = 0, sq = 0, the guard *)
        assert (Ex0 : FR x = 0) by (rewrite Ex, Eq; replace (-1 + 1) with 0 by ring; apply rnd_0').
        assert (Es0 : FR sq = 0) by (rewrite Es, Ex0, Rmult_0_l; apply rnd_0').
        assert (Hm : fin (0 + 1) (eps * one)%float) by (apply fin_mul; [assumption|assumption|reflexivity]).
        assert (Hd' : fin (Z.max (Z.max 500 1 + 1 + (Z.max 500 1 + 1)) (0 + 1) + 1) (sq + eps * one)%float /\ FR (sq + eps * one)%float = FR (eps * one)%float)
          by (apply add_zero_l; [assumption|assumption|reflexivity|assumption]).
        rewrite (proj2 Hd'), (mul_one_r 0 eps He eq_refl). lra.
      - assert (Hm : fin (0 + 0) (eps * zero)%float /\ FR (eps * zero)%float = 0) by (apply mul_zero_r; [assumption|assumption|reflexivity|assumption]).
        assert (Hd' : fin (Z.max (Z.max 500 1 + 1 + (Z.max 500 1 + 1)) (0 + 0) + 1) (sq + eps * zero)%float /\ FR (sq + eps * zero)%float = FR sq)
          by (apply add_zero_r; [assumption|exact (proj1 Hm)|reflexivity|exact (proj2 Hm)]).
        rewrite (proj2 Hd').
        pose proof (add_one_away r (proj1 Hr) Ne) as Aw. rewrite <- Ex in Aw.
        assert (E106 : (emin <= -106)%Z) by (unfold emin, emax, prec; lia).
        assert (bpow radix2 (-106) <= FR x * FR x).
        { replace (-106)%Z with (-53 + -53)%Z by lia. rewrite bpow_plus.
          pose proof (bpow_gt_0 radix2 (-53)). 
          replace (FR x * FR x) with (Rabs (FR x) * Rabs (FR x)) by (rewrite <- Rabs_mult; apply Rabs_pos_eq, Rle_0_sqr).
          apply Rmult_le_compat; lra. }
        assert (bpow radix2 (-106) <= FR sq) by (rewrite Es, <- (fmt_b (-106) E106); apply rnd_le; assumption).
        pose proof (bpow_gt_0 radix2 (-106)). lra. }
    exact (proj1 (div_zero_num _ _ _ Hn En (proj1 Hd) Dn)).
Qed.
