(* C04 / C12: properties of every solution of the system solvePDE assembles. *)
From Coq Require Import Arith List Bool Field Lia Permutation.
From PFV Require Import OField KOps Grid Ops Boundary Solver StencilThy.
Import ListNotations.

Section SolverThy.
Variable F : FieldOps.
Variable L : FieldLaws F.
Add Field FFs2 : (FL_field F L).
Local Notation K := (K F).
Local Notation "0" := (k0 F).
Local Notation "1" := (k1 F).
Local Infix "+" := (kadd F).
Local Infix "*" := (kmul F).
Local Infix "-" := (ksub F).
Local Infix "/" := (kdiv F).
Local Notation Mesh := (Mesh F).

Lemma ksum_app (l1 l2 : list K) : ksum F (l1 ++ l2) = ksum F l1 + ksum F l2.
Proof. unfold ksum. induction l1 as [|x l IH]; cbn [app fold_right]; [ring|]. rewrite IH. ring. Qed.
Lemma ksum_perm (l1 l2 : list K) : Permutation l1 l2 -> ksum F l1 = ksum F l2.
Proof.
  unfold ksum. induction 1 as [|x l l' _ IH|x y l|l l' l'' _ IH1 _ IH2]; cbn [fold_right] in *.
  - reflexivity.
  - rewrite IH. reflexivity.
  - ring.
  - congruence.
Qed.
Lemma ksum_lin (A : Type) (f g : A -> K) (k : K) (l : list A) :
  ksum F (map (fun a => k * f a + g a) l) = k * ksum F (map f l) + ksum F (map g l).
Proof. unfold ksum. induction l as [|a l IH]; cbn [map fold_right]; [ring|]. rewrite IH. ring. Qed.

Definition lincomb (k : K) (x y : cvar F) : cvar F := fun c => k * x c + y c.

Lemma apply_stencil_lin (m : Mesh) AWc APc AEc (k : K) (x y : cvar F) c :
  apply_stencil F m AWc APc AEc (lincomb k x y) c
  = k * apply_stencil F m AWc APc AEc x c + apply_stencil F m AWc APc AEc y c.
Proof.
  unfold apply_stencil, sum_axes. rewrite <- ksum_lin. f_equal. apply map_ext. intros a.
  unfold apply_axis, lincomb. ring.
Qed.

(* every matrix term is linear in the unknown *)
Lemma term_lhs_lin (m : Mesh) (t : term F) (k : K) (x y : cvar F) c :
  term_lhs F m t (lincomb k x y) c = k * term_lhs F m t x c + term_lhs F m t y c.
Proof.
  destruct t; cbn [term_lhs]; rewrite ?apply_stencil_lin; unfold lincomb; ring.
Qed.
Theorem sys_lhs_lin (m : Mesh) (ts : list (term F)) (k : K) (x y : cvar F) c :
  sys_lhs F m ts (lincomb k x y) c = k * sys_lhs F m ts x c + sys_lhs F m ts y c.
Proof.
  unfold sys_lhs. rewrite <- ksum_lin. f_equal. apply map_ext. intros t. apply term_lhs_lin.
Qed.
Lemma row_apply_lin (m : Mesh) (row : list (nat * K)) (k : K) (x y : nat -> K) :
  row_apply F m row (fun r => k * x r + y r) = k * row_apply F m row x + row_apply F m row y.
Proof. unfold row_apply. induction row as [|[c v] l IH]; cbn [fold_right fst snd]; [ring|]. rewrite IH. ring. Qed.
Theorem bc_lhs_lin (m : Mesh) (bc : BCs F) (k : K) (x y : cvar F) g :
  bc_lhs F m bc (lincomb k x y) g = k * bc_lhs F m bc x g + bc_lhs F m bc y g.
Proof. unfold bc_lhs, lincomb. apply row_apply_lin. Qed.

(* the order of the terms in the list is irrelevant *)
Theorem sys_perm (m : Mesh) (ts ts' : list (term F)) (x : cvar F) c :
  Permutation ts ts' -> sys_lhs F m ts x c = sys_lhs F m ts' x c /\ sys_rhs F m ts c = sys_rhs F m ts' c.
Proof.
  intros H. unfold sys_lhs, sys_rhs. split; apply ksum_perm; apply Permutation_map; exact H.
Qed.
Theorem solution_perm (m : Mesh) (bc : BCs F) (ts ts' : list (term F)) (x : cvar F) :
  Permutation ts ts' -> is_solution F m bc ts x -> is_solution F m bc ts' x.
Proof.
  intros H [H1 H2]. split; [|exact H2]. intros c Hc.
  destruct (sys_perm m ts ts' x c H) as [E1 E2]. rewrite <- E1, <- E2. apply H1. exact Hc.
Qed.

(* superposition: the solution depends linearly on everything that enters through right-hand sides
   (sources, boundary data c, previous-step values) *)
Theorem superposition (m : Mesh) (bc : BCs F) (ts : list (term F)) (k : K) (x y : cvar F) (r1 r2 b1 b2 : cell -> K) :
  (forall c, interior F m c = true -> sys_lhs F m ts x c = r1 c) ->
  (forall c, interior F m c = true -> sys_lhs F m ts y c = r2 c) ->
  (forall g, interior F m g = false -> bc_lhs F m bc x g = b1 g) ->
  (forall g, interior F m g = false -> bc_lhs F m bc y g = b2 g) ->
  (forall c, interior F m c = true -> sys_lhs F m ts (lincomb k x y) c = k * r1 c + r2 c) /\
  (forall g, interior F m g = false -> bc_lhs F m bc (lincomb k x y) g = k * b1 g + b2 g).
Proof.
  intros H1 H2 H3 H4. split.
  - intros c Hc. rewrite sys_lhs_lin, (H1 c Hc), (H2 c Hc). reflexivity.
  - intros g Hg. rewrite bc_lhs_lin, (H3 g Hg), (H4 g Hg). reflexivity.
Qed.

(* ================= C12 ================= *)
(* backward Euler: alpha*(new-old)/dt + (spatial terms applied to new) = sources, in every interior cell *)
Theorem backward_euler_row (m : Mesh) (bc : BCs F) (sp : list (term F)) alpha (dt : K) old x c :
  dt <> 0 -> is_solution F m bc (TTrans F alpha dt old :: sp) x -> interior F m c = true ->
  alpha c * (x c - old c) / dt + sys_lhs F m sp x c = sys_rhs F m sp c.
Proof.
  intros Hdt [H1 _] Hc. specialize (H1 c Hc). unfold sys_lhs, sys_rhs in *.
  cbn [map ksum fold_right term_lhs term_rhs] in H1. unfold ksum.
  transitivity ((alpha c / dt * x c + fold_right (kadd F) 0 (map (fun t => term_lhs F m t x c) sp)) - alpha c * old c / dt).
  - field. exact Hdt.
  - rewrite H1. ring.
Qed.
(* a solution of the steady problem is reproduced unchanged by a transient step of any dt and alpha *)
Theorem steady_is_fixed_point (m : Mesh) (bc : BCs F) (sp : list (term F)) alpha (dt : K) x :
  dt <> 0 -> is_solution F m bc sp x -> is_solution F m bc (TTrans F alpha dt x :: sp) x.
Proof.
  intros Hdt [H1 H2]. split; [|exact H2]. intros c Hc. specialize (H1 c Hc).
  unfold sys_lhs, sys_rhs in *. cbn [map ksum fold_right term_lhs term_rhs]. unfold ksum in H1. rewrite H1.
  field. exact Hdt.
Qed.
(* conversely a transient step that returns its old field has reached the steady state *)
Theorem fixed_point_is_steady (m : Mesh) (bc : BCs F) (sp : list (term F)) alpha (dt : K) x :
  dt <> 0 -> is_solution F m bc (TTrans F alpha dt x :: sp) x -> is_solution F m bc sp x.
Proof.
  intros Hdt Hs. destruct Hs as [H1 H2]. split; [|exact H2]. intros c Hc.
  pose proof (backward_euler_row m bc sp alpha dt x x c Hdt (conj H1 H2) Hc) as E.
  rewrite <- E. field. exact Hdt.
Qed.
(* the exact identity behind the limits dt -> 0 and dt -> infinity *)
Theorem increment_identity (m : Mesh) (bc : BCs F) (sp : list (term F)) alpha (dt : K) old x c :
  dt <> 0 -> alpha c <> 0 -> is_solution F m bc (TTrans F alpha dt old :: sp) x -> interior F m c = true ->
  x c - old c = dt / alpha c * (sys_rhs F m sp c - sys_lhs F m sp x c).
Proof.
  intros Hdt Ha Hs Hc. rewrite <- (backward_euler_row m bc sp alpha dt old x c Hdt Hs Hc). field. auto.
Qed.

(* explicit step: old + dt*RHS on interior cells, boundary values re-imposed *)
Theorem explicit_step_interior (m : Mesh) (bc : BCs F) old (dt : K) rhs c :
  interior F m c = true -> explicit_step F m bc old dt rhs c = old c + dt * rhs c.
Proof. intros Hc. unfold explicit_step, with_boundaries. rewrite Hc. reflexivity. Qed.
Theorem explicit_step_boundary (m : Mesh) (bc : BCs F) old (dt : K) rhs g a hi :
  interior F m g = false -> ghost_axis F m g = Some (a, hi) ->
  explicit_step F m bc old dt rhs g = ghost_value F m bc (fun c => old c + dt * rhs c) a hi g.
Proof. intros Hg Ha. unfold explicit_step, with_boundaries. rewrite Hg, Ha. reflexivity. Qed.
End SolverThy.
