#!/venv/bin/python
"""Entry point: check.py <Cxx> [--tier quick|thorough] [--replay file]"""
import sys, os, importlib, traceback
os.environ.setdefault("PYTHONHASHSEED", "0")
HERE = os.path.dirname(os.path.abspath(__file__))
sys.path.insert(0, HERE)
import lib
sys.path.insert(0, os.path.join(lib.REPO, "src"))

def main():
    args = sys.argv[1:]
    prop = args[0]
    tier = os.environ.get("VERIF_TIER", "quick")
    replay = None
    i = 1
    while i < len(args):
        if args[i] == "--tier": tier = args[i + 1]; i += 2
        elif args[i] == "--replay": replay = args[i + 1]; i += 2
        else: i += 1
    seed = int(os.environ.get("VERIF_SEED", "20260923"))
    mod = importlib.import_module("props." + prop.lower())
    if replay:
        sys.exit(mod.replay(replay))
    ctx = lib.Ctx(prop, tier, seed)
    try:
        mod.run(ctx)
    except SystemExit:
        raise
    except Exception:
        ctx.broke("correspondence", "harness-crash", traceback.format_exc()[-1500:])
    ctx.finish()

if __name__ == "__main__":
    main()
