(* Variable algebra at the level of storage: which arrays an operator result consists of, where their contents come from,
   and which pre-existing arrays are written (none).  Array contents are abstract (nat codes); elementwise numerics are
   numpy's and are compared by the algebra suite. *)
From Coq Require Import Arith List Bool Lia.
Import ListNotations.

Definition loc := nat.
(* the store: contents of every array ever allocated, indexed by location *)
Definition store := list nat.
(* a variable: location of its padded value array, locations of its boundary-coefficient arrays, mesh reference (shared by design) *)
Record avar := mkAV { a_val : loc; a_bcs : list loc }.
Inductive operand := OVar (v : avar) | OScalar (c : nat) | OArray (l : loc).

Section Alg.
(* abstract content functions: elementwise operator, ghost recomputation *)
Variable fop : nat -> nat -> nat -> nat.          (* operator code, left content, right content *)
Variable ghost_of : nat -> list nat -> nat.       (* interior content, BC contents *)

Definition content (s : store) (l : loc) : nat := nth l s 0.
Definition operand_content (s : store) (o : operand) : nat :=
  match o with OVar v => content s (a_val v) | OScalar c => c | OArray l => content s l end.
(* allocate a list of new arrays with the given contents *)
Definition alloc (s : store) (cs : list nat) : store * list loc := (s ++ cs, seq (length s) (length cs)).

(* CellVariable binary operator / reflected operator / funceval with `self` = the variable operand v and the other operand o;
   `swap` = reflected (other op self).  Result: new value array, deep copy of v's BC arrays, ghost recomputed. *)
Definition binop (code : nat) (swap : bool) (s : store) (v : avar) (o : operand) : store * avar :=
  let cv := content s (a_val v) in let co := operand_content s o in
  let interior := if swap then fop code co cv else fop code cv co in
  let bcc := map (content s) (a_bcs v) in
  let '(s1, bl) := alloc s bcc in
  let '(s2, vl) := alloc s1 [ghost_of interior bcc] in
  (s2, mkAV (hd 0 vl) bl).
Definition unop (code : nat) (s : store) (v : avar) : store * avar := binop code false s v (OScalar 0).
(* copy(): value array copied as is, BC arrays deep-copied *)
Definition acopy (s : store) (v : avar) : store * avar :=
  let bcc := map (content s) (a_bcs v) in
  let '(s1, bl) := alloc s bcc in
  let '(s2, vl) := alloc s1 [content s (a_val v)] in
  (s2, mkAV (hd 0 vl) bl).

(* expression trees over variables, scalars and arrays *)
Inductive expr :=
| EVar (v : avar) | EScalar (c : nat) | EArray (l : loc)
| EBin (code : nat) (l r : expr) | EUn (code : nat) (e : expr).
(* Python dispatch: var op x -> __op__ on var; scalar/array op var -> reflected op on var; array op var: numpy would
   broadcast first, the documented use is arrays on the right *)
Fixpoint eval (s : store) (e : expr) : store * operand :=
  match e with
  | EVar v => (s, OVar v) | EScalar c => (s, OScalar c) | EArray l => (s, OArray l)
  | EUn code e1 =>
      let '(s1, o1) := eval s e1 in
      match o1 with OVar v => let '(s2, r) := unop code s1 v in (s2, OVar r) | _ => (s1, o1) end
  | EBin code l r =>
      let '(s1, ol) := eval s l in let '(s2, or_) := eval s1 r in
      match ol, or_ with
      | OVar v, _ => let '(s3, res) := binop code false s2 v or_ in (s3, OVar res)
      | _, OVar v => let '(s3, res) := binop code true s2 v ol in (s3, OVar res)
      | _, _ => (s2, OScalar (fop code (operand_content s2 ol) (operand_content s2 or_)))
      end
  end.
(* the left-most variable leaf of an expression *)
Fixpoint leftmost (e : expr) : option avar :=
  match e with
  | EVar v => Some v | EScalar _ | EArray _ => None
  | EUn _ e1 => leftmost e1
  | EBin _ l r => match leftmost l with Some v => Some v | None => leftmost r end
  end.
End Alg.
