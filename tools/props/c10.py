"""C10 check module."""
import traceback
import lib
from common import run_suites
import probes
from suites import meshsuite


def run(ctx):
    import pyfvtool as pf
    ctx.rule = ("mesh suite: both constructor forms of all 9 classes, N 1..4 (quick) / 1..6, graded dyadic faces, partial angular ranges, offset radial "
                "origin; centres, sizes incl. ghosts and per-cell volumes compared inside Coq with Model/Grid.v; non-trivial = some axis N>=2; "
                "impl_probe: per-cell geometric volumes (numpy, cos) and every coordinate label on every class")
    ctx.extra_trusted = ["translator tools/tr_labels.py (fail-closed ast fragment)"]
    ctx.prove("C10")
    run_suites(ctx, ["mesh"], runner=meshsuite.run_suite)
    try:
        n = probes.probe_c10(ctx, pf)
        ctx.add_cases("impl_probe", n, [f"c10probe{i}" for i in range(min(n, 50))])
    except Exception:
        ctx.broke("correspondence", "impl_probe/harness", traceback.format_exc()[-1200:])


def replay(path):
    print(open(path).read()[:4000])
    return 0
