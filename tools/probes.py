"""Direct evaluation of a property's observable on the real implementation (the 'search' of DESIGN 2.5).
Each probe returns the number of evaluations; violations are registered on ctx with a concrete replay."""
import random
import numpy as np
import gen
from common import rel, volumes, interior_slices, full_shape

TOL = 1e-9


def fmul(pf, mesh, A, B):
    return pf.FaceVariable(mesh, A._xvalue * B._xvalue, A._yvalue * B._yvalue if A._yvalue.size else np.array([]),
                           A._zvalue * B._zvalue if A._zvalue.size else np.array([]))


def lab(cname, fs, **kw):
    d = {"cls": cname, "faces": [list(map(float, f)) for f in fs]}
    for k, v in kw.items():
        d[k] = v.tolist() if isinstance(v, np.ndarray) else ([a.tolist() for a in v] if isinstance(v, tuple) else v)
    return d


def cases(ctx, pf, tag, reps_q=4, reps_t=25, uniform=False, nmin=1, nmax_q=3, nmax_t=5, classes=None):
    rng = random.Random(f"{tag}-{ctx.seed}")
    reps = reps_q if ctx.tier == "quick" else reps_t
    for cname in (classes or gen.CLASSES):
        for k in range(reps):
            fs = gen.mesh_case(rng, cname, nmax=(nmax_q if ctx.tier == "quick" else nmax_t), uniform=uniform, nmin=nmin, big=(k % 20 == 1))
            yield rng, cname, fs, gen.build_mesh(pf, cname, fs)


def interior_of(mesh, v):
    return np.asarray(v).reshape(full_shape(mesh))[interior_slices(len(mesh.dims))]


def probe_c05(ctx, pf):
    n = 0
    for rng, cname, fs, mesh in cases(ctx, pf, "c05"):
        ph = gen.cell_array(rng, mesh)
        phi = pf.CellVariable(mesh, ph)
        v = phi._value.ravel()
        Da = gen.face_arrays(rng, mesh, lo=0.0, hi=3.0)
        ua = gen.face_arrays(rng, mesh)
        D = pf.FaceVariable(mesh, *Da); u = pf.FaceVariable(mesh, *ua)
        wa = tuple(np.where(a == 0, 0.0, np.sign(np.cos(7 * a + 1))) if a.size else a for a in ua)
        w = pf.FaceVariable(mesh, *wa)
        with np.errstate(all="ignore"):
            checks = [
                ("diffusionTerm vs divergenceTerm(D*gradientTerm)", pf.diffusionTerm(D) @ v,
                 pf.divergenceTerm(fmul(pf, mesh, D, pf.gradientTerm(phi)))),
                ("convectionTerm vs divergenceTerm(u*linearMean)", pf.convectionTerm(u) @ v,
                 pf.divergenceTerm(fmul(pf, mesh, u, pf.linearMean(phi)))),
                ("convectionUpwindTerm vs divergenceTerm(u*upwindMean)", pf.convectionUpwindTerm(u) @ v,
                 pf.divergenceTerm(fmul(pf, mesh, u, pf.upwindMean(phi, u)))),
                ("convectionUpwindTerm(u,u_upwind) vs divergenceTerm(u*upwindMean(phi,u_upwind))",
                 pf.convectionUpwindTerm(u, w) @ v, pf.divergenceTerm(fmul(pf, mesh, u, pf.upwindMean(phi, w)))),
                ("TVD correction with zero limiter", pf.convectionTVDupwindRHSTerm(u, phi, lambda r: 0.0 * r),
                 np.zeros(v.size)),
            ]
        for what, a, b in checks:
            n += 1
            e = rel(interior_of(mesh, a), interior_of(mesh, b))
            if not e <= TOL:
                ctx.violation(f"c05:{cname}:{what}", f"{cname}: {what}: max relative deviation {e:.3g}",
                              lab(cname, fs, D=Da, u=ua, u_upwind=wa, phi_with_ghosts=phi._value, what=what))
    # unit limiter on uniform grids
    for rng, cname, fs, mesh in cases(ctx, pf, "c05u", uniform=True):
        ph = gen.cell_array(rng, mesh)
        phi = pf.CellVariable(mesh, ph); v = phi._value.ravel()
        ua = gen.face_arrays(rng, mesh); u = pf.FaceVariable(mesh, *ua)
        with np.errstate(all="ignore"):
            a = pf.convectionUpwindTerm(u) @ v - pf.convectionTVDupwindRHSTerm(u, phi, lambda r: 1.0 + 0.0 * r)
            b = pf.convectionTerm(u) @ v
        n += 1
        e = rel(interior_of(mesh, a), interior_of(mesh, b))
        if not e <= TOL:
            ctx.violation(f"c05:{cname}:unit-limiter", f"{cname}: upwind - TVD(unit limiter) != central on a uniform grid: {e:.3g}",
                          lab(cname, fs, u=ua, phi_with_ghosts=phi._value))
    # known finding: u_upwind exactly zero on a face where u is not
    m = pf.Grid1D(np.array([0., 1., 2., 3., 4.]))
    u = pf.FaceVariable(m, 1.0)
    w = pf.FaceVariable(m, np.array([1., 1., 0., 1., 1.]), np.array([]), np.array([]))
    phi = pf.CellVariable(m, np.array([1., 2., 4., 8., 16., 32.]))
    a = (pf.convectionUpwindTerm(u, w) @ phi._value)[1:-1]
    b = pf.divergenceTerm(fmul(pf, m, u, pf.upwindMean(phi, w)))[1:-1]
    n += 1
    if rel(a, b) > TOL:
        ctx.violation("c05:zero_u_upwind", "convectionUpwindTerm(u, u_upwind) counts a face flux twice where u_upwind == 0 but u != 0",
                      {"cls": "Grid1D", "faces": [[0, 1, 2, 3, 4]], "u": 1.0, "u_upwind": [1, 1, 0, 1, 1],
                       "phi_with_ghosts": [1, 2, 4, 8, 16, 32], "matrix_form": a.tolist(), "chain": b.tolist()})
    return n


def probe_c06(ctx, pf):
    n = 0
    for rng, cname, fs, mesh in cases(ctx, pf, "c06"):
        cval = rng.choice([1.0, -2.5, 3.0, 0.75])
        v = np.full(int(np.prod(full_shape(mesh))), cval)
        phi = pf.CellVariable(mesh, v.reshape(full_shape(mesh)))
        Da = gen.face_arrays(rng, mesh, lo=0.0, hi=3.0); ua = gen.face_arrays(rng, mesh)
        D = pf.FaceVariable(mesh, *Da); u = pf.FaceVariable(mesh, *ua)
        FL = pf.fluxLimiter(rng.choice(["SUPERBEE", "Koren", "VanLeer", "CHARM"]))
        with np.errstate(all="ignore"):
            divu = cval * pf.divergenceTerm(u)
            checks = [("diffusionTerm of a constant", pf.diffusionTerm(D) @ v, 0 * v),
                      ("convectionTerm of a constant", pf.convectionTerm(u) @ v, divu),
                      ("convectionUpwindTerm of a constant", pf.convectionUpwindTerm(u) @ v, divu),
                      ("TVD-corrected advection of a constant",
                       pf.convectionUpwindTerm(u) @ v - pf.convectionTVDupwindRHSTerm(u, phi, FL), divu)]
        for what, a, b in checks:
            n += 1
            e = rel(interior_of(mesh, a), interior_of(mesh, b))
            if not e <= TOL:
                ctx.violation(f"c06:{cname}:{what}", f"{cname}: {what} is not c*div(u): deviation {e:.3g}",
                              lab(cname, fs, D=Da, u=ua, c=cval, what=what))
        # sources act cell-locally: beta*phi = gamma alone gives gamma/beta
        beta = pf.CellVariable(mesh, np.abs(gen.cell_array(rng, mesh)) + 0.5)
        gamma = pf.CellVariable(mesh, gen.cell_array(rng, mesh))
        x = pf.CellVariable(mesh, 0.0)
        try:
            pf.solvePDE(x, [pf.linearSourceTerm(beta), pf.constantSourceTerm(gamma)])
            got = x.value; want = gamma.value / beta.value
            n += 1
            if rel(got, want) > TOL:
                ctx.violation(f"c06:{cname}:source", f"{cname}: beta*phi=gamma alone does not give gamma/beta",
                              lab(cname, fs, beta=beta._value, gamma=gamma._value))
        except Exception as ex:
            ctx.violation(f"c06:{cname}:source-raise", f"{cname}: solvePDE with sources only raised {type(ex).__name__}: {ex}", lab(cname, fs))
    return n


def inner_columns(mesh):
    """flat indices of cells at least 2 away from every boundary along each axis"""
    dims = [int(k) for k in mesh.dims]
    if any(k < 3 for k in dims):
        return []
    shape = full_shape(mesh)
    G = np.arange(int(np.prod(shape))).reshape(shape)
    return G[tuple(slice(2, -2) for _ in dims)].ravel().tolist()


def probe_c01(ctx, pf):
    """interior faces cancel: for fields supported away from the boundary the V-weighted sum of every
    flux-form term vanishes; closed systems keep domainIntegral under implicit and explicit steps"""
    n = 0
    for rng, cname, fs, mesh in cases(ctx, pf, "c01", nmin=3, nmax_q=4, nmax_t=6):
        cols = inner_columns(mesh)
        if not cols:
            continue
        V = volumes(pf, mesh, cname)
        shape = full_shape(mesh); d = len(shape)
        ph = np.zeros(int(np.prod(shape)))
        for cidx in cols:
            ph[cidx] = gen.dy(rng, -2, 2, 4, 0.0) or 1.0
        phi = pf.CellVariable(mesh, ph.reshape(shape)); v = phi._value.ravel()
        Da = gen.face_arrays(rng, mesh, lo=0.0, hi=3.0); ua = gen.face_arrays(rng, mesh)
        D = pf.FaceVariable(mesh, *Da); u = pf.FaceVariable(mesh, *ua)
        FL = pf.fluxLimiter(rng.choice(["SUPERBEE", "Koren", "VanLeer", "MinMod"]))
        with np.errstate(all="ignore"):
            terms = [("diffusionTerm", pf.diffusionTerm(D) @ v), ("convectionTerm", pf.convectionTerm(u) @ v),
                     ("convectionUpwindTerm", pf.convectionUpwindTerm(u) @ v),
                     ("divergenceTerm(D*gradientTerm)", pf.divergenceTerm(fmul(pf, mesh, D, pf.gradientTerm(phi))))]
            if all(int(k) >= 5 for k in mesh.dims):
                # TVD stencil is two cells wide: use a field supported 3 cells away from the boundary
                ph2 = np.zeros(shape); ph2[tuple(slice(3, -3) for _ in shape)] = 1.5
                phi2 = pf.CellVariable(mesh, ph2)
                terms.append(("convectionTVDupwindRHSTerm", pf.convectionTVDupwindRHSTerm(u, phi2, FL)))
        for what, t in terms:
            n += 1
            tot = float(np.sum(V * interior_of(mesh, t)))
            scale = float(np.sum(np.abs(V * interior_of(mesh, t)))) + 1e-300
            if abs(tot) > 1e-9 * scale + 1e-12:
                ctx.violation(f"c01:{cname}:{what}",
                              f"{cname}: {what}: interior face fluxes do not cancel (volume-weighted sum {tot:.6g}, scale {scale:.3g})",
                              lab(cname, fs, D=Da, u=ua, phi_with_ghosts=phi._value, what=what))
    # TVD correction: its stencil reaches two cells upstream, so a field must vanish within three cells of every boundary; the random
    # small cases above never have that many cells.  Dedicated block: 10-14 cells along every axis, a bumpy profile in the inner
    # cells, random velocities of mixed sign on every face (round 6: a face factor lost for one velocity sign only).
    rng = random.Random(f"c01tvd-{ctx.seed}")
    names = ["SUPERBEE", "Koren", "VanLeer", "MinMod", "ospre", "CHARM"]
    for cname in gen.CLASSES:
        d = gen.DIM[cname]
        for rep in range(2 if ctx.tier == "quick" else 8):
            ns = [14] if d == 1 else ([12] * d if d == 2 else [10] * d)
            fs = [gen.faces(rng, gen.AXKIND[cname][a], ns[a]) for a in range(d)]
            mesh = gen.build_mesh(pf, cname, fs)
            V = volumes(pf, mesh, cname)
            shape = full_shape(mesh)
            # smooth bump (monotone stretches, so that the limiters are active) times a random amplitude, zero within 3 cells of the boundary
            ph = np.ones(shape)
            for a in range(d):
                k = np.arange(shape[a], dtype=float)
                prof = np.where((k >= 3) & (k <= shape[a] - 4), np.sin(np.pi * (k - 2.5) / (shape[a] - 6.0)) ** 2 + 0.125 * ((k * 5) % 3), 0.0)
                prof[:3] = 0.0; prof[-3:] = 0.0
                ph = ph * prof.reshape([-1 if b == a else 1 for b in range(d)])
            ph = ph * rng.choice([1.0, -2.0, 0.5])
            phi = pf.CellVariable(mesh, ph)
            ua = gen.face_arrays(rng, mesh, p0=0.05)
            u = pf.FaceVariable(mesh, *ua)
            nm = names[rep % len(names)]
            with np.errstate(all="ignore"):
                t = pf.convectionTVDupwindRHSTerm(u, phi, pf.fluxLimiter(nm))
            n += 1
            tot = float(np.sum(V * interior_of(mesh, t)))
            scale = float(np.sum(np.abs(V * interior_of(mesh, t)))) + 1e-300
            if not np.isfinite(tot) or abs(tot) > 1e-9 * scale + 1e-12:
                ctx.violation(f"c01:{cname}:convectionTVDupwindRHSTerm",
                              f"{cname}: convectionTVDupwindRHSTerm ('{nm}'): interior face fluxes do not cancel for a field supported away from the boundary "
                              f"(volume-weighted sum {tot:.6g}, scale {scale:.3g})",
                              lab(cname, fs, u=ua, phi_with_ghosts=ph, what="convectionTVDupwindRHSTerm", limiter=nm))
    return n


# ------------------------------------------------------------------ C03 / C04 / C12
SIDES = [("left", "right"), ("bottom", "top"), ("back", "front")]


def metric_h(mesh, cname, ax, hi):
    """distance factor h of the ghost-to-inner difference quotient on the faces normal to axis ax (array over the face)"""
    d = len(mesh.dims)
    cs = [mesh.cellsize._x, mesh.cellsize._y, mesh.cellsize._z][ax]
    dx = cs[-1] if hi else cs[0]
    shape = [int(n) for n in mesh.dims]
    tshape = [shape[i] for i in range(d) if i != ax]
    h = np.full(tshape if tshape else (1,), float(dx))
    if cname in ("PolarGrid2D",) and ax == 1:
        h = dx * mesh.cellcenters._x
    if cname in ("CylindricalGrid3D", "SphericalGrid3D") and ax == 1:
        h = dx * mesh.cellcenters._x[:, None] * np.ones(tshape)
    if cname == "SphericalGrid3D" and ax == 2:
        h = dx * mesh.cellcenters._x[:, None] * np.sin(mesh.cellcenters._y)[None, :]
    return h


def robin_residual(pf, mesh, cname, var):
    """max relative residual of a*dphi/dn + b*phi = c over all non-periodic boundary faces, and of the wrap on periodic axes"""
    d = len(mesh.dims)
    v = np.asarray(var._value, dtype=float)
    worst = 0.0; where = None
    for ax in range(d):
        lo, hi = getattr(var.BCs, SIDES[ax][0]), getattr(var.BCs, SIDES[ax][1])
        periodic = lo.periodic or hi.periodic
        inner = tuple(slice(1, -1) if i != ax else None for i in range(d))
        def take(k):
            idx = tuple(slice(1, -1) if i != ax else k for i in range(d))
            return v[idx]
        N = int(mesh.dims[ax])
        if periodic:
            e = max(rel(take(0), take(N)), rel(take(N + 1), take(1)))
            if e > worst:
                worst, where = e, f"periodic wrap axis {ax}"
            continue
        for side, face, g, i_, sgn in ((0, lo, 0, 1, 1.0), (1, hi, N + 1, N, 1.0)):
            a = np.asarray(face.a, dtype=float).reshape(take(g).shape) if take(g).shape != () else float(np.asarray(face.a).ravel()[0])
            b = np.asarray(face.b, dtype=float).reshape(take(g).shape) if take(g).shape != () else float(np.asarray(face.b).ravel()[0])
            c = np.asarray(face.c, dtype=float).reshape(take(g).shape) if take(g).shape != () else float(np.asarray(face.c).ravel()[0])
            h = metric_h(mesh, cname, ax, side == 1)
            h = np.asarray(h).reshape(take(g).shape) if take(g).shape != () else float(np.asarray(h).ravel()[0])
            if side == 1:
                dq = (take(g) - take(i_)) / h
            else:
                dq = (take(i_) - take(g)) / h
            lhs = a * dq + b * 0.5 * (take(g) + take(i_))
            sc = 1.0 + np.max(np.abs(a * dq)) + np.max(np.abs(b * take(g))) + np.max(np.abs(c))
            e = float(np.max(np.abs(lhs - c)) / sc)
            if e > worst:
                worst, where = e, f"{SIDES[ax][side]}"
    return worst, where


def bc_cases(ctx, pf, tag, reps_q=5, reps_t=30, allow_periodic=True):
    """systematic cases first (per class: graded N=3 mesh with unequal end cells, every side Robin / inhomogeneous Neumann / Dirichlet with
    face-wise coefficients), then seeded random ones"""
    from suites.bcsuite import set_random_bcs
    rng = random.Random(f"{tag}-sys-{ctx.seed}")
    for cname in gen.CLASSES:
        d = gen.DIM[cname]
        for kind in ("robin", "neumann", "dirichlet"):
            fs = [gen.faces(rng, gen.AXKIND[cname][a], 3) for a in range(d)]
            for f in fs:
                if abs((f[1] - f[0]) - (f[-1] - f[-2])) < 1e-12:
                    f[-1] = f[-1] + (f[-1] - f[-2]) / 2
            mesh = gen.build_mesh(pf, cname, fs)
            BC, desc, per = set_random_bcs(rng, mesh, cname, allow_periodic=False, kinds=[kind])
            yield rng, cname, fs, mesh, BC, desc, per
    for rng, cname, fs, mesh in cases(ctx, pf, tag, reps_q=reps_q, reps_t=reps_t):
        BC, desc, per = set_random_bcs(rng, mesh, cname, allow_periodic=allow_periodic)
        yield rng, cname, fs, mesh, BC, desc, per


def probe_c03(ctx, pf):
    from suites.bcsuite import set_random_bcs, bc_label
    from scipy.sparse.linalg import spsolve
    n = 0
    for rng, cname, fs, mesh, BC, desc, per in bc_cases(ctx, pf, "c03", reps_q=5, reps_t=30):
        d = len(mesh.dims)
        inner = gen.cell_array(rng, mesh)[interior_slices(d)]
        L = lab(cname, fs, bc=bc_label(BC, d), kinds=desc, phi_interior=inner)
        try:
            with np.errstate(all="ignore"):
                phi = pf.CellVariable(mesh, inner, BC)
                stages = [("construction", phi)]
                phi2 = phi.copy(); phi2.value = phi2.value * 2.0 + 1.0; phi2.apply_BCs()
                stages.append(("apply_BCs", phi2))
                D = pf.FaceVariable(mesh, 1.0)
                spy = {}
                def solver(M, R):
                    spy["x"] = spsolve(M, R); return spy["x"]
                phi3 = phi.copy()
                pf.solvePDE(phi3, [pf.transientTerm(phi3, 0.5, 1.0), -pf.diffusionTerm(D)], externalsolver=solver)
                stages.append(("solvePDE", phi3))
                rhs = pf.divergenceTerm(fmul(pf, mesh, D, pf.gradientTerm(phi)))
                phi4 = pf.solveExplicitPDE(phi, 0.01, rhs)
                stages.append(("solveExplicitPDE", phi4))
        except Exception as ex:
            ctx.violation(f"c03:{cname}:raise", f"{cname}: {type(ex).__name__} while applying boundary conditions: {ex}", L)
            continue
        for what, var in stages:
            n += 1
            if not np.all(np.isfinite(var._value)):
                continue
            e, where = robin_residual(pf, mesh, cname, var)
            if e > 1e-8:
                ctx.violation(f"c03:{cname}:{what}", f"{cname}: after {what} the stored boundary values violate the configured condition on {where} (residual {e:.3g})",
                              dict(L, stage=what, where=where))
        # solver ghosts vs reported ghosts (mutual consistency)
        raw = np.asarray(spy["x"]).reshape(phi3._value.shape)
        rep = np.asarray(phi3._value)
        for ax in range(d):
            N = int(mesh.dims[ax])
            for g in (0, N + 1):
                idx = tuple(slice(1, -1) if i != ax else g for i in range(d))
                n += 1
                e = rel(raw[idx], rep[idx])
                if e > 1e-8:
                    cs = [mesh.cellsize._x, mesh.cellsize._y, mesh.cellsize._z][ax]
                    if per[ax] and abs(cs[0] - cs[-1]) > 1e-14:
                        ctx.violation("c03:periodic_nonuniform",
                                      "on a periodic axis whose two end cells differ in size the solver's periodic rows (gradient matching) and the reported wrap-copy ghost values differ",
                                      dict(L, axis=ax, solver_ghost=np.asarray(raw[idx]).tolist(), reported_ghost=np.asarray(rep[idx]).tolist()))
                    else:
                        ctx.violation(f"c03:{cname}:solver-vs-reported", f"{cname}: ghost values used by the solver and reported after solvePDE differ on axis {ax} (rel {e:.3g})",
                                      dict(L, axis=ax))
    return n


def probe_c04(ctx, pf):
    from suites.bcsuite import set_random_bcs, bc_label
    from scipy.sparse.linalg import spsolve
    n = 0
    for rng, cname, fs, mesh, BC, desc, per in bc_cases(ctx, pf, "c04", reps_q=4, reps_t=25):
        d = len(mesh.dims)
        inner = gen.cell_array(rng, mesh)[interior_slices(d)]
        L = lab(cname, fs, bc=bc_label(BC, d), kinds=desc, phi_interior=inner)
        with np.errstate(all="ignore"):
            phi = pf.CellVariable(mesh, inner, BC)
            D = pf.FaceVariable(mesh, *gen.face_arrays(rng, mesh, lo=0.0, hi=2.0))
            u = pf.FaceVariable(mesh, *gen.face_arrays(rng, mesh, lo=-1.0, hi=1.0))
            gam = pf.CellVariable(mesh, gen.cell_array(rng, mesh)[interior_slices(d)])
            Mt, Rt = pf.transientTerm(phi, 0.25, 1.0)
            Md = pf.diffusionTerm(D); Mu = pf.convectionUpwindTerm(u); Rg = pf.constantSourceTerm(gam)
            terms = [(Mt, Rt), -2.0 * Md, Mu, 0.5 * Rg]
            rng.shuffle(terms)
            spy = {}
            def solver(M, R):
                spy["M"], spy["R"] = M.copy(), R.copy(); return spsolve(M, R)
            Mbc, Rbc = pf.boundaryConditionsTerm(BC)
            ret = pf.solvePDE(phi, terms, externalsolver=solver)
            Mh = Mbc + Mt - 2.0 * Md + Mu; Rh = Rbc + Rt + 0.5 * Rg
        n += 4
        # the values stored in the variable (interior as solved, boundary values re-imposed) satisfy every interior equation
        cs_ = [mesh.cellsize._x, mesh.cellsize._y, mesh.cellsize._z]
        per_nonuni = any(per[ax] and abs(cs_[ax][0] - cs_[ax][-1]) > 1e-14 for ax in range(d))
        if not per_nonuni and np.all(np.isfinite(ret._value)) and np.max(np.abs(ret._value)) < 1e6:
            xs = np.asarray(ret._value).ravel()
            Mi = (Mt - 2.0 * Md + Mu); Ri = Rt + 0.5 * Rg
            res = np.asarray(Mi @ xs - Ri).reshape(full_shape(mesh))[interior_slices(d)]
            sc = np.asarray(abs(Mi) @ np.abs(xs) + np.abs(Ri)).reshape(full_shape(mesh))[interior_slices(d)] + 1.0
            if float(np.max(np.abs(res) / sc)) > 1e-8:
                ctx.violation(f"c04:{cname}:stored-residual", f"{cname}: the values stored by solvePDE do not satisfy the interior equations (max relative residual {float(np.max(np.abs(res) / sc)):.3g})", L)
        if ret is not phi:
            ctx.violation(f"c04:{cname}:identity", f"{cname}: solvePDE does not return the variable it was given", L)
        if abs(spy["M"] - Mh).max() > 1e-9 * (1 + abs(Mh).max()) or rel(spy["R"], Rh) > 1e-9:
            ctx.violation(f"c04:{cname}:external-system", f"{cname}: the external solver received a different system than sum(terms)+BC terms", L)
        # terms touch interior rows only / BC term touches boundary rows only
        shape = full_shape(mesh)
        G = np.arange(int(np.prod(shape))).reshape(shape)
        inter = set(G[interior_slices(d)].ravel().tolist())
        for nm, Mx in (("transient", Mt), ("diffusion", Md), ("upwind", Mu)):
            rows = set(np.unique(Mx.tocoo().row[Mx.tocoo().data != 0]).tolist())
            if not rows <= inter:
                ctx.violation(f"c04:{cname}:{nm}-rows", f"{cname}: {nm} term has entries in boundary rows", L)
        rows = set(np.unique(Mbc.tocoo().row[Mbc.tocoo().data != 0]).tolist())
        if rows & inter:
            ctx.violation(f"c04:{cname}:bc-rows", f"{cname}: boundary term has entries in interior rows", L)
        with np.errstate(all="ignore"):
            ref = pf.solveMatrixPDE(mesh, Mh, Rh)
        if np.all(np.isfinite(ref._value)) and np.max(np.abs(ref._value)) < 1e6:
            n += 1
            if rel(ref.value, ret.value) > 1e-8:
                ctx.violation(f"c04:{cname}:solveMatrixPDE", f"{cname}: solvePDE and solveMatrixPDE on the hand-assembled system differ", L)
        # source / transient terms with per-cell coefficients: solvePDE against a system assembled here entry by entry
        # (row of cell c: beta_c on the diagonal, gamma_c and alpha_c*old_c/dt on the right) -- not with the builders
        import scipy.sparse as sp
        with np.errstate(all="ignore"):
            bet = np.abs(gen.cell_array(rng, mesh))[interior_slices(d)] + 0.5
            alf = np.abs(gen.cell_array(rng, mesh))[interior_slices(d)] + 0.5
            gm = gen.cell_array(rng, mesh)[interior_slices(d)]
            N = int(np.prod(shape))
            rows = G[interior_slices(d)].ravel()
            dg = np.zeros(N); dg[rows] = (bet + alf / 0.25).ravel()
            rv = np.zeros(N); rv[rows] = (gm + alf * inner / 0.25).ravel()
            x2 = pf.CellVariable(mesh, inner, BC)
            pf.solvePDE(x2, [pf.transientTerm(x2, 0.25, pf.CellVariable(mesh, alf)), -Md, pf.linearSourceTerm(pf.CellVariable(mesh, bet)),
                             pf.constantSourceTerm(pf.CellVariable(mesh, gm))])
            ref2 = pf.solveMatrixPDE(mesh, sp.csr_array(Mbc - Md + sp.diags(dg, format="csr")), Rbc + rv)
        if np.all(np.isfinite(ref2._value)) and np.max(np.abs(ref2._value)) < 1e6:
            n += 1
            if rel(ref2.value, x2.value) > 1e-8:
                ctx.violation(f"c04:{cname}:source-terms", f"{cname}: solvePDE with transient / linear-source / constant-source terms of per-cell coefficients differs from the system assembled cell by cell (rel {rel(ref2.value, x2.value):.3g})",
                              dict(L, beta=bet, alpha=alf, gamma=gm))
    return n


def probe_c12(ctx, pf):
    from suites.bcsuite import set_random_bcs, bc_label
    n = 0
    for rng, cname, fs, mesh in cases(ctx, pf, "c12", reps_q=3, reps_t=20):
        d = len(mesh.dims)
        BC, desc, per = set_random_bcs(rng, mesh, cname, allow_periodic=False, kinds=["dirichlet", "robin", "dirichlet"])
        inner = gen.cell_array(rng, mesh)[interior_slices(d)]
        L = lab(cname, fs, bc=bc_label(BC, d), kinds=desc, phi_interior=inner)
        with np.errstate(all="ignore"):
            D = pf.FaceVariable(mesh, *[np.abs(a) + 0.25 for a in gen.face_arrays(rng, mesh, lo=0.0, hi=2.0)])
            u = pf.FaceVariable(mesh, *gen.face_arrays(rng, mesh, lo=-1.0, hi=1.0))
            beta = pf.CellVariable(mesh, np.abs(gen.cell_array(rng, mesh))[interior_slices(d)] + 0.5)
            gam = pf.CellVariable(mesh, gen.cell_array(rng, mesh)[interior_slices(d)])
            spatial = [-pf.diffusionTerm(D), pf.convectionUpwindTerm(u), pf.linearSourceTerm(beta), pf.constantSourceTerm(gam)]
            st = pf.CellVariable(mesh, inner, BC)
            pf.solvePDE(st, spatial)
            steady = np.array(st._value)
            if not np.all(np.isfinite(steady)) or np.max(np.abs(steady)) > 1e6:
                continue
            decades = range(-6, 7, 3) if ctx.tier == "quick" else range(-6, 7)
            for e in decades:
                dt = 10.0 ** e
                alpha = rng.choice([1.0, 2.5, pf.CellVariable(mesh, np.abs(gen.cell_array(rng, mesh))[interior_slices(d)] + 0.5)])
                x = pf.CellVariable(mesh, np.array(st.value), BC)
                pf.solvePDE(x, [pf.transientTerm(x, dt, alpha)] + spatial)
                n += 1
                if rel(x._value, steady) > 1e-7:
                    ctx.violation(f"c12:{cname}:fixed-point", f"{cname}: a steady solution is not reproduced by a transient step with dt={dt:g}", dict(L, dt=dt))
                    break
            # dt -> infinity gives the steady state, dt -> 0 the old field
            x = pf.CellVariable(mesh, inner, BC)
            pf.solvePDE(x, [pf.transientTerm(x, 1e12, 1.0)] + spatial)
            n += 1
            if rel(x.value, st.value) > 1e-6:
                ctx.violation(f"c12:{cname}:dt-inf", f"{cname}: a step with dt=1e12 does not return the steady solution", L)
            x = pf.CellVariable(mesh, inner, BC)
            pf.solvePDE(x, [pf.transientTerm(x, 1e-12, 1.0)] + spatial)
            n += 1
            if rel(x.value, inner) > 1e-6:
                ctx.violation(f"c12:{cname}:dt-zero", f"{cname}: a step with dt=1e-12 does not return the old field", L)
            # multi-step history on ONE variable object: repeated dt with changing alpha (scalar / field), then changing dt
            xv = pf.CellVariable(mesh, inner, BC)
            Ms = spatial[0] + spatial[1] + spatial[2]      # (-diffusion) + upwind + sink
            bvec = spatial[3]
            seq = [(0.5, 1.0), (0.5, 3.0), (0.5, pf.CellVariable(mesh, np.abs(gen.cell_array(rng, mesh))[interior_slices(d)] + 0.5)), (0.125, 2.0), (0.125, 0.25)]
            for dt_k, al_k in seq:
                oldv = np.array(xv.value)
                pf.solvePDE(xv, [pf.transientTerm(xv, dt_k, al_k)] + spatial)
                newv = np.array(xv.value)
                al_arr = np.asarray(al_k.value) if hasattr(al_k, "value") else al_k
                lhs = al_arr * (newv - oldv) / dt_k + np.asarray(Ms @ xv._value.ravel()).reshape(full_shape(mesh))[interior_slices(d)]
                rhs_i = bvec.reshape(full_shape(mesh))[interior_slices(d)]
                n += 1
                sc_ = 1.0 + np.max(np.abs(rhs_i)) + np.max(np.abs(al_arr * newv / dt_k))
                if np.all(np.isfinite(newv)) and float(np.max(np.abs(lhs - rhs_i))) > 1e-8 * sc_:
                    ctx.violation(f"c12:{cname}:BE-identity", f"{cname}: alpha*(new-old)/dt + S new = b fails in a multi-step sequence on one variable (dt={dt_k}, alpha={'field' if hasattr(al_k, 'value') else al_k})",
                                  dict(L, sequence=[(a, 'field' if hasattr(b_, 'value') else b_) for a, b_ in seq]))
                    break
            # explicit step
            old = pf.CellVariable(mesh, inner, BC)
            before = np.array(old._value)
            rhs = pf.divergenceTerm(fmul(pf, mesh, D, pf.gradientTerm(old))) - pf.convectionUpwindTerm(u) @ old._value.ravel() \
                - pf.linearSourceTerm(beta) @ old._value.ravel() + pf.constantSourceTerm(gam)
            dt = 1e-3
            new = pf.solveExplicitPDE(old, dt, rhs)
            want = before[interior_slices(d)] + dt * rhs.reshape(before.shape)[interior_slices(d)]
            n += 2
            if rel(new.value, want) > 1e-10:
                ctx.violation(f"c12:{cname}:explicit", f"{cname}: solveExplicitPDE is not old + dt*RHS on interior cells", dict(L, dt=dt))
            if not np.array_equal(before, old._value):
                ctx.violation(f"c12:{cname}:explicit-input", f"{cname}: solveExplicitPDE modified its input variable", L)
            # explicit multi-step loop in the documented style (c_old.update_value(c_new)) against a loop that constructs a fresh
            # variable from the interior values at every step
            normD = float(abs(spatial[0]).max()) + 1.0
            dte = 0.2 / normD
            c_old = pf.CellVariable(mesh, inner, BC)
            ref_v = pf.CellVariable(mesh, inner, BC)
            for stp in range(4):
                rhs1 = pf.divergenceTerm(fmul(pf, mesh, D, pf.gradientTerm(c_old)))
                c_new = pf.solveExplicitPDE(c_old, dte, rhs1)
                c_old.update_value(c_new)
                rhs2 = pf.divergenceTerm(fmul(pf, mesh, D, pf.gradientTerm(ref_v)))
                r_new = pf.solveExplicitPDE(ref_v, dte, rhs2)
                ref_v = pf.CellVariable(mesh, np.array(r_new.value), BC)
                n += 1
                if rel(c_old._value, ref_v._value) > 1e-10:
                    ctx.violation(f"c12:{cname}:explicit-loop", f"{cname}: explicit time loop with update_value differs from fresh variables at step {stp + 1} (stale boundary values)", dict(L, dt=dte, step=stp + 1))
                    break
            # explicit vs implicit: O(dt^2)
            errs = []
            Ssum = -spatial[0] + spatial[1] + spatial[2]
            normS = float(abs(Ssum).max()) + 1.0
            for dt in (1e-2 / normS, 5e-3 / normS):
                xi = pf.CellVariable(mesh, inner, BC)
                pf.solvePDE(xi, [pf.transientTerm(xi, dt, 1.0)] + spatial)
                xe = pf.solveExplicitPDE(old, dt, rhs)
                errs.append(float(np.max(np.abs(xi.value - xe.value))))
            n += 1
            if errs[0] > 1e-9 and errs[1] > errs[0] / 2.8:
                ctx.violation(f"c12:{cname}:imp-exp-order", f"{cname}: implicit and explicit steps do not agree to O(dt^2): differences {errs}", L)
    return n


# ------------------------------------------------------------------ C10
COORD_SYSTEM = {"Grid1D": ["x"], "CylindricalGrid1D": ["r"], "SphericalGrid1D": ["r"], "Grid2D": ["x", "y"],
                "CylindricalGrid2D": ["r", "z"], "PolarGrid2D": ["r", "theta"], "Grid3D": ["x", "y", "z"],
                "CylindricalGrid3D": ["r", "theta", "z"], "SphericalGrid3D": ["r", "theta", "phi"]}
ALL_LABELS = ["x", "y", "z", "r", "theta", "phi"]


def geometric_volume(cname, fs):
    f = [np.asarray(x, dtype=float) for x in fs]
    d0 = np.diff(f[0])
    r2 = np.diff(f[0] ** 2) / 2.0
    r3 = np.diff(f[0] ** 3) / 3.0
    if cname == "Grid1D": return d0
    if cname == "CylindricalGrid1D": return r2 * 2 * np.pi
    if cname == "SphericalGrid1D": return r3 * 2.0 * 2 * np.pi
    d1 = np.diff(f[1])
    if cname == "Grid2D": return d0[:, None] * d1[None, :]
    if cname == "CylindricalGrid2D": return (r2 * 2 * np.pi)[:, None] * d1[None, :]
    if cname == "PolarGrid2D": return r2[:, None] * d1[None, :]
    d2 = np.diff(f[2])
    if cname == "Grid3D": return d0[:, None, None] * d1[None, :, None] * d2[None, None, :]
    if cname == "CylindricalGrid3D": return r2[:, None, None] * d1[None, :, None] * d2[None, None, :]
    dc = -np.diff(np.cos(f[1]))
    return r3[:, None, None] * dc[None, :, None] * d2[None, None, :]


def probe_c10(ctx, pf):
    n = 0
    for rng, cname, fs, mesh in cases(ctx, pf, "c10", reps_q=6, reps_t=40, nmax_q=4, nmax_t=7):
        V = np.asarray(mesh.cellvolume, dtype=float)
        G = geometric_volume(cname, fs)
        n += 3
        L = lab(cname, fs)
        if V.shape != G.shape or not np.all(V > 0):
            ctx.violation(f"c10:{cname}:positive", f"{cname}: cellvolume has wrong shape or non-positive entries", L)
            continue
        e = float(np.max(np.abs(V - G) / G))
        if e > 1e-12:
            if cname == "SphericalGrid3D":
                ctx.violation("c10:S3_volume", "SphericalGrid3D.cellvolume uses dtheta/pi instead of (cos th1 - cos th2)/2", dict(L, rel_dev=e))
            else:
                ctx.violation(f"c10:{cname}:volume", f"{cname}: cellvolume differs from the geometric cell volume (max rel {e:.3g})", L)
        # geometry accessors
        d = len(fs)
        fc = [mesh.facecenters._x, mesh.facecenters._y, mesh.facecenters._z]
        cc = [mesh.cellcenters._x, mesh.cellcenters._y, mesh.cellcenters._z]
        cs = [mesh.cellsize._x, mesh.cellsize._y, mesh.cellsize._z]
        for a in range(d):
            f = np.asarray(fs[a], dtype=float)
            ok = (np.array_equal(fc[a], f) and np.allclose(cc[a], 0.5 * (f[1:] + f[:-1]), rtol=1e-15, atol=0)
                  and np.allclose(cs[a][1:-1], np.diff(f), rtol=1e-15, atol=0) and cs[a][0] == cs[a][1] and cs[a][-1] == cs[a][-2]
                  and int(mesh.dims[a]) == len(f) - 1)
            if not ok:
                ctx.violation(f"c10:{cname}:axis{a}", f"{cname}: faces / centres / sizes of axis {a} are not as specified", L)
        # labels: coordinates reachable exactly under the labels of the coordinate system
        for prop in (mesh.cellcenters, mesh.facecenters, mesh.cellsize):
            for l in ALL_LABELS:
                n += 1
                try:
                    v = getattr(prop, l); got = "ok"
                except AttributeError:
                    got = "AttributeError"
                except Exception as ex:
                    got = type(ex).__name__
                want = "ok" if l in COORD_SYSTEM[cname] else "AttributeError"
                if got == "ok" and want == "ok":
                    slot = COORD_SYSTEM[cname].index(l)
                    if v is not [prop._x, prop._y, prop._z][slot]:
                        got = "wrong-array"
                if got != want:
                    ctx.violation(f"c10:{cname}:label:{l}", f"{cname}: coordinate label '{l}' gives {got}, expected {want}", dict(L, label=l))
    return n


def probe_c01_steps(ctx, pf):
    """closed systems: domainIntegral() before/after implicit and explicit steps (no-flux walls with zero wall-normal
    velocity; periodic on non-radial axes with equal end cells)"""
    n = 0
    for rng, cname, fs, mesh in cases(ctx, pf, "c01s", reps_q=3, reps_t=15, nmin=2, nmax_q=3, nmax_t=5):
        d = len(mesh.dims)
        BC = pf.BoundaryConditions(mesh)   # default: no flux everywhere
        per_axes = []
        for ax in range(d):
            f = np.asarray(fs[ax]); dxs = np.diff(f)
            if gen.AXKIND[cname][ax] != "rad" and abs(dxs[0] - dxs[-1]) < 1e-14 and rng.random() < 0.5:
                getattr(BC, SIDES[ax][0]).periodic = True; getattr(BC, SIDES[ax][1]).periodic = True
                per_axes.append(ax)
        inner = np.abs(gen.cell_array(rng, mesh))[interior_slices(d)] + 0.25
        phi = pf.CellVariable(mesh, inner, BC)
        Da = list(gen.face_arrays(rng, mesh, lo=0.0, hi=2.0)); ua = list(gen.face_arrays(rng, mesh, lo=-1.0, hi=1.0))
        # zero wall-normal velocity on non-periodic boundaries; periodic: equal velocity on the two end faces
        for ax in range(d):
            a = ua[ax]
            lo = tuple(0 if i == ax else slice(None) for i in range(d)); hi = tuple(-1 if i == ax else slice(None) for i in range(d))
            if ax in per_axes:
                a[hi] = a[lo]; Da[ax][hi] = Da[ax][lo]   # the two end faces are one and the same physical face
            else:
                a[lo] = 0.0; a[hi] = 0.0
        D = pf.FaceVariable(mesh, *Da); u = pf.FaceVariable(mesh, *ua)
        if ax in per_axes:
            pass
        L = lab(cname, fs, D=tuple(Da), u=tuple(ua), phi_interior=inner, periodic_axes=per_axes)
        I0 = phi.domainIntegral()
        # upwind variant: zero normal velocity also on the periodic end faces (see known finding c01:upwind_periodic)
        uw = [a.copy() for a in ua]
        for ax in per_axes:
            lo = tuple(0 if i == ax else slice(None) for i in range(d)); hi = tuple(-1 if i == ax else slice(None) for i in range(d))
            uw[ax][lo] = 0.0; uw[ax][hi] = 0.0
        uW = pf.FaceVariable(mesh, *uw)
        variants = [("diffusion + central advection", lambda v: [-pf.diffusionTerm(D), pf.convectionTerm(u)],
                     lambda v: pf.divergenceTerm(fmul(pf, mesh, D, pf.gradientTerm(v))) - pf.divergenceTerm(fmul(pf, mesh, u, pf.linearMean(v)))),
                    ("diffusion + upwind advection", lambda v: [-pf.diffusionTerm(D), pf.convectionUpwindTerm(uW)],
                     lambda v: pf.divergenceTerm(fmul(pf, mesh, D, pf.gradientTerm(v))) - pf.divergenceTerm(fmul(pf, mesh, uW, pf.upwindMean(v, uW))))]
        for vname, mk, mkrhs in variants:
            with np.errstate(all="ignore"):
                x = phi.copy()
                for dt in (0.01, 1.0, 100.0):
                    pf.solvePDE(x, [pf.transientTerm(x, dt, 1.0)] + mk(x))
                I1 = x.domainIntegral()
                y = pf.solveExplicitPDE(phi, 1e-4, mkrhs(phi))
                I2 = y.domainIntegral()
            n += 2
            for what, I in ((f"three implicit solvePDE steps ({vname})", I1), (f"one solveExplicitPDE step ({vname})", I2)):
                if not abs(I - I0) <= 1e-9 * (abs(I0) + 1e-12):
                    if cname == "SphericalGrid3D":
                        ctx.violation("c01:S3_domainIntegral",
                                      "SphericalGrid3D: domainIntegral() (coded cellvolume) is not conserved by closed systems; the operators conserve the midpoint measure instead",
                                      dict(L, before=float(I0), after=float(I), what=what))
                    else:
                        ctx.violation(f"c01:{cname}:{what}", f"{cname}: domainIntegral changed from {float(I0)!r} to {float(I)!r} over {what} in a closed system",
                                      dict(L, before=float(I0), after=float(I), what=what, u_upwind_variant=[a.tolist() for a in uw]))
    # known finding: upwind advection through a periodic boundary is not conservative (inflow boundary faces use the face average)
    m1 = pf.Grid1D(np.array([0., 1., 2., 3.]))
    BC = pf.BoundaryConditions(m1); BC.left.periodic = True; BC.right.periodic = True
    phi = pf.CellVariable(m1, np.array([1.0, 2.0, 4.0]), BC)
    u1 = pf.FaceVariable(m1, 1.0)
    I0 = float(phi.domainIntegral())
    x = phi.copy(); pf.solvePDE(x, [pf.transientTerm(x, 0.5, 1.0), pf.convectionUpwindTerm(u1)])
    n += 1
    if abs(float(x.domainIntegral()) - I0) > 1e-9:
        ctx.violation("c01:upwind_periodic", "upwind advection across a periodic boundary with non-zero normal velocity does not conserve domainIntegral",
                      {"cls": "Grid1D", "faces": [[0, 1, 2, 3]], "u": 1.0, "phi_interior": [1, 2, 4], "dt": 0.5, "before": I0, "after": float(x.domainIntegral())})
    return n


# ------------------------------------------------------------------ C11
def probe_c11(ctx, pf):
    n = 0
    for rng, cname, fs, mesh in cases(ctx, pf, "c11", reps_q=4, reps_t=30):
        d = len(mesh.dims)
        shape = full_shape(mesh)
        pos = np.abs(gen.cell_array(rng, mesh, p0=0.0)) + 0.25
        phi = pf.CellVariable(mesh, pos)
        cs = [mesh.cellsize._x, mesh.cellsize._y, mesh.cellsize._z]
        L = lab(cname, fs, phi_with_ghosts=pos)
        with np.errstate(all="ignore"):
            means = {k: getattr(pf, k)(phi) for k in ("linearMean", "arithmeticMean", "geometricMean", "harmonicMean")}
        for ax in range(d):
            lo = tuple(slice(0, -1) if i == ax else slice(1, -1) for i in range(d))
            hi = tuple(slice(1, None) if i == ax else slice(1, -1) for i in range(d))
            a, b = pos[lo], pos[hi]
            mn, mx = np.minimum(a, b), np.maximum(a, b)
            vals = {k: [v._xvalue, v._yvalue, v._zvalue][ax] for k, v in means.items()}
            for k, v in vals.items():
                n += 1
                if v.shape != a.shape or not np.all(np.isfinite(v)) or np.any(v < mn * (1 - 1e-12)) or np.any(v > mx * (1 + 1e-12)):
                    ctx.violation(f"c11:{cname}:{k}:between", f"{cname}: {k} is not between the two adjacent cell values (axis {ax})", dict(L, axis=ax))
            n += 1
            if np.any(vals["harmonicMean"] > vals["geometricMean"] * (1 + 1e-12)) or np.any(vals["geometricMean"] > vals["arithmeticMean"] * (1 + 1e-12)):
                ctx.violation(f"c11:{cname}:HGA", f"{cname}: harmonic <= geometric <= arithmetic violated (axis {ax})", dict(L, axis=ax))
            # geometric mean closed form with the same width weights
            sh = [1] * d; sh[ax] = -1
            w = cs[ax].reshape(sh)
            w1 = w[tuple(slice(0, -1) if i == ax else slice(None) for i in range(d))]
            w2 = w[tuple(slice(1, None) if i == ax else slice(None) for i in range(d))]
            g = np.exp((w1 * np.log(a) + w2 * np.log(b)) / (w1 + w2))
            if rel(vals["geometricMean"], g) > 1e-12:
                ctx.violation(f"c11:{cname}:geometric", f"{cname}: geometricMean is not exp of the width-weighted mean of logs (axis {ax})", dict(L, axis=ax))
        # upwindMean: donor cell by the sign of u (boundary value = mean of ghost and adjacent cell on boundary faces), mean at u == 0
        arb = gen.cell_array(rng, mesh)
        pa = pf.CellVariable(mesh, arb)
        uarrs = gen.face_arrays(rng, mesh, lo=-1.0, hi=1.0)
        for ua in uarrs:
            if ua.size:
                ua.flat[rng.randrange(ua.size)] = 0.0
        uf = pf.FaceVariable(mesh, *uarrs)
        with np.errstate(all="ignore"):
            um = pf.upwindMean(pa, uf)
        for ax in range(d):
            tmp = arb.copy()
            first = tuple(0 if i == ax else slice(None) for i in range(d)); second = tuple(1 if i == ax else slice(None) for i in range(d))
            last = tuple(-1 if i == ax else slice(None) for i in range(d)); lastb = tuple(-2 if i == ax else slice(None) for i in range(d))
            tmp[first] = 0.5 * (arb[first] + arb[second]); tmp[last] = 0.5 * (arb[last] + arb[lastb])
            lo = tuple(slice(0, -1) if i == ax else slice(1, -1) for i in range(d))
            hi = tuple(slice(1, None) if i == ax else slice(1, -1) for i in range(d))
            uu = uarrs[ax]
            want = np.where(uu > 0, tmp[lo], np.where(uu < 0, tmp[hi], 0.5 * (arb[lo] + arb[hi])))
            got = (um._xvalue, um._yvalue, um._zvalue)[ax]
            n += 1
            if got.shape != want.shape or rel(got, want) > 1e-13:
                ctx.violation(f"c11:{cname}:upwind-donor", f"{cname}: upwindMean is not the donor-cell value (boundary value on inflow boundary faces) along axis {ax}",
                              dict(L, axis=ax, phi_with_ghosts=arb, u=[a.tolist() for a in uarrs]))
        # constants reproduced; zeros handled identically in every dimension
        cst = pf.CellVariable(mesh, np.full(shape, 2.5))
        for k in ("linearMean", "arithmeticMean", "geometricMean", "harmonicMean"):
            v = getattr(pf, k)(cst)
            n += 1
            for comp in (v._xvalue, v._yvalue, v._zvalue)[:d]:
                if not np.allclose(comp, 2.5, rtol=1e-13, atol=0):
                    ctx.violation(f"c11:{cname}:{k}:const", f"{cname}: {k} does not reproduce a constant field", L)
        z = pos.copy()
        z[tuple(rng.randrange(s) for s in shape)] = 0.0
        z[tuple(slice(None) if i else slice(0, 2) for i in range(d))] = 0.0     # two adjacent zeros along x
        zv = pf.CellVariable(mesh, z)
        with np.errstate(all="ignore"):
            for k in ("harmonicMean", "geometricMean"):
                v = getattr(pf, k)(zv)
                n += 1
                for ax, comp in enumerate((v._xvalue, v._yvalue, v._zvalue)[:d]):
                    lo = tuple(slice(0, -1) if i == ax else slice(1, -1) for i in range(d))
                    hi = tuple(slice(1, None) if i == ax else slice(1, -1) for i in range(d))
                    zero_face = (z[lo] == 0) | (z[hi] == 0)
                    if not np.all(np.isfinite(comp)) or np.any(comp[zero_face] != 0):
                        ctx.violation(f"c11:{cname}:{k}:zeros", f"{cname}: {k} with exact zeros in the data is not 0 / not finite on the affected faces (axis {ax})",
                                      dict(L, phi_with_ghosts=z, axis=ax))
        # linear fields reproduced at the face positions (Cartesian interpretation of each axis)
        for ax in range(d):
            f = np.asarray(fs[ax]); c = 0.5 * (f[1:] + f[:-1])
            cg = np.hstack([f[0] - 0.5 * (f[1] - f[0]), c, f[-1] + 0.5 * (f[-1] - f[-2])])
            sh = [1] * d; sh[ax] = -1
            lin = np.broadcast_to(1.5 + 0.75 * cg.reshape(sh), shape).copy()
            v = pf.linearMean(pf.CellVariable(mesh, lin))
            comp = (v._xvalue, v._yvalue, v._zvalue)[ax]
            want = np.broadcast_to(1.5 + 0.75 * f.reshape(sh), comp.shape)
            n += 1
            if rel(comp, want) > 1e-12:
                ctx.violation(f"c11:{cname}:linear-exact", f"{cname}: linearMean does not reproduce a linear field at the faces of axis {ax}", dict(L, axis=ax))
    return n


# ------------------------------------------------------------------ C17
LENGTHLIKE = {k: [x != "ang" and x != "pol" for x in v] for k, v in gen.AXKIND.items()}


def probe_c17(ctx, pf):
    from suites.bcsuite import set_random_bcs, bc_label
    n = 0
    for rng, cname, fs, mesh in cases(ctx, pf, "c17", reps_q=3, reps_t=20):
        d = len(mesh.dims)
        Lc = 10.0 ** rng.randint(-6, 6); Tc = 10.0 ** rng.randint(-6, 6); Kc = 10.0 ** rng.randint(-6, 6)
        fs2 = [np.asarray(f) * (Lc if LENGTHLIKE[cname][a] else 1.0) for a, f in enumerate(fs)]
        mesh2 = gen.build_mesh(pf, cname, fs2)
        BC, desc, per = set_random_bcs(rng, mesh, cname)
        BC2 = pf.BoundaryConditions(mesh2)
        for ax in range(d):
            for side in SIDES[ax]:
                f1, f2 = getattr(BC, side), getattr(BC2, side)
                f2.a[:] = np.asarray(f1.a) * Lc; f2.b[:] = np.asarray(f1.b); f2.c[:] = np.asarray(f1.c) * Kc
                f2.periodic = f1.periodic
        inner = gen.cell_array(rng, mesh)[interior_slices(d)]
        Da = gen.face_arrays(rng, mesh, lo=0.0, hi=2.0); ua = gen.face_arrays(rng, mesh, lo=-1.0, hi=1.0)
        be = np.abs(gen.cell_array(rng, mesh))[interior_slices(d)]; ga = gen.cell_array(rng, mesh)[interior_slices(d)]
        flname = rng.choice(["SUPERBEE", "Koren", "VanLeer", "MinMod"])
        L = lab(cname, fs, bc=bc_label(BC, d), kinds=desc, phi_interior=inner, D=Da, u=ua, beta=be, gamma=ga, L=Lc, T=Tc, K=Kc, limiter=flname)
        def run(mesh_, BC_, l, t, k):
            phi = pf.CellVariable(mesh_, inner * k, BC_)
            D = pf.FaceVariable(mesh_, *[a * l * l / t for a in Da]); u = pf.FaceVariable(mesh_, *[a * l / t for a in ua])
            beta = pf.CellVariable(mesh_, be / t); gamma = pf.CellVariable(mesh_, ga * k / t)
            FL = pf.fluxLimiter(flname)
            out = []
            for step in range(2):
                terms = [pf.transientTerm(phi, 0.25 * t, 1.0), -pf.diffusionTerm(D), pf.convectionUpwindTerm(u),
                         pf.convectionTVDupwindRHSTerm(u, phi, FL), pf.linearSourceTerm(beta), pf.constantSourceTerm(gamma)]
                pf.solvePDE(phi, terms)
                out.append(np.array(phi._value))
            phi_c = pf.CellVariable(mesh_, inner * k, BC_)
            pf.solvePDE(phi_c, [pf.transientTerm(phi_c, 0.25 * t, 1.0), pf.convectionTerm(u), -pf.diffusionTerm(D)])
            out.append(np.array(phi_c._value))
            return out
        try:
            with np.errstate(all="ignore"):
                r1 = run(mesh, BC, 1.0, 1.0, 1.0); r2 = run(mesh2, BC2, Lc, Tc, Kc)
        except Exception as ex:
            ctx.violation(f"c17:{cname}:raise", f"{cname}: {type(ex).__name__} in the rescaled problem: {ex}", L)
            continue
        for i, (a, b) in enumerate(zip(r1, r2)):
            if not np.all(np.isfinite(a)) or np.max(np.abs(a)) > 1e6:
                continue
            n += 1
            inner_a = a[interior_slices(d)]; inner_b = b[interior_slices(d)]
            # TVD: _fsign's absolute threshold 1e-16 is not unit-free; only compare when all gradients are far from it
            e = float(np.max(np.abs(inner_b / Kc - inner_a)) / (1.0 + np.max(np.abs(inner_a))))
            if e > 1e-7:
                ctx.violation(f"c17:{cname}:solution", f"{cname}: the solution of the rescaled problem is not K times the original (step/variant {i}, rel dev {e:.3g}, L={Lc:g}, T={Tc:g}, K={Kc:g})", dict(L, variant=i))
                break
        # cell-to-face means: scaling the field by K and lengths by L scales every mean by K
        pos = np.abs(gen.cell_array(rng, mesh, p0=0.0)) + 0.25
        kk = Lc * Lc / Tc
        for mean in ("linearMean", "arithmeticMean", "geometricMean", "harmonicMean"):
            with np.errstate(all="ignore"):
                m1_ = getattr(pf, mean)(pf.CellVariable(mesh, pos)); m2_ = getattr(pf, mean)(pf.CellVariable(mesh2, pos * kk))
            n += 1
            for c_ in ("_xvalue", "_yvalue", "_zvalue")[:d]:
                a_, b_ = np.asarray(getattr(m1_, c_)), np.asarray(getattr(m2_, c_))
                if not np.allclose(b_, a_ * kk, rtol=1e-10, atol=0):
                    ctx.violation(f"c17:{cname}:{mean}", f"{cname}: {mean} is not homogeneous: scaling lengths by {Lc:g} and the field by {kk:g} does not scale the face values by {kk:g}",
                                  dict(L, mean=mean))
                    break
        # the same solve with the diffusivity brought to the faces by harmonicMean of a cell field of dimension L^2/T
        def run_h(mesh_, BC_, l, t, k):
            phi_ = pf.CellVariable(mesh_, inner * k, BC_)
            Dh = pf.harmonicMean(pf.CellVariable(mesh_, pos * l * l / t))
            pf.solvePDE(phi_, [pf.transientTerm(phi_, 0.25 * t, 1.0), -pf.diffusionTerm(Dh)])
            return np.array(phi_.value)
        with np.errstate(all="ignore"):
            h1 = run_h(mesh, BC, 1.0, 1.0, 1.0); h2 = run_h(mesh2, BC2, Lc, Tc, Kc)
        n += 1
        if np.all(np.isfinite(h1)) and np.max(np.abs(h1)) < 1e6 and float(np.max(np.abs(h2 / Kc - h1)) / (1 + np.max(np.abs(h1)))) > 1e-7:
            ctx.violation(f"c17:{cname}:solution-harmonic-D", f"{cname}: with D = harmonicMean(k) the rescaled problem does not give K times the solution (L={Lc:g}, T={Tc:g}, K={Kc:g})", L)
        # linearity in the coefficient fields
        D1 = pf.FaceVariable(mesh, *Da); D2 = pf.FaceVariable(mesh, *gen.face_arrays(rng, mesh, lo=0.0, hi=2.0))
        Ds = pf.FaceVariable(mesh, *[2.5 * a + b for a, b in zip((D1._xvalue, D1._yvalue, D1._zvalue), (D2._xvalue, D2._yvalue, D2._zvalue))])
        u1 = pf.FaceVariable(mesh, *ua); u2 = pf.FaceVariable(mesh, *gen.face_arrays(rng, mesh, lo=-1.0, hi=1.0))
        us = pf.FaceVariable(mesh, *[2.5 * a + b for a, b in zip((u1._xvalue, u1._yvalue, u1._zvalue), (u2._xvalue, u2._yvalue, u2._zvalue))])
        wd = pf.FaceVariable(mesh, *[np.where(a >= 0, 1.0, -1.0) if a.size else a for a in ua])
        with np.errstate(all="ignore"):
            checks = [("diffusionTerm", pf.diffusionTerm(Ds), 2.5 * pf.diffusionTerm(D1) + pf.diffusionTerm(D2)),
                      ("convectionTerm", pf.convectionTerm(us), 2.5 * pf.convectionTerm(u1) + pf.convectionTerm(u2)),
                      ("convectionUpwindTerm at fixed upwind direction", pf.convectionUpwindTerm(us, wd),
                       2.5 * pf.convectionUpwindTerm(u1, wd) + pf.convectionUpwindTerm(u2, wd))]
        for what, A, B in checks:
            n += 1
            if abs(A - B).max() > 1e-9 * (1 + abs(B).max()):
                ctx.violation(f"c17:{cname}:linear:{what}", f"{cname}: {what} is not linear in its coefficient field", dict(L, what=what))
    return n


# ------------------------------------------------------------------ C16
def outcome(f):
    try:
        f(); return "ok"
    except Exception as ex:
        return type(ex).__name__


def probe_c16(ctx, pf):
    import itertools
    n = 0
    rng = random.Random(f"c16-{ctx.seed}")
    for cname in gen.CLASSES:
        d = gen.DIM[cname]
        for N in (1, 2, 3):
            fs = [np.linspace(0.5, 1.5, N + 1) for _ in range(d)]
            mesh = gen.build_mesh(pf, cname, fs)
            L = lab(cname, fs)
            # component labels of FaceVariable: get and set
            fv = pf.FaceVariable(mesh, 1.0)
            for l in ALL_LABELS:
                want = "ok" if l in COORD_SYSTEM[cname] else "AttributeError"
                got_g = outcome(lambda: getattr(fv, l + "value"))
                got_s = outcome(lambda: setattr(fv, l + "value", getattr(fv, "_xvalue")))
                n += 2
                if got_g != want or got_s != want:
                    ctx.violation(f"c16:{cname}:facelabel:{l}", f"{cname}: FaceVariable.{l}value get->{got_g} set->{got_s}, documented: {want}", dict(L, label=l))
                if want == "ok":
                    slot = COORD_SYSTEM[cname].index(l)
                    if getattr(fv, l + "value") is not [fv._xvalue, fv._yvalue, fv._zvalue][slot]:
                        ctx.violation(f"c16:{cname}:facelabel:{l}:slot", f"{cname}: FaceVariable.{l}value names the wrong component", dict(L, label=l))
            # periodic flags: every pattern over the 2d sides
            sides = [s for ax in range(d) for s in SIDES[ax]]
            pats = list(itertools.product([False, True], repeat=len(sides)))
            if len(pats) > 16 and ctx.tier == "quick":
                pats = pats[::3] + [pats[-1]]
            for pat in pats:
                BC = pf.BoundaryConditions(mesh)
                for s, flag in zip(sides, pat):
                    if flag:
                        getattr(BC, s).periodic = True
                radial = gen.AXKIND[cname][0] == "rad" and (pat[0] or pat[1])
                want = "ValueError" if radial else "ok"
                got = outcome(lambda: pf.boundaryConditionsTerm(BC))
                got2 = outcome(lambda: pf.CellVariable(mesh, 1.0, BC))
                n += 2
                if got != want or got2 != want:
                    ctx.violation(f"c16:{cname}:periodic", f"{cname}: periodic flags {dict(zip(sides, pat))}: boundaryConditionsTerm->{got}, CellVariable->{got2}, documented: {want}",
                                  dict(L, flags=dict(zip(sides, [bool(x) for x in pat]))))
            # initial-value shapes
            dims = tuple(int(k) for k in mesh.dims)
            good = [np.ones(dims), np.ones(tuple(k + 2 for k in dims)), 2.0, np.array([2.0])]
            bad = [np.ones(tuple(k + 1 for k in dims)), np.ones(tuple(k + 3 for k in dims)), np.ones(dims + (2,)), np.ones((int(np.prod(dims)) + 5,))]
            for v in good:
                got = outcome(lambda: pf.CellVariable(mesh, v))
                n += 1
                if got != "ok":
                    ctx.violation(f"c16:{cname}:shape-valid", f"{cname}: CellVariable rejects a documented initial value of shape {np.shape(v)}: {got}", dict(L, shape=list(np.shape(v))))
            for v in bad:
                if v.size == 1 or v.shape == dims or v.shape == tuple(k + 2 for k in dims):
                    continue
                got = outcome(lambda: pf.CellVariable(mesh, v))
                n += 1
                if got != "ValueError":
                    ctx.violation(f"c16:{cname}:shape-invalid", f"{cname}: CellVariable with an array of shape {v.shape} on a {dims} grid gives {got}, documented: ValueError",
                                  dict(L, shape=list(v.shape)))
            # boundary coefficients must be arrays
            for args in ((1.0, 0.0, 0.0), ([1.0], [0.0], [0.0]), (np.ones(1), 0.0, np.zeros(1))):
                got = outcome(lambda: pf.boundary.BoundaryFace(*args))
                n += 1
                if got != "TypeError":
                    ctx.violation("c16:bcface-type", f"BoundaryFace with non-array coefficients {args!r} gives {got}, documented: TypeError", {"args": repr(args)})
            # equation terms
            phi = pf.CellVariable(mesh, 1.0)
            ncell = int(np.prod([k + 2 for k in dims]))
            from scipy.sparse import identity
            okterms = [identity(ncell, format="csr"), np.zeros(ncell), (identity(ncell, format="csr"), np.zeros(ncell)), pf.transientTerm(phi, 1.0)]
            for t in okterms:
                got = outcome(lambda: pf.solvePDE(pf.CellVariable(mesh, 1.0), [identity(ncell, format="csr"), t]))
                n += 1
                if got != "ok":
                    ctx.violation(f"c16:{cname}:term-valid", f"{cname}: solvePDE rejects a documented term kind ({type(t).__name__}): {got}", L)
            for t in (None, 3.0, "abc", (np.zeros(ncell), np.zeros(ncell)), (identity(ncell), np.zeros(ncell), np.zeros(ncell)), np.zeros((2, 2, 2)), (1.0, 2.0), object()):
                got = outcome(lambda: pf.solvePDE(pf.CellVariable(mesh, 1.0), [identity(ncell, format="csr"), t]))
                n += 1
                if got != "TypeError":
                    ctx.violation(f"c16:term-invalid:{type(t).__name__}", f"solvePDE with a non-conforming term {type(t).__name__} gives {got}, documented: TypeError", dict(L, term=repr(t)[:80]))
        # constructor arity 0..7: the documented forms (d face arrays; N.. + L..) are accepted, every other arity raises TypeError
        for k in range(0, 8):
            args = [np.array([0.5, 1.0, 1.5])] * k
            want = "ok" if k == d else "TypeError"
            got = outcome(lambda: getattr(pf, cname)(*args))
            if k in (6, 2 * d) and k != d:
                continue   # six positional arguments are the internal (dims, cellsize, ...) form; 2d arguments are the (N.., L..) form
            n += 1
            if (want == "ok") != (got == "ok") or (want != "ok" and got != "TypeError"):
                ctx.violation(f"c16:{cname}:arity:{k}", f"{cname} constructor with {k} arguments gives {got}, documented: {want}", {"cls": cname, "nargs": k})
        nl = [2] * d + [1.0] * d
        got = outcome(lambda: getattr(pf, cname)(*nl))
        n += 1
        if got != "ok":
            ctx.violation(f"c16:{cname}:NL-form", f"{cname}{tuple(nl)} raises {got}", {"cls": cname})
    return n


# ------------------------------------------------------------------ C09
def probe_c09(ctx, pf):
    """random edit/solve histories on real objects; then, for every live variable, the next solve is compared with a fresh start"""
    import copy as _copy
    from suites import statesuite as S
    n = 0
    rng = random.Random(f"c09-{ctx.seed}")
    nh = 40 if ctx.tier == "quick" else 300
    for k in range(nh):
        cname = S.GRIDS[k % len(S.GRIDS)]
        world = S.World(pf, rng, cname, "bc_default" if k % 2 else "bc_passed")
        length = rng.randint(3, 10 if ctx.tier == "quick" else 25)
        ops, exp, desc, err = S.gen_history(rng, world, length)
        L = {"cls": cname, "history": desc}
        if err:
            ctx.violation(f"c09:{cname}:raise", f"{cname}: history raised: {err}", L)
            continue
        D = world.D
        for vi, v in enumerate(world.vars):
            try:
                with np.errstate(all="ignore"):
                    fresh = pf.CellVariable(world.mesh, np.array(v.value), _copy.deepcopy(v.BCs))
                    a = v
                    if (k + vi) % 2 == 0:
                        # explicit solver FIRST: it must bring the ghost cells of its input up to date, and its result equals a fresh start
                        e1 = pf.solveExplicitPDE(a, 0.01, np.zeros(a._value.size))
                        e2 = pf.solveExplicitPDE(fresh, 0.01, np.zeros(a._value.size))
                        n += 1
                        if rel(e1._value, e2._value) > 1e-9 or rel(a._value, fresh._value) > 1e-9:
                            ctx.violation(f"c09:{cname}:explicit-first", f"{cname}: after a history of {len(desc)} operations solveExplicitPDE leaves stale boundary values or differs from a fresh start",
                                          dict(L, variable=vi))
                            break
                    pf.solvePDE(a, [pf.transientTerm(a, 0.7, 1.0), -pf.diffusionTerm(D)])
                    pf.solvePDE(fresh, [pf.transientTerm(fresh, 0.7, 1.0), -pf.diffusionTerm(D)])
                n += 1
                if np.all(np.isfinite(fresh._value)) and rel(a._value, fresh._value) > 1e-9:
                    ctx.violation(f"c09:{cname}:solve-vs-fresh", f"{cname}: after a history of {len(desc)} operations the next solvePDE on variable {vi} differs from a fresh start",
                                  dict(L, variable=vi))
                    break
                e1 = pf.solveExplicitPDE(a, 0.01, np.zeros(a._value.size))
                e2 = pf.solveExplicitPDE(fresh, 0.01, np.zeros(a._value.size))
                n += 1
                if rel(e1._value, e2._value) > 1e-9:
                    ctx.violation(f"c09:{cname}:explicit-vs-fresh", f"{cname}: solveExplicitPDE after a history differs from a fresh start", dict(L, variable=vi))
                    break
                # a variable returned by the explicit solver remains usable by the implicit solver
                pf.solvePDE(e1, [pf.transientTerm(e1, 0.7, 1.0), -pf.diffusionTerm(D)])
                n += 1
            except Exception as ex:
                ctx.violation(f"c09:{cname}:solve-raise", f"{cname}: solve after a history raised {type(ex).__name__}: {ex}", dict(L, variable=vi))
                break
        # (end of per-variable checks)
        # copies and arithmetic results are independent of their originals (values AND boundary conditions): edit the derived
        # variable, then solve the original and compare with a fresh start made BEFORE the edit
        v = world.vars[0]
        for nm, mk in (("copy()", lambda: v.copy()), ("-v", lambda: -v), ("2.0*v", lambda: 2.0 * v), ("v+1.0", lambda: v + 1.0), ("abs(v)", lambda: abs(v))):
            import copy as _cp
            with np.errstate(all="ignore"):
                fresh = pf.CellVariable(world.mesh, np.array(v.value), _cp.deepcopy(v.BCs))
                w = mk()
                w.value = np.asarray(w.value) + 1.0; w.BCs.left.c = 123.0; w.BCs.right.a = 7.0; w.BCs.right.b = 1.0
                a1 = v.copy(); pf.solvePDE(a1, [pf.transientTerm(a1, 0.7, 1.0), -pf.diffusionTerm(D)])
                pf.solvePDE(fresh, [pf.transientTerm(fresh, 0.7, 1.0), -pf.diffusionTerm(D)])
            n += 1
            if np.all(np.isfinite(fresh._value)) and rel(a1._value, fresh._value) > 1e-9:
                ctx.violation(f"c09:{cname}:independent:{nm}", f"{cname}: editing the values / boundary conditions of {nm} changed what the original variable solves to", dict(L, derived=nm))
                break
    # two variables sharing one BoundaryConditions object: an edit followed by a solve of ONE of them resets the dirty flags; the
    # explicit solver must refresh the other variable's boundary values all the same (Coq: explicit_refreshes_input)
    for cname in ("Grid1D", "CylindricalGrid2D"):
        rng_s = random.Random(f"c09sh-{ctx.seed}-{cname}")
        fs = gen.mesh_case(rng_s, cname, nmax=3, nmin=3)
        mesh = gen.build_mesh(pf, cname, fs)
        d = gen.DIM[cname]
        D = pf.FaceVariable(mesh, 1.0)
        with np.errstate(all="ignore"):
            bc = pf.BoundaryConditions(mesh)
            v0 = pf.CellVariable(mesh, np.abs(gen.cell_array(rng_s, mesh))[interior_slices(d)] + 0.5, bc)
            v1 = pf.CellVariable(mesh, np.abs(gen.cell_array(rng_s, mesh))[interior_slices(d)] + 0.5, bc)
            bc.left.a[:] = 0.0; bc.left.b[:] = 1.0; bc.left.c[:] = 3.0
            pf.solvePDE(v0, [pf.transientTerm(v0, 0.05, 1.0), -pf.diffusionTerm(D)])
            fresh = pf.CellVariable(mesh, np.array(v1.value), _copy.deepcopy(bc))
            outs = []
            for w_ in (v1, fresh):
                pf.solveExplicitPDE(w_, 1e-3, np.zeros(w_._value.size))
                rhs = pf.divergenceTerm(fmul(pf, mesh, D, pf.gradientTerm(w_)))
                outs.append(np.array(pf.solveExplicitPDE(w_, 1e-3, rhs)._value))
        n += 1
        if rel(outs[0], outs[1]) > 1e-9:
            ctx.violation("c09:shared_bc_stale_ghost", f"{cname}: two variables share one BoundaryConditions object; after an edit and a solve of the first, the second variable's boundary values stay outdated (explicit step from it differs from a fresh start)",
                          {"cls": cname, "faces": [list(map(float, f)) for f in fs], "history": ["v0, v1 share bc", "bc.left := Dirichlet 3", "solvePDE(v0)", "solveExplicitPDE(v1, 0)", "rhs = div(D grad v1)", "solveExplicitPDE(v1, rhs)"]})
    # systematic: from a clean state (constructed, one implicit step), edit exactly ONE side in one style, then each consumer
    # (explicit solver, apply_BCs, implicit solver) must see the edit -- on every class and every side
    rng = random.Random(f"c09s-{ctx.seed}")
    for cname in gen.CLASSES:
        d = gen.DIM[cname]
        fs = gen.mesh_case(rng, cname, nmax=3, nmin=2)
        mesh = gen.build_mesh(pf, cname, fs)
        D = pf.FaceVariable(mesh, 1.0)
        for ax in range(d):
            for side in SIDES[ax]:
                for style in ("assign", "slice", "method", "periodic"):
                    if style == "periodic" and gen.AXKIND[cname][ax] == "rad":
                        continue
                    # start states (round 6): a variable after one implicit step; a variable RETURNED BY THE EXPLICIT SOLVER (it shares the
                    # BoundaryConditions object of its input and carries no precomputed boundary term); a variable built without one
                    for consumer, start in [(c_, "implicit-step") for c_ in ("explicit", "apply_BCs", "implicit")] + \
                                           [("implicit", "explicit-result"), ("apply_BCs+implicit", "explicit-result"), ("implicit", "no-precalc")]:
                        L = {"cls": cname, "faces": [list(map(float, f)) for f in fs], "side": side, "edit": style, "then": consumer, "start": start}
                        try:
                            with np.errstate(all="ignore"):
                                init = np.abs(gen.cell_array(rng, mesh))[interior_slices(d)] + 0.5
                                if start == "no-precalc":
                                    v = pf.CellVariable(mesh, init, BCsTerm_precalc=False)
                                    v.apply_BCs()
                                else:
                                    v = pf.CellVariable(mesh, init)
                                    pf.solvePDE(v, [pf.transientTerm(v, 0.05, 1.0), -pf.diffusionTerm(D)])
                                if start == "explicit-result":
                                    v = pf.solveExplicitPDE(v, 0.01, np.zeros(v._value.size))
                                f = getattr(v.BCs, side)
                                if style == "assign":
                                    f.a = 0.0 * np.asarray(f.a); f.b = 0.0 * np.asarray(f.b) + 1.0; f.c = 0.0 * np.asarray(f.c) + 3.0
                                elif style == "slice":
                                    f.a[:] = 0.0; f.b[:] = 1.0; f.c[:] = 3.0
                                elif style == "method":
                                    f.fixedValue(3.0)
                                else:
                                    f.periodic = True
                                fresh = pf.CellVariable(mesh, np.array(v.value), _copy.deepcopy(v.BCs))
                                if consumer == "explicit":
                                    r1 = pf.solveExplicitPDE(v, 0.01, np.zeros(v._value.size)); r2 = pf.solveExplicitPDE(fresh, 0.01, np.zeros(v._value.size))
                                    bad = rel(r1._value, r2._value) > 1e-9 or rel(v._value, fresh._value) > 1e-9
                                elif consumer == "apply_BCs":
                                    v.apply_BCs(); fresh.apply_BCs()
                                    bad = rel(v._value, fresh._value) > 1e-9
                                else:
                                    if consumer == "apply_BCs+implicit":
                                        v.apply_BCs(); fresh.apply_BCs()
                                    pf.solvePDE(v, [pf.transientTerm(v, 0.05, 1.0), -pf.diffusionTerm(D)])
                                    pf.solvePDE(fresh, [pf.transientTerm(fresh, 0.05, 1.0), -pf.diffusionTerm(D)])
                                    bad = np.all(np.isfinite(fresh._value)) and rel(v._value, fresh._value) > 1e-9
                            n += 1
                            if bad:
                                ctx.violation(f"c09:{cname}:single-edit:{consumer}:{start}", f"{cname}: starting from a variable in state '{start}', after editing only the '{side}' side ({style}) {consumer} does not see the edit: result differs from a fresh start", L)
                        except Exception as ex:
                            ctx.violation(f"c09:{cname}:single-edit:raise", f"{cname}: single-side edit ({side}, {style}) then {consumer} raised {type(ex).__name__}: {ex}", L)
    return n


# ------------------------------------------------------------------ C14
import operator as _op
BINOPS = [("add", _op.add), ("sub", _op.sub), ("mul", _op.mul), ("truediv", _op.truediv), ("pow", _op.pow),
          ("gt", _op.gt), ("ge", _op.ge), ("lt", _op.lt), ("le", _op.le), ("and", _op.and_), ("or", _op.or_)]
NPREF = {"add": np.add, "sub": np.subtract, "mul": np.multiply, "truediv": np.divide, "pow": np.power, "gt": np.greater,
         "ge": np.greater_equal, "lt": np.less, "le": np.less_equal, "and": np.logical_and, "or": np.logical_or}


def _cell_arrays(v):
    out = [("value", v._value)]
    for ax in range(3):
        for s in SIDES[ax]:
            f = getattr(v.BCs, s)
            out += [(f"{s}.a", f._a), (f"{s}.b", f._b), (f"{s}.c", f._c)]
    return out


def _face_arrays(v):
    return [("x", v._xvalue), ("y", v._yvalue), ("z", v._zvalue)]


def _snap(arrs):
    return [np.array(a, copy=True) for _, a in arrs]


def _same(snaps, arrs):
    return all(np.array_equal(s, np.asarray(a), equal_nan=True) for s, (_, a) in zip(snaps, arrs))


def _aliases(res_arrs, op_arrs):
    for n1, a in res_arrs:
        for n2, b in op_arrs:
            if a.size and b.size and np.shares_memory(a, b):
                return f"{n1} aliases operand {n2}"
    return None


def probe_c14(ctx, pf):
    from suites.bcsuite import set_random_bcs
    n = 0
    for rng, cname, fs, mesh in cases(ctx, pf, "c14", reps_q=2, reps_t=10, nmin=2):
        d = len(mesh.dims)
        L = lab(cname, fs)
        def newcell():
            BC, _, _ = set_random_bcs(rng, mesh, cname, allow_periodic=False)
            return pf.CellVariable(mesh, np.abs(gen.cell_array(rng, mesh))[interior_slices(d)] + 0.5, BC)
        def newface():
            return pf.FaceVariable(mesh, *[np.abs(a) + 0.5 for a in gen.face_arrays(rng, mesh)])
        for kind, mk, arrs_of in (("cell", newcell, _cell_arrays), ("face", newface, _face_arrays)):
            for opname, fn in BINOPS:
                A, B = mk(), mk()
                scal = 1.5
                arr = (np.abs(gen.cell_array(rng, mesh))[interior_slices(d)] + 0.25) if kind == "cell" else None
                combos = [("var,var", A, B), ("var,scalar", A, scal), ("scalar,var", scal, A)]
                if kind == "cell":
                    combos.append(("var,ndarray", A, arr))
                for cn, x, y in combos:
                    if opname in ("gt", "ge", "lt", "le") and cn == "scalar,var":
                        pass  # python swaps to the mirrored comparison
                    ops = [o for o in (x, y) if hasattr(o, "domain")]
                    op_arrs = [pair for o in ops for pair in arrs_of(o)]
                    before = _snap(op_arrs)
                    try:
                        with np.errstate(all="ignore"):
                            r = fn(x, y)
                    except Exception as ex:
                        ctx.violation(f"c14:{kind}:{opname}:{cn}:raise", f"{kind} variable: operator {opname} with operands ({cn}) raised {type(ex).__name__}: {ex}", dict(L, op=opname, operands=cn))
                        continue
                    n += 1
                    tag = f"c14:{kind}:{opname}:{cn}"
                    if type(r) is not type(ops[0]):
                        ctx.violation(tag + ":type", f"{kind}: {opname}({cn}) returned {type(r).__name__}", dict(L, op=opname, operands=cn)); continue
                    if not _same(before, op_arrs):
                        ctx.violation(tag + ":mutates", f"{kind}: {opname}({cn}) modified an operand", dict(L, op=opname, operands=cn))
                    al = _aliases(arrs_of(r), op_arrs)
                    if al:
                        ctx.violation(tag + ":alias", f"{kind}: result of {opname}({cn}): {al}", dict(L, op=opname, operands=cn))
                    def inner(o):
                        if kind == "cell":
                            return np.asarray(o.value) if hasattr(o, "domain") else o
                        return o
                    with np.errstate(all="ignore"):
                        if kind == "cell":
                            want = NPREF[opname](inner(x), inner(y)).astype(float)
                            got = np.asarray(r.value, dtype=float)
                            ok = np.allclose(got, want, rtol=1e-13, atol=0, equal_nan=True)
                        else:
                            ok = True
                            for comp in ("_xvalue", "_yvalue", "_zvalue")[:d]:
                                gx = getattr(x, comp) if hasattr(x, "domain") else x
                                gy = getattr(y, comp) if hasattr(y, "domain") else y
                                ok = ok and np.allclose(np.asarray(getattr(r, comp), dtype=float), NPREF[opname](gx, gy).astype(float), rtol=1e-13, atol=0, equal_nan=True)
                    if not ok:
                        ctx.violation(tag + ":values", f"{kind}: {opname}({cn}) is not the elementwise numpy result on interior values", dict(L, op=opname, operands=cn))
                    if kind == "cell":
                        left = ops[0]
                        if r.BCs is left.BCs:
                            ctx.violation(tag + ":bcs-shared", f"cell: result of {opname}({cn}) shares the BoundaryConditions object of its operand", dict(L, op=opname, operands=cn))
                        for ax in range(d):
                            for s in SIDES[ax]:
                                f1, f2 = getattr(r.BCs, s), getattr(left.BCs, s)
                                if not (np.array_equal(f1.a, f2.a) and np.array_equal(f1.b, f2.b) and np.array_equal(f1.c, f2.c) and f1.periodic == f2.periodic):
                                    ctx.violation(tag + ":bcs-values", f"cell: result of {opname}({cn}) does not carry the boundary conditions of its left-most variable operand", dict(L, op=opname, operands=cn))
                        with np.errstate(all="ignore"):
                            fresh = pf.boundary.cellValuesWithBoundaries(np.array(r.value), r.BCs)
                        if not np.allclose(np.asarray(r._value), fresh, rtol=1e-12, atol=1e-12, equal_nan=True):
                            ctx.violation(tag + ":ghost", f"cell: boundary values of the result of {opname}({cn}) are not consistent with its boundary conditions", dict(L, op=opname, operands=cn))
                        # later modification of the result does not reach the operands, and vice versa
                        r.value = np.asarray(r.value) * 0 + 7.0; r.BCs.left.c = 99.0
                        if not _same(before, op_arrs):
                            ctx.violation(tag + ":later-mod", f"cell: modifying the result of {opname}({cn}) changed an operand", dict(L, op=opname, operands=cn))
                        rs = _snap(_cell_arrays(r))
                        ops[0].value = np.asarray(ops[0].value) * 0 + 3.0; ops[0].BCs.right.c = -5.0
                        if not _same(rs, _cell_arrays(r)):
                            ctx.violation(tag + ":later-mod2", f"cell: modifying an operand of {opname}({cn}) changed the earlier result", dict(L, op=opname, operands=cn))
            # unary, funceval / faceeval, copy
            A = mk(); op_arrs = arrs_of(A); before = _snap(op_arrs)
            with np.errstate(all="ignore"):
                results = [("neg", -A), ("abs", abs(A))]
                if kind == "cell":
                    results += [("funceval", pf.funceval(lambda x: x * 2.0, A)), ("celleval", pf.celleval(lambda x, y: x + y, A, mk())), ("copy", A.copy())]
                else:
                    results += [("faceeval", pf.faceeval(lambda x: x * 2.0, A))]
            refs = {"neg": lambda a: -a, "abs": np.abs, "funceval": lambda a: a * 2.0, "faceeval": lambda a: a * 2.0, "copy": lambda a: a}
            for nm, r in results:
                n += 1
                al = _aliases(arrs_of(r), op_arrs)
                if al or not _same(before, op_arrs):
                    ctx.violation(f"c14:{kind}:{nm}", f"{kind}: {nm} {'modified its operand' if not al else al}", dict(L, op=nm))
                if nm in refs:
                    if kind == "cell":
                        okv = np.allclose(np.asarray(r.value), refs[nm](np.asarray(A.value)), rtol=1e-13, atol=0)
                    else:
                        okv = all(np.allclose(getattr(r, c_), refs[nm](getattr(A, c_)), rtol=1e-13, atol=0) for c_ in ("_xvalue", "_yvalue", "_zvalue")[:d])
                    if not okv:
                        ctx.violation(f"c14:{kind}:{nm}:values", f"{kind}: {nm} is not the elementwise result on interior values", dict(L, op=nm))
                if kind == "cell":
                    if r.BCs is A.BCs:
                        ctx.violation(f"c14:cell:{nm}:bcs-shared", f"cell: result of {nm} shares the BoundaryConditions object of its operand", dict(L, op=nm))
                    for ax in range(d):
                        for sd in SIDES[ax]:
                            f1, f2 = getattr(r.BCs, sd), getattr(A.BCs, sd)
                            if not (np.array_equal(f1.a, f2.a) and np.array_equal(f1.b, f2.b) and np.array_equal(f1.c, f2.c)):
                                ctx.violation(f"c14:cell:{nm}:bcs-values", f"cell: result of {nm} does not carry the boundary conditions of its operand", dict(L, op=nm))
                    if nm != "copy":
                        with np.errstate(all="ignore"):
                            fresh = pf.boundary.cellValuesWithBoundaries(np.array(r.value), r.BCs)
                        if not np.allclose(np.asarray(r._value), fresh, rtol=1e-12, atol=1e-12, equal_nan=True):
                            ctx.violation(f"c14:cell:{nm}:ghost", f"cell: boundary values of the result of {nm} are not consistent with the boundary conditions it carries", dict(L, op=nm))
                    # later modification of the result must not reach the operand (values or boundary conditions)
                    r.BCs.left.c = 77.0; r.value = np.asarray(r.value) * 0 + 5.0
                    if not _same(before, op_arrs):
                        ctx.violation(f"c14:cell:{nm}:later-mod", f"cell: modifying the result of {nm} changed its operand", dict(L, op=nm))
            if kind == "cell":
                c = A.copy()
                if not (np.array_equal(c._value, A._value) and c.BCs is not A.BCs):
                    ctx.violation("c14:cell:copy-equal", "copy() is not an equal, independent variable", L)
        # expression trees
        a, b, c3 = newcell(), newcell(), newcell()
        arrs = _cell_arrays(a) + _cell_arrays(b) + _cell_arrays(c3); before = _snap(arrs)
        with np.errstate(all="ignore"):
            r = (2.0 * a + b) * c3 - abs(a) / (1.0 + b ** 2.0)
        n += 1
        want = (2.0 * np.asarray(a.value) + np.asarray(b.value)) * np.asarray(c3.value) - np.abs(a.value) / (1.0 + np.asarray(b.value) ** 2.0)
        if not np.allclose(r.value, want, rtol=1e-12) or not _same(before, arrs) or _aliases(_cell_arrays(r), arrs):
            ctx.violation(f"c14:{cname}:tree", f"{cname}: expression tree result wrong / operands modified / aliasing", L)
        for ax in range(d):
            for s in SIDES[ax]:
                if not np.array_equal(getattr(r.BCs, s).c, getattr(a.BCs, s).c):
                    ctx.violation(f"c14:{cname}:tree-bcs", f"{cname}: expression tree result does not carry the boundary conditions of its left-most variable operand", L)
    return n


# ------------------------------------------------------------------ C15
def _mesh_arrays(mesh):
    out = []
    for nm in ("cellsize", "cellcenters", "facecenters"):
        p = getattr(mesh, nm)
        out += [(f"{nm}._x", p._x), (f"{nm}._y", p._y), (f"{nm}._z", p._z)]
    out.append(("dims", mesh.dims))
    return out


def _result_arrays(r):
    """all ndarrays reachable from a builder result (matrices, vectors, variables, tuples)"""
    out = []
    def walk(x, nm):
        if isinstance(x, tuple) or isinstance(x, list):
            for i, y in enumerate(x): walk(y, f"{nm}[{i}]")
        elif hasattr(x, "tocsr"):
            c = x.tocsr(); out.extend([(nm + ".data", c.data), (nm + ".indices", c.indices)])
        elif isinstance(x, np.ndarray):
            out.append((nm, x))
        elif hasattr(x, "_xvalue"):
            out.extend([(nm + "._xvalue", np.asarray(x._xvalue)), (nm + "._yvalue", np.asarray(x._yvalue)), (nm + "._zvalue", np.asarray(x._zvalue))])
        elif hasattr(x, "_value"):
            out.append((nm + "._value", np.asarray(x._value)))
            out.extend((nm + "." + a, b) for a, b in _cell_arrays(x)[1:])
    walk(r, "result")
    return out


def _bits(r):
    return [np.array(a, copy=True) for _, a in _result_arrays(r)]


class _Flags:
    """live view of the six periodic flags of a BoundaryConditions object (snapshotted like an array)"""
    def __init__(self, bcs): self.bcs = bcs
    def __array__(self, dtype=None, copy=None):
        return np.array([bool(getattr(self.bcs, s).periodic) for ax in range(3) for s in SIDES[ax]])


def probe_c15(ctx, pf):
    from suites.bcsuite import set_random_bcs
    n = 0
    for rng, cname, fs, mesh in cases(ctx, pf, "c15", reps_q=2, reps_t=10, nmin=2):
        d = len(mesh.dims)
        L = lab(cname, fs)
        BC, _, _ = set_random_bcs(rng, mesh, cname, allow_periodic=False)
        nonrad = [ax for ax in range(d) if gen.AXKIND[cname][ax] != "rad"]
        phi = pf.CellVariable(mesh, np.abs(gen.cell_array(rng, mesh))[interior_slices(d)] + 0.5, BC)
        D = pf.FaceVariable(mesh, *[np.abs(a) + 0.25 for a in gen.face_arrays(rng, mesh)])
        u = pf.FaceVariable(mesh, *gen.face_arrays(rng, mesh))
        uup = pf.FaceVariable(mesh, *[np.where(a >= 0, 1.0, -1.0) if a.size else a for a in (u._xvalue, u._yvalue, u._zvalue)])
        beta = pf.CellVariable(mesh, np.abs(gen.cell_array(rng, mesh))[interior_slices(d)] + 0.5)
        FL = pf.fluxLimiter("Koren")
        ncell = int(np.prod(full_shape(mesh)))
        calls = [("diffusionTerm", lambda: pf.diffusionTerm(D)), ("convectionTerm", lambda: pf.convectionTerm(u)),
                 ("convectionUpwindTerm", lambda: pf.convectionUpwindTerm(u)), ("convectionUpwindTerm(u,u_upwind)", lambda: pf.convectionUpwindTerm(u, uup)),
                 ("convectionTVDupwindRHSTerm", lambda: pf.convectionTVDupwindRHSTerm(u, phi, FL)),
                 ("divergenceTerm", lambda: pf.divergenceTerm(D)), ("gradientTerm", lambda: pf.gradientTerm(phi)),
                 ("linearMean", lambda: pf.linearMean(phi)), ("arithmeticMean", lambda: pf.arithmeticMean(phi)),
                 ("geometricMean", lambda: pf.geometricMean(phi)), ("harmonicMean", lambda: pf.harmonicMean(phi)),
                 ("upwindMean", lambda: pf.upwindMean(phi, u)), ("linearSourceTerm", lambda: pf.linearSourceTerm(beta)),
                 ("constantSourceTerm", lambda: pf.constantSourceTerm(beta)), ("transientTerm", lambda: pf.transientTerm(phi, 0.5, beta)),
                 ("transientTerm(scalar alpha)", lambda: pf.transientTerm(phi, 0.5, 2.0)),
                 ("boundaryConditionsTerm", lambda: pf.boundaryConditionsTerm(phi.BCs)),
                 ("cellValuesWithBoundaries", lambda: pf.boundary.cellValuesWithBoundaries(np.array(phi.value), phi.BCs)),
                 ("cellLocations", lambda: pf.cellLocations(mesh)), ("faceLocations", lambda: pf.faceLocations(mesh)),
                 ("cellvolume", lambda: mesh.cellvolume), ("plotprofile", lambda: phi.plotprofile()),
                 ("domainIntegral", lambda: np.asarray(phi.domainIntegral())),
                 ("solveMatrixPDE", lambda: pf.solveMatrixPDE(mesh, pf.boundaryConditionsTerm(phi.BCs)[0] + pf.linearSourceTerm(beta), np.ones(ncell))),
                 ("solveExplicitPDE", lambda: pf.solveExplicitPDE(phi, 0.01, np.ones(ncell)))]
        inputs = _mesh_arrays(mesh) + _cell_arrays(phi) + _cell_arrays(beta) + _face_arrays(D) + _face_arrays(u) + _face_arrays(uup) \
            + [("BCs.periodic flags", _Flags(phi.BCs))]
        for nm, call in calls:
            before = _snap(inputs)
            try:
                with np.errstate(all="ignore"):
                    r1 = call(); b1 = _bits(r1)
                    r2 = call(); b2 = _bits(r2)
            except Exception as ex:
                ctx.violation(f"c15:{cname}:{nm}:raise", f"{cname}: {nm} raised {type(ex).__name__}: {ex}", dict(L, call=nm)); continue
            n += 1
            if not _same(before, inputs):
                bad = [k for (k, a), s in zip(inputs, before) if not np.array_equal(s, np.asarray(a), equal_nan=True)]
                ctx.violation(f"c15:{cname}:{nm}:mutates", f"{cname}: {nm} modified its inputs: {bad[:4]}", dict(L, call=nm, modified=bad[:8]))
            if len(b1) != len(b2) or any(x.shape != y.shape or x.tobytes() != y.tobytes() for x, y in zip(b1, b2)):
                ctx.violation(f"c15:{cname}:{nm}:nondeterministic", f"{cname}: two calls of {nm} with equal inputs are not bit-identical", dict(L, call=nm))
            al = _aliases(_result_arrays(r1), _mesh_arrays(mesh))
            if al:
                ctx.violation(f"c15:{cname}:{nm}:alias-grid", f"{cname}: result of {nm} aliases grid storage ({al})", dict(L, call=nm))
            if nm not in ("solveExplicitPDE",):
                al = _aliases(_result_arrays(r1), _cell_arrays(phi) + _cell_arrays(beta) + _face_arrays(D) + _face_arrays(u))
                if al:
                    ctx.violation(f"c15:{cname}:{nm}:alias-input", f"{cname}: result of {nm} aliases an input array ({al})", dict(L, call=nm))
        # solvePDE modifies only its solution variable; terms are reusable in a time loop
        x = pf.CellVariable(mesh, np.array(phi.value), BC)
        Md = pf.diffusionTerm(D); Mu = pf.convectionUpwindTerm(u); Mb = pf.linearSourceTerm(beta)
        terms = [-Md, Mu, Mb]
        tb = _bits(terms)
        others = _mesh_arrays(mesh) + _cell_arrays(beta) + _face_arrays(D) + _face_arrays(u) + [("BCs.periodic flags", _Flags(BC))] \
            + [(k_, a_) for k_, a_ in _cell_arrays(x)[1:]]
        before = _snap(others)
        with np.errstate(all="ignore"):
            for step in range(3):
                pf.solvePDE(x, [pf.transientTerm(x, 0.5, 1.0)] + terms)
        n += 1
        if not _same(before, others):
            ctx.violation(f"c15:{cname}:solvePDE:mutates", f"{cname}: solvePDE modified something other than its solution variable", L)
        ta = _bits(terms)
        if any(a.tobytes() != b.tobytes() for a, b in zip(tb, ta)):
            ctx.violation(f"c15:{cname}:solvePDE:terms", f"{cname}: solvePDE modified the terms it was given (they cannot be reused in a time loop)", L)
        # a periodic direction declared through ONE side flag only (the style of the tutorials), every non-radial axis and side:
        # the boundary builders and the solvers must leave the BoundaryConditions object (coefficients AND flags) as it was
        for ax_p in nonrad:
            for side_p in SIDES[ax_p]:
                BCp, _, _ = set_random_bcs(rng, mesh, cname, allow_periodic=False)
                getattr(BCp, side_p).periodic = True
                Lp = dict(L, periodic_flag_on=side_p)
                try:
                    with np.errstate(all="ignore"):
                        inp = [(f"{s_}.{k_}", getattr(getattr(BCp, s_), "_" + k_)) for ax_ in range(3) for s_ in SIDES[ax_] for k_ in "abc"] \
                            + [("BCs.periodic flags", _Flags(BCp))]
                        before = _snap(inp)
                        php = pf.CellVariable(mesh, np.array(phi.value), BCp)
                        n += 1
                        if not _same(before, inp):
                            bad = [k for (k, a), s_ in zip(inp, before) if not np.array_equal(s_, np.asarray(a), equal_nan=True)]
                            ctx.violation(f"c15:{cname}:CellVariable:mutates-bcs", f"{cname}: constructing a CellVariable modified the boundary-condition object it was given (periodic flag on '{side_p}' only): {bad[:4]}",
                                          dict(Lp, call="CellVariable(mesh, values, BCs)", modified=bad[:8]))
                            continue
                        callsp = [("CellVariable(mesh, values, BCs)", lambda: pf.CellVariable(mesh, np.array(phi.value), BCp)),
                                  ("boundaryConditionsTerm", lambda: pf.boundaryConditionsTerm(BCp)),
                                  ("cellValuesWithBoundaries", lambda: pf.boundary.cellValuesWithBoundaries(np.array(phi.value), BCp)),
                                  ("solveExplicitPDE", lambda: pf.solveExplicitPDE(php, 0.01, np.ones(ncell))),
                                  ("solvePDE", lambda: pf.solvePDE(pf.CellVariable(mesh, np.array(phi.value), BCp), [pf.transientTerm(php, 0.5, 1.0), -Md]))]
                        for nm, call in callsp:
                            before = _snap(inp)
                            call()
                            n += 1
                            if not _same(before, inp):
                                bad = [k for (k, a), s_ in zip(inp, before) if not np.array_equal(s_, np.asarray(a), equal_nan=True)]
                                ctx.violation(f"c15:{cname}:{nm}:mutates-bcs", f"{cname}: {nm} modified the boundary-condition object it was given (periodic flag on '{side_p}' only): {bad[:4]}",
                                              dict(Lp, call=nm, modified=bad[:8]))
                except Exception as ex:
                    ctx.violation(f"c15:{cname}:periodic:raise", f"{cname}: a builder raised with a one-sided periodic flag on '{side_p}': {type(ex).__name__}: {ex}", Lp)
    return n


# ------------------------------------------------------------------ C07
def exact_solve(M, rhs):
    """Gaussian elimination over the rationals of the (float) system the implementation assembled"""
    from fractions import Fraction
    A = [[Fraction(float(v)) for v in row] for row in M.toarray()]
    b = [Fraction(float(v)) for v in rhs]
    n = len(b)
    for i in range(n):
        p = next((r for r in range(i, n) if A[r][i] != 0), None)
        if p is None:
            return None
        A[i], A[p] = A[p], A[i]; b[i], b[p] = b[p], b[i]
        inv = 1 / A[i][i]
        for r in range(i + 1, n):
            if A[r][i] != 0:
                f = A[r][i] * inv
                rowi, rowr = A[i], A[r]
                for k in range(i, n):
                    if rowi[k] != 0:
                        rowr[k] -= f * rowi[k]
                b[r] -= f * b[i]
    x = [Fraction(0)] * n
    for i in reversed(range(n)):
        s = b[i] - sum(A[i][k] * x[k] for k in range(i + 1, n) if A[i][k] != 0)
        x[i] = s / A[i][i]
    return x


def divfree_velocity(rng, pf, mesh, cname, fs, want_ax=None, want_sign=None):
    """one-directional flow along an axis with A(f)*u(f) constant along that axis (discretely divergence-free), or a discrete
    stream function on Grid2D.  Returns (FaceVariable, flow axis or None)."""
    d = len(mesh.dims)
    dims = [int(k) for k in mesh.dims]
    arrs = [np.zeros((dims[0] + 1,) + tuple(dims[1:])) if d >= 1 else None]
    if d >= 2: arrs.append(np.zeros((dims[0], dims[1] + 1) + tuple(dims[2:])))
    if d >= 3: arrs.append(np.zeros((dims[0], dims[1], dims[2] + 1)))
    while len(arrs) < 3: arrs.append(np.array([]))
    if cname == "Grid2D" and want_ax is None and rng.random() < 0.5:
        psi = np.zeros((dims[0] + 1, dims[1] + 1))
        psi[1:-1, 1:-1] = [[rng.uniform(-1, 1) for _ in range(dims[1] - 1)] for _ in range(dims[0] - 1)] if dims[0] > 1 and dims[1] > 1 else 0
        dxs, dys = np.diff(fs[0]), np.diff(fs[1])
        arrs[0] = (psi[:, 1:] - psi[:, :-1]) / dys[None, :]
        arrs[1] = -(psi[1:, :] - psi[:-1, :]) / dxs[:, None]
        return pf.FaceVariable(mesh, *arrs), None
    cands = [ax for ax in range(d) if not (gen.AXKIND[cname][ax] == "rad" and fs[0][0] == 0.0)]
    if not cands:
        return pf.FaceVariable(mesh, *arrs), None
    ax = want_ax if (want_ax in cands) else rng.choice(cands)
    rf = np.asarray(fs[0], dtype=float)
    tshape = [dims[i] for i in range(d) if i != ax]
    q = np.array([rng.uniform(-2, 2) for _ in range(int(np.prod(tshape)) if tshape else 1)]).reshape(tshape if tshape else (1,))
    if want_sign is not None:
        q = np.abs(q) * want_sign
    elif rng.random() < 0.5:
        q = np.abs(q) * rng.choice([-1.0, 1.0])
    if gen.AXKIND[cname][ax] == "rad":
        A = rf if cname.startswith("Cyl") or cname.startswith("Polar") else rf ** 2
    elif cname == "SphericalGrid3D" and ax == 1:
        A = np.sin(np.asarray(fs[1], dtype=float))
        A = np.where(np.abs(A) < 1e-12, np.nan, A)
    else:
        A = np.ones(dims[ax] + 1)
    sh = [1] * d; sh[ax] = -1
    qfull = np.expand_dims(q, ax) if tshape else q.reshape([1] * d)
    arrs[ax] = qfull / A.reshape(sh) * np.ones(arrs[ax].shape)
    if not np.all(np.isfinite(arrs[ax])):
        arrs[ax] = np.zeros(arrs[ax].shape); ax = None
    return pf.FaceVariable(mesh, *arrs), ax


def probe_c07(ctx, pf):
    from scipy.sparse.linalg import spsolve
    n = 0
    counter = {}
    for rng, cname, fs, mesh in cases(ctx, pf, "c07", reps_q=8, reps_t=40, nmin=2, nmax_q=4, nmax_t=6):
        d = len(mesh.dims)
        k_ = counter.get(cname, 0); counter[cname] = k_ + 1
        # the first 2*d cases of a class run through every axis with both flow directions; the rest are random
        want_ax, want_sign = ((k_ // 2) % d, (1.0 if k_ % 2 == 0 else -1.0)) if k_ < 2 * d else (None, None)
        u, flow_ax = divfree_velocity(rng, pf, mesh, cname, fs, want_ax, want_sign)
        divu = pf.divergenceTerm(u)
        if np.max(np.abs(divu)) > 1e-9 * (1 + max(np.max(np.abs(a)) if a.size else 0 for a in (u._xvalue, u._yvalue, u._zvalue))):
            continue   # generator could not make it divergence-free (should not happen)
        BC = pf.BoundaryConditions(mesh)
        dvals = []
        sink = rng.random() < 0.4
        shift = 0.0 if sink else rng.choice([0.0, 1.0, 1.0])    # without sink the bound is the data range itself: use data away from 0
        for ax in range(d):
            radial = gen.AXKIND[cname][ax] == "rad"
            comp = (u._xvalue, u._yvalue, u._zvalue)[ax]
            lo_idx = tuple(0 if i == ax else slice(None) for i in range(d)); hi_idx = tuple(-1 if i == ax else slice(None) for i in range(d))
            normal_flow = np.any(comp[lo_idx] != 0) or np.any(comp[hi_idx] != 0)
            if normal_flow:
                kinds = ["dirichlet"]
            else:
                kinds = ["dirichlet", "noflux"] + ([] if radial else ["periodic"])
            kind = rng.choice(kinds)
            if kind == "periodic":
                dxs = np.diff(fs[ax])
                if abs(dxs[0] - dxs[-1]) > 1e-14:
                    kind = "noflux"
            for s in SIDES[ax]:
                f = getattr(BC, s)
                if kind == "dirichlet":
                    if radial and s == "left" and fs[0][0] == 0.0:
                        continue   # the axis r = 0 is not a boundary: keep no-flux
                    c = shift + np.array([rng.uniform(0, 1) for _ in range(f.c.size)]).reshape(f.c.shape)
                    f.a[:] = 0.0; f.b[:] = 1.0; f.c[:] = c; dvals += c.ravel().tolist()
                elif kind == "periodic":
                    f.periodic = True
        contrast = 10.0 ** rng.uniform(0, 8)
        Da = [np.where(np.array([rng.random() < 0.1 for _ in range(a.size)]).reshape(a.shape), 0.0,
                       10.0 ** np.array([rng.uniform(-np.log10(contrast) / 2, np.log10(contrast) / 2) for _ in range(a.size)]).reshape(a.shape)) if a.size else a
              for a in gen.face_arrays(rng, mesh)]
        for ax in range(d):    # the two copies of a periodic face carry one diffusivity
            if getattr(BC, SIDES[ax][0]).periodic:
                lo_idx = tuple(0 if i == ax else slice(None) for i in range(d)); hi_idx = tuple(-1 if i == ax else slice(None) for i in range(d))
                Da[ax][hi_idx] = Da[ax][lo_idx]
        D = pf.FaceVariable(mesh, *Da)
        beta = pf.CellVariable(mesh, (np.abs(gen.cell_array(rng, mesh))[interior_slices(d)] * (10.0 ** rng.uniform(-2, 2))) if sink else 0.0)
        inner = np.array([rng.uniform(0, 1) for _ in range(int(np.prod(mesh.dims)))]).reshape(tuple(int(k) for k in mesh.dims))
        if rng.random() < 0.3:
            inner = (inner > 0.5).astype(float)
        inner = inner + shift
        phi = pf.CellVariable(mesh, inner, BC)
        L = lab(cname, fs, D=tuple(Da), u=(u._xvalue, u._yvalue, u._zvalue), phi_interior=inner, sink=sink)
        L["bc"] = {s: {"a": np.asarray(getattr(BC, s).a).tolist(), "b": np.asarray(getattr(BC, s).b).tolist(), "c": np.asarray(getattr(BC, s).c).tolist(),
                       "periodic": bool(getattr(BC, s).periodic)} for ax in range(d) for s in SIDES[ax]}
        Md, Mu, Mb = pf.diffusionTerm(D), pf.convectionUpwindTerm(u), pf.linearSourceTerm(beta)
        # sharpest instance of the range statement: uniform data (initial field and every Dirichlet value equal to c, no sink)
        # must stay exactly uniform in a discretely divergence-free flow, for every dt
        BCc = pf.BoundaryConditions(mesh)
        for ax in range(d):
            for sd in SIDES[ax]:
                f0, f1 = getattr(BC, sd), getattr(BCc, sd)
                f1.a[:] = np.asarray(f0.a); f1.b[:] = np.asarray(f0.b); f1.periodic = f0.periodic
                f1.c[:] = np.where(np.asarray(f0.b) != 0, 1.75, 0.0).reshape(f1.c.shape)
        xc = pf.CellVariable(mesh, 1.75, BCc)
        for dtc in (1e-2, 1.0, 1e3):
            with np.errstate(all="ignore"):
                pf.solvePDE(xc, [pf.transientTerm(xc, dtc, 1.0), -Md, Mu])
            n += 1
            dev = float(np.max(np.abs(np.asarray(xc.value) - 1.75)))
            if not dev <= 1e-7:
                ctx.violation(f"c07:{cname}:uniform", f"{cname}: a uniform field with matching Dirichlet data leaves its (single-point) range by {dev:.3g} in a divergence-free flow (dt={dtc:g})",
                              dict(L, dt=dtc, value=1.75, result=np.asarray(xc.value)))
                break
        nsteps = 3 if ctx.tier == "quick" else 6
        for step in range(nsteps):
            dt = 10.0 ** rng.uniform(-4, 4)
            old = np.array(phi.value)
            lo_b = min([old.min()] + dvals + ([0.0] if sink else [])); hi_b = max([old.max()] + dvals + ([0.0] if sink else []))
            spy = {}
            def solver(M, R):
                spy["M"], spy["R"] = M.copy(), R.copy(); return spsolve(M, R)
            with np.errstate(all="ignore"):
                pf.solvePDE(phi, [pf.transientTerm(phi, dt, 1.0), -Md, Mu, Mb], externalsolver=solver)
            new = np.array(phi.value)
            n += 1
            if not np.all(np.isfinite(new)):
                ctx.violation(f"c07:{cname}:nonfinite", f"{cname}: solvePDE returned non-finite values in a maximum-principle configuration (dt={dt:g})", dict(L, dt=dt, step=step)); break
            rngw = hi_b - lo_b + 1e-300
            over = max(new.max() - hi_b, lo_b - new.min())
            if over > 1e-9 * (rngw + abs(hi_b) + abs(lo_b)):
                confirmed = True; exact_over = None
                if spy["M"].shape[0] <= 150:
                    xs = exact_solve(spy["M"], spy["R"])
                    if xs is not None:
                        shape = full_shape(mesh)
                        xe = np.array([float(v) for v in xs]).reshape(shape)[interior_slices(d)]
                        exact_over = max(xe.max() - hi_b, lo_b - xe.min())
                        confirmed = exact_over > 1e-12 * (rngw + abs(hi_b) + abs(lo_b))
                elif over < 1e-6 * (rngw + abs(hi_b) + abs(lo_b)):
                    confirmed = False    # within the rounding of an ill-conditioned system, too large to re-solve exactly
                if confirmed:
                    ctx.violation(f"c07:{cname}:overshoot", f"{cname}: implicit step leaves the range [{lo_b:.6g}, {hi_b:.6g}] of previous values and Dirichlet data by {over:.3g} (dt={dt:g}; exact re-solve: {exact_over})",
                                  dict(L, dt=dt, step=step, old_interior=old, new_interior=new, overshoot=float(over)))
                    break
    return n


# ------------------------------------------------------------------ C08
def _run_problem(pf, mesh, BC, inner, Da, ua, be, nsteps, dts, tvd=True):
    phi = pf.CellVariable(mesh, inner, BC)
    D = pf.FaceVariable(mesh, *Da); u = pf.FaceVariable(mesh, *ua)
    beta = pf.CellVariable(mesh, be)
    FL = pf.fluxLimiter("Koren")
    out = []
    for k in range(nsteps):
        terms = [pf.transientTerm(phi, dts[k], 1.0), -pf.diffusionTerm(D), pf.convectionUpwindTerm(u), pf.linearSourceTerm(beta)]
        if tvd:
            terms.append(pf.convectionTVDupwindRHSTerm(u, phi, FL))
        pf.solvePDE(phi, terms)
        out.append(np.array(phi._value))
    return out


def _set_bc(rng, BC, side, kind, shape_like=None, vals=None):
    f = getattr(BC, side)
    if kind == "dirichlet":
        f.a[:] = 0.0; f.b[:] = 1.0; f.c[:] = vals if vals is not None else 1.0
    elif kind == "robin":
        f.a[:] = (1.0 if side in ("right", "top", "front") else -1.0); f.b[:] = 2.0; f.c[:] = vals if vals is not None else 1.0
    elif kind == "periodic":
        f.periodic = True


def probe_c08(ctx, pf):
    n = 0
    rng = random.Random(f"c08-{ctx.seed}")
    reps = 4 if ctx.tier == "quick" else 25
    # (1) extrusion: (high class, low class, kept axes of the high class)
    pairs = [("Grid2D", "Grid1D", [0]), ("Grid3D", "Grid2D", [0, 1]), ("Grid3D", "Grid1D", [0]), ("CylindricalGrid3D", "CylindricalGrid2D", [0, 2]),
             ("PolarGrid2D", "CylindricalGrid1D", [0]), ("CylindricalGrid2D", "CylindricalGrid1D", [0]), ("CylindricalGrid3D", "CylindricalGrid1D", [0])]
    for hi_c, lo_c, keep in pairs:
        for rep in range(reps):
            dh = gen.DIM[hi_c]
            fs_hi = gen.mesh_case(rng, hi_c, nmax=3, nmin=2)
            fs_lo = [fs_hi[a] for a in keep]
            mh = gen.build_mesh(pf, hi_c, fs_hi); ml = gen.build_mesh(pf, lo_c, fs_lo)
            # low-dimensional data
            inner_lo = gen.cell_array(rng, ml)[interior_slices(len(keep))]
            Da_lo = [np.abs(a) + 0.1 for a in gen.face_arrays(rng, ml)][:len(keep)]; ua_lo = list(gen.face_arrays(rng, ml))[:len(keep)]
            be_lo = np.abs(gen.cell_array(rng, ml))[interior_slices(len(keep))]
            kinds = {a: (rng.choice(["dirichlet", "robin", "noflux"]), rng.choice(["dirichlet", "robin", "noflux"])) for a in keep}
            cvals = {a: (rng.uniform(0, 2), rng.uniform(0, 2)) for a in keep}
            BCl = pf.BoundaryConditions(ml); BCh = pf.BoundaryConditions(mh)
            for j, a in enumerate(keep):
                for s in range(2):
                    _set_bc(rng, BCl, SIDES[j][s], kinds[a][s], vals=cvals[a][s])
                    _set_bc(rng, BCh, SIDES[a][s], kinds[a][s], vals=cvals[a][s])
            dropped = [a for a in range(dh) if a not in keep]
            per_dropped = {a: (gen.AXKIND[hi_c][a] != "rad" and rng.random() < 0.5) for a in dropped}
            for a in dropped:
                if per_dropped[a]:
                    getattr(BCh, SIDES[a][0]).periodic = True; getattr(BCh, SIDES[a][1]).periodic = True
            dims_h = [int(k) for k in mh.dims]
            def extrude_cell(arr):
                sh = [1] * dh
                for j, a in enumerate(keep): sh[a] = arr.shape[j]
                return np.broadcast_to(arr.reshape(sh), dims_h).copy()
            def extrude_face(arrs, other_vals):
                out = []
                for a in range(dh):
                    shape = [dims_h[i] + (1 if i == a else 0) for i in range(dh)]
                    if a in keep:
                        j = keep.index(a); src = arrs[j]
                        sh = [1] * dh
                        for jj, aa in enumerate(keep): sh[aa] = src.shape[jj]
                        out.append(np.broadcast_to(src.reshape(sh), shape).copy())
                    else:
                        out.append(np.full(shape, other_vals))
                while len(out) < 3: out.append(np.array([]))
                return out
            Da_hi = extrude_face(Da_lo, 0.7); ua_hi = extrude_face(ua_lo, 0.0)
            dts = [10.0 ** rng.uniform(-2, 1) for _ in range(2)]
            L = {"pair": [hi_c, lo_c], "faces_high": [list(map(float, f)) for f in fs_hi], "kept_axes": keep, "phi_low": inner_lo.tolist(),
                 "D_low": [a.tolist() for a in Da_lo], "u_low": [a.tolist() for a in ua_lo], "bc_kinds": {str(k): v for k, v in kinds.items()}, "dts": dts}
            try:
                with np.errstate(all="ignore"):
                    Dl = Da_lo + [np.array([])] * (3 - len(Da_lo)); ul = ua_lo + [np.array([])] * (3 - len(ua_lo))
                    rl = _run_problem(pf, ml, BCl, inner_lo, Dl, ul, be_lo, 2, dts)
                    rh = _run_problem(pf, mh, BCh, extrude_cell(inner_lo), Da_hi, ua_hi, extrude_cell(be_lo), 2, dts)
            except Exception as ex:
                ctx.violation(f"c08:{hi_c}->{lo_c}:raise", f"{hi_c}->{lo_c}: {type(ex).__name__}: {ex}", L); continue
            n += 1
            lo_int = rl[-1][interior_slices(len(keep))]; hi_int = rh[-1][interior_slices(dh)]
            if not np.all(np.isfinite(lo_int)) or np.max(np.abs(lo_int)) > 1e6:
                continue
            e = rel(hi_int, extrude_cell(lo_int))
            if e > 1e-8:
                ctx.violation(f"c08:{hi_c}->{lo_c}", f"{hi_c} with data invariant along the dropped axes differs from {lo_c} (rel {e:.3g})", L)
    # (2) Cartesian permutation / mirror / periodic shift
    for rep in range(reps):
        for cname in ("Grid2D", "Grid3D"):
            d = gen.DIM[cname]
            fs = gen.mesh_case(rng, cname, nmax=3, nmin=2)
            mesh = gen.build_mesh(pf, cname, fs)
            inner = gen.cell_array(rng, mesh)[interior_slices(d)]
            Da = [np.abs(a) + 0.1 if a.size else a for a in gen.face_arrays(rng, mesh)]; ua = list(gen.face_arrays(rng, mesh))
            be = np.abs(gen.cell_array(rng, mesh))[interior_slices(d)]
            kinds = {a: (rng.choice(["dirichlet", "robin", "noflux"]), rng.choice(["dirichlet", "robin", "noflux"])) for a in range(d)}
            cvals = {a: (rng.uniform(0, 2), rng.uniform(0, 2)) for a in range(d)}
            def mkbc(m_, axes_map, mirror_ax=None):
                BC = pf.BoundaryConditions(m_)
                for newa in range(d):
                    olda = axes_map[newa]
                    for s in range(2):
                        src_s = (1 - s) if olda == mirror_ax else s
                        f = getattr(BC, SIDES[newa][s]); k = kinds[olda][src_s]
                        _set_bc(rng, BC, SIDES[newa][s], k, vals=cvals[olda][src_s])
                        if k == "robin":
                            f.a[:] = 1.0 if s == 1 else -1.0
                return BC
            dts = [10.0 ** rng.uniform(-2, 1) for _ in range(2)]
            L = lab(cname, fs, phi_interior=inner, D=tuple(Da), u=tuple(ua), bc_kinds={str(k): v for k, v in kinds.items()})
            with np.errstate(all="ignore"):
                base = _run_problem(pf, mesh, mkbc(mesh, list(range(d))), inner, Da, ua, be, 2, dts)[-1][interior_slices(d)]
                # permutation
                perm = list(range(d)); rng.shuffle(perm)
                m2 = gen.build_mesh(pf, cname, [fs[p] for p in perm])
                Dp = [np.transpose(Da[p], perm) for p in perm] + [np.array([])] * (3 - d)
                up = [np.transpose(ua[p], perm) for p in perm] + [np.array([])] * (3 - d)
                rp = _run_problem(pf, m2, mkbc(m2, perm), np.transpose(inner, perm), Dp, up, np.transpose(be, perm), 2, dts)[-1][interior_slices(d)]
                n += 1
                if np.all(np.isfinite(base)) and rel(rp, np.transpose(base, perm)) > 1e-8:
                    ctx.violation(f"c08:{cname}:permute", f"{cname}: permuting the axes {perm} does not permute the solution", dict(L, perm=perm))
                # mirror axis 0 (x -> -x): faces reversed and negated, u_x reversed in sign
                ax = rng.randrange(d)
                fm = [np.asarray(f) for f in fs]; fm[ax] = -fm[ax][::-1]
                m3 = gen.build_mesh(pf, cname, fm)
                flip = lambda arr: np.flip(arr, axis=ax)
                Dm = [flip(a) if a.size else a for a in Da]; um = [flip(a) if a.size else a for a in ua]; um[ax] = -um[ax]
                rm = _run_problem(pf, m3, mkbc(m3, list(range(d)), mirror_ax=ax), flip(inner), Dm, um, flip(be), 2, dts)[-1][interior_slices(d)]
                n += 1
                if np.all(np.isfinite(base)) and rel(rm, flip(base)) > 1e-8:
                    ctx.violation(f"c08:{cname}:mirror", f"{cname}: mirroring axis {ax} (velocity component reversed) does not mirror the solution", dict(L, axis=ax))
            # periodic shift along a uniform axis
            ax = rng.randrange(d)
            N = rng.randint(3, 5)
            fu = [np.asarray(f) for f in fs]; fu[ax] = np.linspace(0.0, 1.0, N + 1)
            m4 = gen.build_mesh(pf, cname, fu)
            inner4 = gen.cell_array(rng, m4)[interior_slices(d)]
            D4 = [np.abs(a) + 0.1 if a.size else a for a in gen.face_arrays(rng, m4)]; u4 = list(gen.face_arrays(rng, m4))
            lo_idx = tuple(0 if i == ax else slice(None) for i in range(d)); hi_idx = tuple(-1 if i == ax else slice(None) for i in range(d))
            D4[ax][hi_idx] = D4[ax][lo_idx]
            uc4 = [a.copy() for a in u4]; uc4[ax][hi_idx] = uc4[ax][lo_idx]     # central scheme: flow through the periodic face allowed
            u4[ax][...] = 0.0       # upwind / TVD: no flow along the periodic axis (see known finding c01:upwind_periodic)
            be4 = np.abs(gen.cell_array(rng, m4))[interior_slices(d)]
            def bc4():
                BC = mkbc(m4, list(range(d)))
                for s in SIDES[ax]:
                    getattr(BC, s).defaultNoFlux(); getattr(BC, s).periodic = True
                for a in range(d):
                    if a != ax:
                        for s in SIDES[a]:
                            f = getattr(BC, s); f.c[:] = float(np.asarray(f.c).ravel()[0])
                return BC
            sh = rng.randint(1, N - 1)
            def roll_cell(a): return np.roll(a, sh, axis=ax)
            def roll_face(a, comp):
                if comp != ax: return np.roll(a, sh, axis=ax)
                core = a[tuple(slice(0, -1) if i == ax else slice(None) for i in range(d))]
                core = np.roll(core, sh, axis=ax)
                return np.concatenate([core, core[tuple(slice(0, 1) if i == ax else slice(None) for i in range(d))]], axis=ax)
            with np.errstate(all="ignore"):
                b0 = _run_problem(pf, m4, bc4(), inner4, D4, u4, be4, 2, dts, tvd=True)[-1][interior_slices(d)]
                Dr = [roll_face(a, i) if a.size else a for i, a in enumerate(D4)]; ur = [roll_face(a, i) if a.size else a for i, a in enumerate(u4)]
                b1 = _run_problem(pf, m4, bc4(), roll_cell(inner4), Dr, ur, roll_cell(be4), 2, dts, tvd=True)[-1][interior_slices(d)]
                def central(inner_, D_, u_, be_):
                    phi = pf.CellVariable(m4, inner_, bc4()); Dv = pf.FaceVariable(m4, *D_); uv = pf.FaceVariable(m4, *u_)
                    for k in range(2):
                        pf.solvePDE(phi, [pf.transientTerm(phi, dts[k], 1.0), -pf.diffusionTerm(Dv), pf.convectionTerm(uv), pf.linearSourceTerm(pf.CellVariable(m4, be_))])
                    return np.array(phi.value)
                c0 = central(inner4, D4, uc4, be4)
                c1 = central(roll_cell(inner4), Dr, [roll_face(a, i) if a.size else a for i, a in enumerate(uc4)], roll_cell(be4))
            n += 1
            if np.all(np.isfinite(c0)) and np.max(np.abs(c0)) < 1e6 and rel(c1, roll_cell(c0)) > 1e-8:
                ctx.violation(f"c08:{cname}:shift-central", f"{cname}: cyclic shift along periodic uniform axis {ax} by {sh} does not shift the solution (diffusion + central advection)",
                              dict(lab(cname, fu), axis=ax, shift=sh))
            n += 1
            if np.all(np.isfinite(b0)) and rel(b1, roll_cell(b0)) > 1e-8:
                ctx.violation(f"c08:{cname}:shift", f"{cname}: cyclically shifting the data along periodic uniform axis {ax} by {sh} does not shift the solution",
                              dict(lab(cname, fu), axis=ax, shift=sh))
    # known finding: upwind / TVD advection along a periodic axis is not shift-invariant (boundary-face treatment, cf. c01:upwind_periodic)
    m1 = pf.Grid1D(np.linspace(0.0, 1.0, 5))
    def per_solve(vals):
        BC = pf.BoundaryConditions(m1); BC.left.periodic = True; BC.right.periodic = True
        phi = pf.CellVariable(m1, np.array(vals), BC)
        pf.solvePDE(phi, [pf.transientTerm(phi, 0.1, 1.0), pf.convectionUpwindTerm(pf.FaceVariable(m1, 1.0))])
        return np.array(phi.value)
    v0 = [1.0, 2.0, 4.0, 8.0]
    a0 = per_solve(v0); a1 = per_solve(np.roll(v0, 1))
    n += 1
    if rel(a1, np.roll(a0, 1)) > 1e-8:
        ctx.violation("c08:upwind_periodic_shift", "upwind advection along a periodic axis is not invariant under cyclic shifts of the data",
                      {"cls": "Grid1D", "faces": [[0, 0.25, 0.5, 0.75, 1.0]], "u": 1.0, "phi_interior": v0, "shift": 1, "dt": 0.1})
    return n


# ------------------------------------------------------------------ C02: manufactured solutions
F1 = {"len": (lambda t: np.cos(0.7 * t) + 0.3 * t + 1.5, lambda t: -0.7 * np.sin(0.7 * t) + 0.3),
      "rad": (lambda t: 1 + t ** 2 / 3 + np.sin(t) / 2 + 1.5, lambda t: 2 * t / 3 + np.cos(t) / 2),
      "ang": (lambda t: np.cos(t) + 0.5 * np.sin(2 * t) + 1.5, lambda t: -np.sin(t) + np.cos(2 * t)),
      "pol": (lambda t: np.cos(t) + 0.2 * t + 1.5, lambda t: -np.sin(t) + 0.2)}


def _mms_setup(cname):
    """exact solution phi = prod_a f_a(x_a), D = 1 + 0.3*sum sin(0.5 x_a + 0.1), u = first-axis component only and divergence-free,
    beta = 0.8; gamma = div(u phi) - div(D grad phi) + beta phi in the coordinate system of the class (Lame coefficients h_a,
    Jacobian J); the outer derivative of each flux J/h_a * (..) is taken numerically (5-point stencil, step 1e-4: error ~1e-12)"""
    d = gen.DIM[cname]
    kind = gen.AXKIND[cname]
    def hs(X):
        one = np.ones_like(X[0])
        if cname in ("PolarGrid2D",): return [one, X[0]]
        if cname == "CylindricalGrid3D": return [one, X[0], one]
        if cname == "SphericalGrid3D": return [one, X[0], X[0] * np.sin(X[1])]
        return [one] * d
    def J(X):
        if cname.startswith("Grid"): return np.ones_like(X[0])
        if cname in ("CylindricalGrid1D", "CylindricalGrid2D", "PolarGrid2D", "CylindricalGrid3D"): return X[0]
        if cname == "SphericalGrid1D": return X[0] ** 2
        return X[0] ** 2 * np.sin(X[1])
    def phi(*X):
        out = 1.0
        for a in range(d): out = out * F1[kind[a]][0](X[a])
        return out
    def dphi(a, X):
        out = 1.0
        for b in range(d): out = out * (F1[kind[b]][1](X[b]) if b == a else F1[kind[b]][0](X[b]))
        return out
    def D(*X):
        return 1 + 0.3 * sum(np.sin(0.5 * t + 0.1) for t in X)
    def u1(*X):
        if kind[0] == "rad":
            return 0.6 / (X[0] if ("Cyl" in cname or "Polar" in cname) else X[0] ** 2)
        return 0.6 * np.ones_like(X[0])
    def grad(a):
        return lambda *X: dphi(a, list(X)) / hs(list(X))[a]
    def flux(a, X):
        """J/h_a * (u_a phi - D * (1/h_a) dphi/dx_a)"""
        X = list(X)
        adv = u1(*X) * phi(*X) if a == 0 else 0.0
        return J(X) / hs(X)[a] * (adv - D(*X) * dphi(a, X) / hs(X)[a])
    def gamma(*X):
        X = [np.asarray(t, dtype=float) for t in X]
        e = 1e-4
        tot = 0.0
        for a in range(d):
            def sh(k):
                Y = list(X); Y[a] = X[a] + k * e; return flux(a, Y)
            tot = tot + (-sh(2) + 8 * sh(1) - 8 * sh(-1) + sh(-2)) / (12 * e)
        return tot / J(X) + 0.8 * phi(*X)
    return {"d": d, "phi": phi, "D": D, "u1": u1, "gamma": gamma, "beta": 0.8, "grad": [grad(a) for a in range(d)]}


_MMS_CACHE = {}


def _mms_solve(pf, cname, N, setup, scheme, bc_kind, graded, si=False):
    """si=True: the same manufactured problem written in SI-like units (lengths ~1e-7, times ~1e-5, so D ~ 1e-9, u ~ 1e-2) with the
    face diffusivity obtained as harmonicMean of a cell field -- the way a user with physical data would set it up"""
    d = setup["d"]
    kind = gen.AXKIND[cname]
    Lc, Tc = (1e-7, 1e-5) if si else (1.0, 1.0)
    sc = [Lc if kind[a] in ("len", "rad") else 1.0 for a in range(d)]
    fs = []
    for a in range(d):
        lo, hi = {"len": (0.0, 1.0), "rad": (1.0, 2.0), "ang": (0.3, 1.3), "pol": (0.6, 1.6)}[kind[a]]
        t = np.linspace(0.0, 1.0, N + 1)
        if graded:
            t = t + 0.3 * t * (1 - t) * (1 + 0.5 * t)     # smooth, ASYMMETRIC grading: first cell ~1.3 h, last cell ~0.55 h
        fs.append((lo + (hi - lo) * t) * sc[a])
    mesh = gen.build_mesh(pf, cname, fs)
    # everything below works in the unit variables xi = x / sc; physical quantities are scaled where they enter the library
    cc = [np.asarray(c) / sc[a] for a, c in enumerate([mesh.cellcenters._x, mesh.cellcenters._y, mesh.cellcenters._z][:d])]
    fc = [np.asarray(c) / sc[a] for a, c in enumerate([mesh.facecenters._x, mesh.facecenters._y, mesh.facecenters._z][:d])]
    G = np.meshgrid(*cc, indexing="ij")
    BC = pf.BoundaryConditions(mesh)
    for a in range(d):
        others = [cc[i] for i in range(d) if i != a]
        for s, side in enumerate(SIDES[a]):
            pos = fc[a][-1] if s == 1 else fc[a][0]
            coords = []
            og = np.meshgrid(*others, indexing="ij") if others else []
            k = 0
            for i in range(d):
                if i == a:
                    coords.append(np.full(og[0].shape if og else (1,), pos))
                else:
                    coords.append(og[k]); k += 1
            f = getattr(BC, side)
            val = setup["phi"](*coords); dn = setup["grad"][a](*coords)
            if bc_kind == "dirichlet":
                f.a[:] = 0.0; f.b[:] = 1.0; f.c[:] = np.reshape(val, f.c.shape)
            else:   # Robin: a*dphi/dn + b*phi = c along the positive coordinate direction
                f.a[:] = 1.0 if s == 1 else -1.0; f.b[:] = 2.0 / Lc
                f.c[:] = np.reshape((1.0 if s == 1 else -1.0) * dn / Lc + 2.0 / Lc * val, f.c.shape)
    # face coefficient fields at face centres
    Df, uf = [], []
    for a in range(d):
        coords = np.meshgrid(*[fc[i] if i == a else cc[i] for i in range(d)], indexing="ij")
        Df.append(setup["D"](*coords) * np.ones(coords[0].shape))
        uf.append((setup["u1"](*coords) * np.ones(coords[0].shape)) if a == 0 else np.zeros(coords[0].shape))
    while len(Df) < 3: Df.append(np.array([])); uf.append(np.array([]))
    Dc, Uc = Lc ** 2 / Tc, Lc / Tc
    if si:
        # cell-centred diffusivity incl. ghost cells (centres mirrored across the boundary faces), then harmonicMean
        ccg = []
        for a in range(d):
            c = cc[a]; f = fc[a]
            ccg.append(np.hstack([2 * f[0] - c[0], c, 2 * f[-1] - c[-1]]))
        Gg = np.meshgrid(*ccg, indexing="ij")
        Dcell = pf.CellVariable(mesh, Dc * setup["D"](*Gg) * np.ones(Gg[0].shape))
        D = pf.harmonicMean(Dcell)
    else:
        D = pf.FaceVariable(mesh, *Df)
    u = pf.FaceVariable(mesh, *[Uc * x for x in uf])
    gam = pf.CellVariable(mesh, setup["gamma"](*G) * np.ones(G[0].shape) / Tc)
    beta = pf.CellVariable(mesh, setup["beta"] / Tc)
    phi = pf.CellVariable(mesh, 0.0, BC)
    conv = pf.convectionTerm(u) if scheme == "central" else pf.convectionUpwindTerm(u)
    pf.solvePDE(phi, [-pf.diffusionTerm(D), conv, pf.linearSourceTerm(beta), pf.constantSourceTerm(gam)])
    exact = setup["phi"](*G)
    return float(np.max(np.abs(np.asarray(phi.value) - exact)) / np.max(np.abs(exact)))


def probe_c02(ctx, pf):
    n = 0
    Ns = {1: (8, 16, 32), 2: (6, 12, 24), 3: (4, 8, 12)}
    for cname in gen.CLASSES:
        if cname not in _MMS_CACHE:
            _MMS_CACHE[cname] = _mms_setup(cname)
        setup = _MMS_CACHE[cname]
        d = setup["d"]
        variants = [("central", "dirichlet", False, False), ("central", "robin", True, False), ("upwind", "dirichlet", True, False),
                    ("central", "robin", True, True)]
        if ctx.tier != "quick":
            variants += [("central", "dirichlet", True, False), ("central", "robin", False, False), ("upwind", "robin", False, False), ("upwind", "dirichlet", True, True)]
        for scheme, bck, graded, si in variants:
            try:
                with np.errstate(all="ignore"):
                    errs = [_mms_solve(pf, cname, N, setup, scheme, bck, graded, si) for N in Ns[d]]
            except Exception as ex:
                ctx.violation(f"c02:{cname}:raise", f"{cname}: manufactured-solution run raised {type(ex).__name__}: {ex}", {"cls": cname, "scheme": scheme, "bc": bck}); continue
            n += 1
            ratio = np.log(errs[0] / errs[-1]) / np.log(Ns[d][-1] / Ns[d][0]) if errs[-1] > 0 else 9.0
            need = 1.4 if scheme == "central" else 0.6
            L = {"cls": cname, "scheme": scheme, "bc": bck, "graded": graded, "si_units_harmonic_D": si, "N": list(Ns[d]), "max_rel_errors": errs, "observed_order": float(ratio)}
            if not np.all(np.isfinite(errs)) or ratio < need or errs[-1] > 0.05:
                ctx.violation(f"c02:{cname}:{scheme}:{bck}:{'graded' if graded else 'uniform'}{':si' if si else ''}",
                              f"{cname}: error against the manufactured exact solution does not decrease at the order of the scheme ({scheme}, {bck}, {'graded' if graded else 'uniform'}{', SI-scale units with D = harmonicMean of a cell field' if si else ''}): errors {['%.3g' % e for e in errs]}, observed order {ratio:.2f}", L)
    return n


# ------------------------------------------------------------------ second layer: representations and argument forms (tools/reprprobes.py)
def _with_extra(name):
    import reprprobes
    base = globals()[name]
    extra = getattr(reprprobes, "extra_" + name[len("probe_"):], None)
    if extra is None:
        return base
    def wrapped(ctx, pf):
        n = base(ctx, pf)
        return n + extra(ctx, pf)
    wrapped.__name__ = name
    return wrapped


for _nm in [k for k in list(globals()) if k.startswith("probe_c") and k[7:9].isdigit() and len(k) == 9]:
    globals()[_nm] = _with_extra(_nm)
