"""C03 check module."""
import traceback
import lib
from common import run_suites
import probes
from suites import bcsuite, solvesuite


def run(ctx):
    import pyfvtool as pf
    ctx.rule = ("bc_ghost / bc_rows / solve / explicit suites: all 9 classes, N 1..3 (quick) or 1..5, graded meshes, every side Dirichlet / Neumann / "
                "face-wise Robin / periodic (either or both flags, non-radial axes), random term lists (kinds, order, sign, scaling); the residual of the "
                "MODEL system is evaluated inside Coq at the real solver's answer; non-trivial = some axis N>=2; impl_probe: the property's observables on the real code")
    ctx.prove("C03")
    from suites import symsuite
    run_suites(ctx, ["symbolic"], runner=symsuite.run_suite, relevant=symsuite.relevant_for(['bcM', 'bcR', 'ghosts', 'solveL', 'solveR', 'explicit', 'profile']))
    run_suites(ctx, ["bc_ghost", "bc_rows"], runner=bcsuite.run_suite)
    run_suites(ctx, ["solve", "explicit"], runner=solvesuite.run_suite)
    try:
        n = probes.probe_c03(ctx, pf)
        ctx.add_cases("impl_probe", n, [f"c03probe{i}" for i in range(min(n, 50))])
    except Exception:
        ctx.broke("correspondence", "impl_probe/harness", traceback.format_exc()[-1200:])


def replay(path):
    print(open(path).read()[:4000])
    return 0
