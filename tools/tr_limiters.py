#!/usr/bin/env python3
"""Fail-closed translator: utilities.fluxLimiter and advection._fsign  ->  coq/Gen/Limiters.v

Every run of a check that depends on the limiters regenerates the Coq file from the
current /repo source, so the theorems in Theory/LimiterThy.v are re-checked against what
the code says now.  Anything outside the accepted AST fragment raises TranslateError.

Accepted fragment (expressions over the names r / eps / b / phi_in / eps1):
   + - * /, unary -, x**2.0 (-> x*x), float/int literals (exact rationals),
   comparisons > >= < <= == with one operator (-> 0/1 factor),
   np.abs np.minimum np.maximum np.sign.
"""
import ast, sys, os
from fractions import Fraction

class TranslateError(Exception):
    pass

def lit(v):
    if isinstance(v, bool) or not isinstance(v, (int, float)):
        raise TranslateError(f"unsupported literal {v!r}")
    fr = Fraction(v)   # exact value of the float
    n, d = fr.numerator, fr.denominator
    if d == 1:
        return f"(kofZ F ({n})%Z)"
    return f"(kofQ F ({n})%Z ({d})%positive)"

CMP = {ast.Gt: lambda a, b: f"(kltb F {b} {a})",
       ast.Lt: lambda a, b: f"(kltb F {a} {b})",
       ast.GtE: lambda a, b: f"(kleb F {b} {a})",
       ast.LtE: lambda a, b: f"(kleb F {a} {b})",
       ast.Eq: lambda a, b: f"(keqb F {a} {b})"}

class ExprTr:
    def __init__(self, names):
        self.names = dict(names)   # python name -> coq term
        self.dens = []             # denominators in evaluation order

    def tr(self, e):
        if isinstance(e, ast.BinOp):
            if isinstance(e.op, ast.Pow):
                if isinstance(e.right, ast.Constant) and e.right.value in (2, 2.0):
                    a = self.tr(e.left)
                    return f"(kmul F {a} {a})"
                raise TranslateError("only **2 supported")
            a = self.tr(e.left); b = self.tr(e.right)
            if isinstance(e.op, ast.Add): return f"(kadd F {a} {b})"
            if isinstance(e.op, ast.Sub): return f"(ksub F {a} {b})"
            if isinstance(e.op, ast.Mult): return f"(kmul F {a} {b})"
            if isinstance(e.op, ast.Div):
                self.dens.append(b)
                return f"(kdiv F {a} {b})"
            raise TranslateError(f"unsupported operator {ast.dump(e.op)}")
        if isinstance(e, ast.UnaryOp):
            if isinstance(e.op, ast.USub):
                if isinstance(e.operand, ast.Constant):
                    return lit(-e.operand.value)
                return f"(kopp F {self.tr(e.operand)})"
            if isinstance(e.op, ast.UAdd):
                return self.tr(e.operand)
            raise TranslateError("unsupported unary operator")
        if isinstance(e, ast.Constant):
            return lit(e.value)
        if isinstance(e, ast.Name):
            if e.id in self.names:
                return self.names[e.id]
            raise TranslateError(f"unknown name {e.id}")
        if isinstance(e, ast.Compare):
            if len(e.ops) != 1 or type(e.ops[0]) not in CMP:
                raise TranslateError("unsupported comparison")
            a = self.tr(e.left); b = self.tr(e.comparators[0])
            return f"(b2k F {CMP[type(e.ops[0])](a, b)})"
        if isinstance(e, ast.Call):
            f = e.func
            if (isinstance(f, ast.Attribute) and isinstance(f.value, ast.Name)
                    and f.value.id == "np" and not e.keywords):
                args = [self.tr(a) for a in e.args]
                if f.attr == "abs" and len(args) == 1: return f"(kabs F {args[0]})"
                if f.attr == "sign" and len(args) == 1: return f"(ksign F {args[0]})"
                if f.attr == "minimum" and len(args) == 2: return f"(kmin F {args[0]} {args[1]})"
                if f.attr == "maximum" and len(args) == 2: return f"(kmax F {args[0]} {args[1]})"
            raise TranslateError(f"unsupported call {ast.dump(f)}")
        raise TranslateError(f"unsupported expression {ast.dump(e)}")


def tr_FL(fd, extra_names):
    """fd: FunctionDef FL(r) -> (coq body, [denominators])"""
    if not (isinstance(fd, ast.FunctionDef) and fd.name == "FL" and [a.arg for a in fd.args.args] == ["r"]
            and not fd.args.defaults and not fd.args.vararg and not fd.args.kwarg):
        raise TranslateError("expected def FL(r)")
    names = {"r": "r"}; names.update(extra_names)
    body = list(fd.body)
    tr = ExprTr(names)
    while len(body) > 1:
        st = body.pop(0)
        if (isinstance(st, ast.Assign) and len(st.targets) == 1 and isinstance(st.targets[0], ast.Name)
                and isinstance(st.value, ast.Constant)):
            tr.names[st.targets[0].id] = lit(st.value.value)
        else:
            raise TranslateError("unsupported statement in FL")
    st = body[0]
    if not isinstance(st, ast.Return) or st.value is None:
        raise TranslateError("FL must end in return <expr>")
    return tr.tr(st.value), tr.dens


def translate(repo):
    util = ast.parse(open(os.path.join(repo, "src/pyfvtool/utilities.py")).read())
    adv = ast.parse(open(os.path.join(repo, "src/pyfvtool/advection.py")).read())
    fl = [n for n in util.body if isinstance(n, ast.FunctionDef) and n.name == "fluxLimiter"]
    if len(fl) != 1:
        raise TranslateError("fluxLimiter not found")
    fl = fl[0]
    argn = [a.arg for a in fl.args.args]
    if argn != ["flName", "eps"] or len(fl.args.defaults) != 1 or not isinstance(fl.args.defaults[0], ast.Constant):
        raise TranslateError("fluxLimiter signature changed")
    eps_default = fl.args.defaults[0].value
    body = [s for s in fl.body if not (isinstance(s, ast.Expr) and isinstance(s.value, ast.Constant))]
    if len(body) != 2 or not isinstance(body[0], ast.If) or not isinstance(body[1], ast.Return) \
            or not (isinstance(body[1].value, ast.Name) and body[1].value.id == "FL"):
        raise TranslateError("fluxLimiter body shape changed")
    branches = []
    node = body[0]
    while True:
        t = node.test
        if not (isinstance(t, ast.Compare) and isinstance(t.left, ast.Name) and t.left.id == "flName"
                and len(t.ops) == 1 and isinstance(t.ops[0], ast.Eq)
                and isinstance(t.comparators[0], ast.Constant) and isinstance(t.comparators[0].value, str)):
            raise TranslateError("unsupported test in name dispatch")
        if len(node.body) != 1:
            raise TranslateError("branch must contain exactly def FL")
        branches.append((t.comparators[0].value, tr_FL(node.body[0], {"eps": "eps"})))
        if len(node.orelse) == 1 and isinstance(node.orelse[0], ast.If):
            node = node.orelse[0]
            continue
        orelse = [s for s in node.orelse
                  if not (isinstance(s, ast.Expr) and isinstance(s.value, ast.Call)
                          and isinstance(s.value.func, ast.Name) and s.value.func.id == "print")]
        if len(orelse) != 1:
            raise TranslateError("fallback branch shape changed")
        fallback = tr_FL(orelse[0], {"eps": "eps"})
        break
    # _fsign
    fs = [n for n in adv.body if isinstance(n, ast.FunctionDef) and n.name == "_fsign"]
    if len(fs) != 1:
        raise TranslateError("_fsign not found")
    fs = fs[0]
    if [a.arg for a in fs.args.args] != ["phi_in", "eps1"] or len(fs.args.defaults) != 1 \
            or not isinstance(fs.args.defaults[0], ast.Constant):
        raise TranslateError("_fsign signature changed")
    eps1_default = fs.args.defaults[0].value
    fbody = [s for s in fs.body if not (isinstance(s, ast.Expr) and isinstance(s.value, ast.Constant))]
    if len(fbody) != 1 or not isinstance(fbody[0], ast.Return):
        raise TranslateError("_fsign body shape changed")
    trf = ExprTr({"phi_in": "x", "eps1": "eps1"})
    fsign_body = trf.tr(fbody[0].value)
    if trf.dens:
        raise TranslateError("_fsign must not divide")

    out = []
    w = out.append
    w("(* GENERATED by tools/tr_limiters.py from src/pyfvtool/utilities.py (fluxLimiter) and")
    w("   src/pyfvtool/advection.py (_fsign).  DO NOT EDIT: regenerated on every check run. *)")
    w("From Coq Require Import ZArith String List.")
    w("From PFV Require Import OField KOps.")
    w("Import ListNotations.")
    w("Open Scope string_scope.")
    w("Section GenLimiters.")
    w("Variable F : FieldOps.")
    names = []
    for name, (body_, dens) in branches + [("fallback", fallback)]:
        cn = "FL_" + name
        names.append(name)
        w(f"Definition {cn} (eps r : F) : F := {body_}.")
        for i, d in enumerate(dens):
            w(f"Definition {cn}_den{i} (eps r : F) : F := {d}.")
        w(f"Definition {cn}_dens (eps r : F) : list F := [{'; '.join(dens)}].")
    w("Definition FL_names : list string := [" + "; ".join('"%s"' % n for n, _ in branches) + "].")
    disp = "FL_fallback eps r"
    for name, _ in reversed(branches):
        disp = f'if String.eqb name "{name}" then FL_{name} eps r else\n    {disp}'
    w(f"Definition FL_dispatch (name : string) (eps r : F) : F :=\n    {disp}.")
    disp = "FL_fallback_dens eps r"
    for name, _ in reversed(branches):
        disp = f'if String.eqb name "{name}" then FL_{name}_dens eps r else\n    {disp}'
    w(f"Definition FL_dens_dispatch (name : string) (eps r : F) : list F :=\n    {disp}.")
    w("Definition FL_table : list (string * (F -> F -> F) * (F -> F -> list F)) := [")
    w(";\n".join(f'  ("{n}", FL_{n}, FL_{n}_dens)' for n, _ in branches))
    w("].")
    w(f"Definition fsign (eps1 x : F) : F := {fsign_body}.")
    w(f"Definition eps_default : F := {lit(eps_default)}.")
    w(f"Definition eps1_default : F := {lit(eps1_default)}.")
    w("End GenLimiters.")
    return "\n".join(out) + "\n", [n for n, _ in branches]


if __name__ == "__main__":
    repo = sys.argv[1] if len(sys.argv) > 1 else "/repo"
    dst = sys.argv[2] if len(sys.argv) > 2 else None
    try:
        txt, names = translate(repo)
    except TranslateError as e:
        print("TRANSLATE-ERROR:", e)
        sys.exit(2)
    if dst:
        old = open(dst).read() if os.path.exists(dst) else None
        if old != txt:
            open(dst, "w").write(txt)
    else:
        sys.stdout.write(txt)
