#!/usr/bin/env python3
"""Warm the suite cache (called by bin/setup): the shared correspondence suites are computed once, in parallel, for the tier and seed
the checks will use (VERIF_TIER / VERIF_SEED), so that no single check has to pay for all of them.  The cache key contains the
hash of /repo's sources and of /verif: if the sources change after setup, the checks recompute what they need."""
import os, sys, subprocess, time
HERE = os.path.dirname(os.path.abspath(__file__))
sys.path.insert(0, HERE)
import lib

SUITES = {"symbolic": "symsuite", "mesh": "meshsuite", "diffusion": "operators", "conv_central": "operators", "conv_upwind": "operators", "tvd": "operators",
          "divergence": "operators", "gradient": "operators", "means": "operators", "bc_ghost": "bcsuite", "bc_rows": "bcsuite", "solve": "solvesuite",
          "explicit": "solvesuite", "state": "statesuite"}


def one(name, tier, seed):
    sys.path.insert(0, os.path.join(lib.REPO, "src"))
    mod = __import__("suites." + SUITES[name], fromlist=["run_suite"])
    if name == "symbolic":
        r = lib.cached_suite(name, "any", 0, lambda: mod.run_suite(name, "any", 0))
    else:
        r = lib.cached_suite(name, tier, seed, lambda: mod.run_suite(name, tier, seed))
    print(f"warm: {name}: {r.get('checks')} checks, {len(r.get('bad', []))} mismatches{' (cached)' if r.get('cached') else ''}", flush=True)


if __name__ == "__main__":
    tier = os.environ.get("VERIF_TIER", "quick"); seed = int(os.environ.get("VERIF_SEED", "20260923"))
    if len(sys.argv) > 1:
        one(sys.argv[1], tier, seed); sys.exit(0)
    t0 = time.time()
    env = dict(os.environ, PYTHONPATH=os.path.join(lib.REPO, "src"), PYTHONHASHSEED="0", PYTHONWARNINGS="ignore")
    procs = [(n, subprocess.Popen([lib.PY, os.path.abspath(__file__), n], env=env, stdout=subprocess.PIPE, stderr=subprocess.STDOUT, text=True)) for n in SUITES]
    for n, p in procs:
        out, _ = p.communicate()
        print(out.strip().split("\n")[-1] if p.returncode == 0 else f"warm: {n}: not warmed ({out.strip()[-200:]})")
    print(f"warm: done in {time.time() - t0:.0f}s")
