(* Second-order CONVERGENCE of the diffusion scheme on uniform Cartesian grids of ANY dimension (Grid1D / Grid2D / Grid3D; stated for
   every class whose metric factors are 1 on the cells considered): consistency (Taylor remainder of the second difference along every
   active axis) x stability (comparison principle).  The exact solution enters through its restrictions to the grid lines:
   g c a : R -> R is the exact solution along the line through the centre of cell c in direction a (parameter 0 at the centre), so no
   multivariate calculus is needed:  e c = g c a 0,  e (cup a c) = g c a (+h_a),  e (cdn a c) = g c a (-h_a).
   Then  max |x_c - e_c| <= sum_a d max|d^4 g / dt^4| h_a^2 / 12 / k0. *)
From Coq Require Import Reals Lra Lia List.
From Coquelicot Require Import Coquelicot.
From PFV Require Import OField KOps Grid Ops ExactnessThy StencilThy ConservThy MaxPrincipleThy MaxPrincipleModel ComparisonThy TaylorThy.
Import ListNotations.
Local Open Scope R_scope.

Lemma rsuml_err2 (P Q B : axis -> R) (l : list axis) :
  (forall a, In a l -> Rabs (P a + Q a) <= B a) -> Rabs (rsuml P l + rsuml Q l) <= rsuml B l.
Proof.
  unfold rsuml. induction l as [|a l IH]; cbn [map fold_right]; intro H.
  - rewrite Rplus_0_r, Rabs_R0. lra.
  - replace (P a + fold_right Rplus 0 (map P l) + (Q a + fold_right Rplus 0 (map Q l)))
      with ((P a + Q a) + (fold_right Rplus 0 (map P l) + fold_right Rplus 0 (map Q l))) by ring.
    eapply Rle_trans; [apply Rabs_triang|]. apply Rplus_le_compat; [apply H; left; reflexivity|].
    apply IH. intros b Hb. apply H. right. exact Hb.
Qed.

Lemma rsuml_divrow_zero (m : Mesh ROps) (u : fvar ROps) (c : cell) (l : list axis) :
  (forall a c, u a c = 0) -> rsuml (fun a => divrow ROps m u a c) l = 0.
Proof.
  intro Hu. unfold rsuml. induction l as [|a l IH]; cbn [map fold_right]; [reflexivity|].
  rewrite IH. unfold divrow. rewrite !Hu. cbn [kadd kmul ksub kdiv ROps k0 k1 K]. unfold Rdiv. ring.
Qed.

Theorem convergence_cartesian_nD (m : Mesh ROps) (D u : fvar ROps) (kap x e : cvar ROps) (g : cell -> axis -> R -> R)
  (cells : list cell) (h M : axis -> R) (d k0' : R) :
  cells <> [] ->
  (forall c a, In c cells -> In a (active_axes ROps m) -> (1 <= cidx a c <= mN ROps m a)%nat /\ signs_ok m D c a) ->
  (forall a c, u a c = 0) ->
  (forall a, In a (active_axes ROps m) -> 0 < h a) -> 0 <= d -> 0 < k0' -> (forall c, In c cells -> k0' <= kap c) ->
  (forall c a, In c cells -> In a (active_axes ROps m) ->
     mdxf ROps m a (cidx a c) = h a /\ mdxf ROps m a (pred (cidx a c)) = h a /\ mfac ROps m a c = 1 /\
     mA ROps m a (cidx a c) = 1 /\ mA ROps m a (pred (cidx a c)) = 1 /\ mW ROps m a (cidx a c) = h a /\
     D a c = d /\ D a (cdn a c) = d) ->
  (forall c a t k, (k <= 4)%nat -> ex_derive_n (g c a) k t) ->
  (forall c a t, Rabs (Derive_n (g c a) 4 t) <= M a) ->
  (forall c a, In c cells -> In a (active_axes ROps m) ->
     e (cdn a c) = g c a (0 - h a) /\ e c = g c a 0 /\ e (cup a c) = g c a (0 + h a)) ->
  (* the discrete equations: kap x - d Laplace_h x = kap e - d sum_a (d^2/dt^2) g_{c,a}(0)  in every cell *)
  (forall c, In c cells ->
     Lrow m D u kap x c = kap c * e c - rsuml (fun a => d * Derive_n (g c a) 2 0) (active_axes ROps m)) ->
  (forall c a, In c cells -> In a (active_axes ROps m) ->
     nb_homog cells (fun c => x c - e c) c (cdn a c) /\ nb_homog cells (fun c => x c - e c) c (cup a c)) ->
  forall c, In c cells ->
    Rabs (x c - e c) <= rsuml (fun a => d * (M a * (h a * h a) / 12)) (active_axes ROps m) / k0'.
Proof.
  intros Hne Hcells Hu Hh Hd Hk Hkap Huni Sm HM Hg Hrow Hnb c Hc.
  set (s := fun c => kap c * e c - rsuml (fun a => d * Derive_n (g c a) 2 0) (active_axes ROps m)).
  set (T := rsuml (fun a => d * (M a * (h a * h a) / 12)) (active_axes ROps m)).
  assert (Hdiv : forall c, In c cells -> rsuml (fun a => divrow ROps m u a c) (active_axes ROps m) = 0).
  { intros c0 _. apply rsuml_divrow_zero. exact Hu. }
  assert (Htau : forall c0, In c0 cells -> Rabs (Lrow m D u kap e c0 - s c0) <= T).
  { intros c0 Hc0. unfold Lrow, s.
    replace (kap c0 * e c0 + rsuml (fun a => axis_term m D u e a c0) (active_axes ROps m)
             - (kap c0 * e c0 - rsuml (fun a => d * Derive_n (g c0 a) 2 0) (active_axes ROps m)))
      with (rsuml (fun a => axis_term m D u e a c0) (active_axes ROps m)
            + rsuml (fun a => d * Derive_n (g c0 a) 2 0) (active_axes ROps m)) by ring.
    unfold T. apply rsuml_err2. intros a Ha.
    destruct (Huni c0 a Hc0 Ha) as (E1 & E0 & Hf & HA1 & HA0 & HW & D1 & D0). destruct (Hg c0 a Hc0 Ha) as (X0 & X1 & X2).
    unfold axis_term. rewrite upwind_axis_zero by exact Hu.
    replace (- apply_axis ROps (diffAW ROps m D) (diffAP ROps m D) (diffAE ROps m D) e a c0 + 0 + d * Derive_n (g c0 a) 2 0)
      with (- (apply_axis ROps (diffAW ROps m D) (diffAP ROps m D) (diffAE ROps m D) e a c0 - d * Derive_n (g c0 a) 2 0)) by ring.
    rewrite Rabs_Ropp. rewrite <- (Rabs_pos_eq d Hd) at 2.
    apply (taylor_cartesian_axis (g c0 a) m a c0 (h a) 0 d (M a) D e (Sm c0 a) (Hh a Ha) (conj E1 E0) (conj D1 D0)); try assumption.
    - auto.
    - intros t _. apply HM. }
  assert (HT : 0 <= T) by (eapply Rle_trans; [apply Rabs_pos|apply (Htau c Hc)]).
  apply (error_bounded_by_truncation m D u cells Hne Hcells Hdiv kap s x e (fun c => Lrow m D u kap e c - s c) T k0'); try assumption.
  intros c0 _. ring.
Qed.

(* the hypotheses are satisfiable in two dimensions: the one-cell Grid2D mesh [0,1]^2, d = kap = 1, the constant field 7 (the scheme
   reproduces constants), restrictions g c a t = 7 t^0 *)
Definition exR2 : Mesh ROps := mkMesh ROps G2 (fun _ => mkAxis ROps 1 (fun p => match p with O => 0 | S O => 1 | _ => 2 end)) PI (fun _ => 1) (fun _ => 1).
Definition exg : cell -> axis -> R -> R := fun _ _ t => 7 * t ^ 0.
Example convergence_nD_hyps_satisfiable :
  let cells := [(1, 1, 0)%nat] in
  let e := fun _ : cell => 7 in
  cells <> [] /\
  (forall c a, In c cells -> In a (active_axes ROps exR2) -> (1 <= cidx a c <= mN ROps exR2 a)%nat /\ signs_ok exR2 exD c a) /\
  (forall a c, exu a c = 0) /\
  (forall a, In a (active_axes ROps exR2) -> 0 < 1) /\
  (forall c a, In c cells -> In a (active_axes ROps exR2) ->
     mdxf ROps exR2 a (cidx a c) = 1 /\ mdxf ROps exR2 a (pred (cidx a c)) = 1 /\ mfac ROps exR2 a c = 1 /\
     mA ROps exR2 a (cidx a c) = 1 /\ mA ROps exR2 a (pred (cidx a c)) = 1 /\ mW ROps exR2 a (cidx a c) = 1 /\
     exD a c = 1 /\ exD a (cdn a c) = 1) /\
  (forall c a t k, (k <= 4)%nat -> ex_derive_n (exg c a) k t) /\
  (forall c a t, Rabs (Derive_n (exg c a) 4 t) <= 0) /\
  (forall c a, In c cells -> In a (active_axes ROps exR2) ->
     e (cdn a c) = exg c a (0 - 1) /\ e c = exg c a 0 /\ e (cup a c) = exg c a (0 + 1)) /\
  (forall c, In c cells ->
     Lrow exR2 exD exu (fun _ => 1) e c = 1 * e c - rsuml (fun a => 1 * Derive_n (exg c a) 2 0) (active_axes ROps exR2)) /\
  (forall c a, In c cells -> In a (active_axes ROps exR2) ->
     nb_homog cells (fun c => e c - e c) c (cdn a c) /\ nb_homog cells (fun c => e c - e c) c (cup a c)).
Proof.
  cbv zeta. split; [discriminate|].
  split. { intros c a [<-|[]] [<-|[<-|[]]]; (split; [cbn; lia|]); constructor; cbn; unfold exD; lra. }
  split; [reflexivity|]. split; [intros; lra|].
  split. { intros c a [<-|[]] [<-|[<-|[]]]; cbn; unfold exD; repeat split; try reflexivity; lra. }
  split. { intros c a t k _. unfold exg. apply ex_derive_n_scal_l. apply ex_derive_n_pow. }
  split. { intros c a t. unfold exg. rewrite Derive_n_scal_l, Derive_n_pow_bigi by lia. rewrite Rmult_0_r, Rabs_R0. lra. }
  split. { intros c a _ _. unfold exg. cbn. repeat split; lra. }
  split.
  { intros c [<-|[]]. unfold exg, active_axes. cbn [mcls exR2 axes_of gdim]. unfold rsuml. cbn [map fold_right].
    rewrite !Derive_n_scal_l, !Derive_n_pow_bigi by lia.
    unfold Lrow, active_axes. cbn [mcls exR2 axes_of gdim]. unfold rsuml, axis_term, apply_axis. cbn. rewrite !exu_max, !exu_min. unfold exD. field_simplify. lra. }
  intros c a _ _. split; right; right; exists 0; split; try lra; ring.
Qed.

(* on the three Cartesian classes the metric hypotheses hold by definition of the model's mesh: area factors and the 1/r factors are 1
   and the row weight is the cell width *)
Lemma cartesian_metric (m : Mesh ROps) (a : axis) (c : cell) (p : nat) :
  mcls ROps m = G1 \/ mcls ROps m = G2 \/ mcls ROps m = G3 ->
  mfac ROps m a c = 1 /\ mA ROps m a p = 1 /\ mW ROps m a p = mDX ROps m a p.
Proof. unfold mfac, mA, mW. intros [E|[E|E]]; rewrite E; destruct a; repeat split; reflexivity. Qed.

Corollary convergence_grid_nD (m : Mesh ROps) (D u : fvar ROps) (kap x e : cvar ROps) (g : cell -> axis -> R -> R)
  (cells : list cell) (h M : axis -> R) (d k0' : R) :
  mcls ROps m = G1 \/ mcls ROps m = G2 \/ mcls ROps m = G3 ->
  cells <> [] ->
  (forall c a, In c cells -> In a (active_axes ROps m) -> (1 <= cidx a c <= mN ROps m a)%nat /\ signs_ok m D c a) ->
  (forall a c, u a c = 0) ->
  (forall a, In a (active_axes ROps m) -> 0 < h a) -> 0 <= d -> 0 < k0' -> (forall c, In c cells -> k0' <= kap c) ->
  (forall c a, In c cells -> In a (active_axes ROps m) ->
     mdxf ROps m a (cidx a c) = h a /\ mdxf ROps m a (pred (cidx a c)) = h a /\ mDX ROps m a (cidx a c) = h a /\
     D a c = d /\ D a (cdn a c) = d) ->
  (forall c a t k, (k <= 4)%nat -> ex_derive_n (g c a) k t) ->
  (forall c a t, Rabs (Derive_n (g c a) 4 t) <= M a) ->
  (forall c a, In c cells -> In a (active_axes ROps m) ->
     e (cdn a c) = g c a (0 - h a) /\ e c = g c a 0 /\ e (cup a c) = g c a (0 + h a)) ->
  (forall c, In c cells ->
     Lrow m D u kap x c = kap c * e c - rsuml (fun a => d * Derive_n (g c a) 2 0) (active_axes ROps m)) ->
  (forall c a, In c cells -> In a (active_axes ROps m) ->
     nb_homog cells (fun c => x c - e c) c (cdn a c) /\ nb_homog cells (fun c => x c - e c) c (cup a c)) ->
  forall c, In c cells ->
    Rabs (x c - e c) <= rsuml (fun a => d * (M a * (h a * h a) / 12)) (active_axes ROps m) / k0'.
Proof.
  intros Hcls Hne Hcells Hu Hh Hd Hk Hkap Huni Sm HM Hg Hrow Hnb.
  apply (convergence_cartesian_nD m D u kap x e g cells h M d k0'); try assumption.
  intros c a Hc Ha. destruct (Huni c a Hc Ha) as (E1 & E0 & EW & D1 & D0).
  destruct (cartesian_metric m a c (cidx a c) Hcls) as (Hf & HA1 & HW).
  destruct (cartesian_metric m a c (pred (cidx a c)) Hcls) as (_ & HA0 & _).
  rewrite HW, EW. repeat split; assumption.
Qed.
