(* C11 — Cell-to-face means are true means of the two adjacent cells in any dimension.
   Locality and dimension-independence hold by construction of the model (one definition for all classes, each face
   value a function of the two adjacent cells along that axis only); the means suite ties it to every code path. *)
From Coq Require Import Reals Arith List.
From PFV Require Import OField KOps Grid Ops StencilThy MeansThy.
Local Close Scope R_scope.

Theorem C11_linear_const : forall (F : FieldOps) (L : FieldLaws F) (m : Mesh F) (k : F) a c,
  kadd F (mDX F m a (S (cidx a c))) (mDX F m a (cidx a c)) <> k0 F -> linmean F m (fun _ => k) a c = k.
Proof. exact linmean_const. Qed.
Print Assumptions C11_linear_const.
Theorem C11_arith_const : forall (F : FieldOps) (L : FieldLaws F) (m : Mesh F) (k : F) a c,
  kadd F (mDX F m a (S (cidx a c))) (mDX F m a (cidx a c)) <> k0 F -> arithmean F m (fun _ => k) a c = k.
Proof. exact arithmean_const. Qed.
Print Assumptions C11_arith_const.
Theorem C11_harm_const : forall (F : FieldOps) (L : FieldLaws F) (m : Mesh F) (k : F) a c,
  k <> k0 F -> kadd F (mDX F m a (S (cidx a c))) (mDX F m a (cidx a c)) <> k0 F -> harmmean F m (fun _ => k) a c = k.
Proof. exact harmmean_const. Qed.
Print Assumptions C11_harm_const.
Theorem C11_linear_exact : forall (F : FieldOps) (L : FieldLaws F) (m : Mesh F) (al be xf : F) (phi : cvar F) a c,
  kadd F (mDX F m a (S (cidx a c))) (mDX F m a (cidx a c)) <> k0 F ->
  phi c = kadd F al (kmul F be (ksub F xf (kdiv F (mDX F m a (cidx a c)) (kadd F (k1 F) (k1 F))))) ->
  phi (cup a c) = kadd F al (kmul F be (kadd F xf (kdiv F (mDX F m a (S (cidx a c))) (kadd F (k1 F) (k1 F))))) ->
  linmean F m phi a c = kadd F al (kmul F be xf).
Proof. exact linmean_linear_exact. Qed.
Print Assumptions C11_linear_exact.
Theorem C11_upwind_donor : forall (F : FieldOps) (L : FieldLaws F) (m : Mesh F) (phi : cvar F) (u : fvar F) a c,
  (kltb F (k0 F) (u a c) = true -> upwindmean F m phi u a c = bval F m phi a c) /\
  (kltb F (u a c) (k0 F) = true -> upwindmean F m phi u a c = bval F m phi a (cup a c)).
Proof. exact upwindmean_donor. Qed.
Print Assumptions C11_upwind_donor.

Local Open Scope R_scope.
(* the model's means at the R instance are the weighted means below *)
Theorem C11_model_is_weighted_mean : forall (m : Mesh ROps) phi a c,
  arithmean ROps m phi a c = Amean (mDX ROps m a (cidx a c)) (mDX ROps m a (S (cidx a c))) (phi c) (phi (cup a c)) /\
  linmean ROps m phi a c = Lmean (mDX ROps m a (cidx a c)) (mDX ROps m a (S (cidx a c))) (phi c) (phi (cup a c)) /\
  (phi c <> 0 -> phi (cup a c) <> 0 ->
   harmmean ROps m phi a c = Hmean (mDX ROps m a (cidx a c)) (mDX ROps m a (S (cidx a c))) (phi c) (phi (cup a c))).
Proof. intros. split; [apply arithmean_R|split; [apply linmean_R|apply harmmean_R]]. Qed.
Print Assumptions C11_model_is_weighted_mean.
Theorem C11_between : forall w1 w2 a b, 0 < w1 -> 0 < w2 -> 0 < a -> 0 < b ->
  (Rmin a b <= Amean w1 w2 a b <= Rmax a b) /\ (Rmin a b <= Lmean w1 w2 a b <= Rmax a b) /\
  (Rmin a b <= Hmean w1 w2 a b <= Rmax a b) /\ (Rmin a b <= Gmean w1 w2 a b <= Rmax a b).
Proof.
  intros. split; [apply Amean_between|split; [apply Lmean_between|split; [apply Hmean_between|apply Gmean_between]]]; assumption.
Qed.
Print Assumptions C11_between.
Theorem C11_HGA : forall w1 w2 a b, 0 < w1 -> 0 < w2 -> 0 < a -> 0 < b ->
  Hmean w1 w2 a b <= Gmean w1 w2 a b /\ Gmean w1 w2 a b <= Amean w1 w2 a b.
Proof. intros. split; [apply H_le_G|apply G_le_A]; assumption. Qed.
Print Assumptions C11_HGA.
