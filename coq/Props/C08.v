(* C08 — Redundant axes, axis relabelling, mirroring and periodic shifts change nothing.
   In the model every N-D operator is the SUM over the active axes of one and the same per-axis stencil (Model/Ops.v), the metric
   weights of an axis do not depend on the presence of other axes, and the stencil is symmetric under index reversal by
   construction; the assurance that the CODE has these symmetries comes from the per-axis correspondence of every builder
   (Mx, My, Mz compared separately) and from the paired-grid probes on the implementation.  Proved here: the block of an axis
   along which the field does not vary reduces to value * div(u) (zero for diffusion, zero altogether for invariant velocity). *)
From Coq Require Import Arith List.
From PFV Require Import OField KOps Grid Ops StencilThy SymmetryThy.

Theorem C08_diffusion_block_vanishes : forall (F : FieldOps) (L : FieldLaws F) (m : Mesh F) (D : fvar F) (x : cvar F) a c,
  constant_along F x a c -> apply_axis F (diffAW F m D) (diffAP F m D) (diffAE F m D) x a c = k0 F.
Proof. exact diffusion_block_vanishes. Qed.
Print Assumptions C08_diffusion_block_vanishes.
Theorem C08_central_block : forall (F : FieldOps) (L : FieldLaws F) (m : Mesh F) (u : fvar F) (x : cvar F) a c,
  constant_along F x a c -> 1 <= cidx a c ->
  mW F m a (cidx a c) <> k0 F -> mDX F m a (cidx a c) <> k0 F ->
  kadd F (mDX F m a (cidx a c)) (mDX F m a (S (cidx a c))) <> k0 F ->
  kadd F (mDX F m a (cidx a c)) (mDX F m a (pred (cidx a c))) <> k0 F ->
  apply_axis F (cenAW F m u) (cenAP F m u) (cenAE F m u) x a c = kmul F (x c) (divrow F m u a c).
Proof. exact central_block_on_invariant_field. Qed.
Print Assumptions C08_central_block.
Theorem C08_upwind_block : forall (F : FieldOps) (L : FieldLaws F) (m : Mesh F) (u uup : fvar F) (x : cvar F) a c,
  constant_along F x a c -> 1 <= cidx a c -> cidx a c <= mN F m a -> mW F m a (cidx a c) <> k0 F ->
  (uup a c = k0 F -> u a c = k0 F) -> (uup a (cdn a c) = k0 F -> u a (cdn a c) = k0 F) ->
  apply_axis F (upwAW F m u uup) (upwAP F m u uup) (upwAE F m u uup) x a c = kmul F (x c) (divrow F m u a c).
Proof. exact upwind_block_on_invariant_field. Qed.
Print Assumptions C08_upwind_block.
Theorem C08_tvd_block_vanishes : forall (F : FieldOps) (L : FieldLaws F) (fsgn FLm : F -> F) (m : Mesh F) (u uup : fvar F) (x : cvar F) a c,
  constant_along F x a c -> 1 <= cidx a c -> tvdrow F fsgn FLm m u uup x a c = k0 F.
Proof. exact tvd_block_vanishes. Qed.
Print Assumptions C08_tvd_block_vanishes.
Theorem C08_invariant_velocity : forall (F : FieldOps) (L : FieldLaws F) (m : Mesh F) (u : fvar F) a c,
  kmul F (mA F m a (cidx a c)) (u a c) = kmul F (mA F m a (pred (cidx a c))) (u a (cdn a c)) -> divrow F m u a c = k0 F.
Proof. exact divrow_of_invariant_velocity. Qed.
Print Assumptions C08_invariant_velocity.

(* ---- axis relabelling of Cartesian grids (Theory/PermThy.v): for each of the six permutations p of (x, y, z) that maps active axes
   to active axes, the stencils of the mesh with permuted axes, permuted coefficient components and permuted cell indices give in
   the permuted cell what the original stencils give in the original cell; interior cells go to interior cells ---- *)
From Coq Require Import ZArith.
From PFV Require Import PermThy CorrLib Exec.
Theorem C08_diffusion_permutes : forall (F : FieldOps) (L : FieldLaws F) (p : perm) (m : Mesh F),
  cartesian F m -> perm_ok F p m -> forall (D : fvar F) (x : cvar F) c,
  apply_stencil F (pmesh F p m) (diffAW F (pmesh F p m) (pfvar F p D)) (diffAP F (pmesh F p m) (pfvar F p D)) (diffAE F (pmesh F p m) (pfvar F p D))
    (pcvar F p x) (pcell p c)
  = apply_stencil F m (diffAW F m D) (diffAP F m D) (diffAE F m D) x c.
Proof. exact diffusion_permutes. Qed.
Theorem C08_central_permutes : forall (F : FieldOps) (L : FieldLaws F) (p : perm) (m : Mesh F),
  cartesian F m -> perm_ok F p m -> forall (u : fvar F) (x : cvar F) c,
  apply_stencil F (pmesh F p m) (cenAW F (pmesh F p m) (pfvar F p u)) (cenAP F (pmesh F p m) (pfvar F p u)) (cenAE F (pmesh F p m) (pfvar F p u))
    (pcvar F p x) (pcell p c)
  = apply_stencil F m (cenAW F m u) (cenAP F m u) (cenAE F m u) x c.
Proof. exact central_permutes. Qed.
Theorem C08_upwind_permutes : forall (F : FieldOps) (L : FieldLaws F) (p : perm) (m : Mesh F),
  cartesian F m -> perm_ok F p m -> forall (u uup : fvar F) (x : cvar F) c,
  apply_stencil F (pmesh F p m) (upwAW F (pmesh F p m) (pfvar F p u) (pfvar F p uup)) (upwAP F (pmesh F p m) (pfvar F p u) (pfvar F p uup))
    (upwAE F (pmesh F p m) (pfvar F p u) (pfvar F p uup)) (pcvar F p x) (pcell p c)
  = apply_stencil F m (upwAW F m u uup) (upwAP F m u uup) (upwAE F m u uup) x c.
Proof. exact upwind_permutes. Qed.
Theorem C08_permuted_interior : forall (F : FieldOps) (p : perm) (m : Mesh F), perm_ok F p m -> forall c,
  interior F (pmesh F p m) (pcell p c) = true <-> interior F m c = true.
Proof. exact perm_interior. Qed.
Print Assumptions C08_diffusion_permutes.
Print Assumptions C08_central_permutes.
Print Assumptions C08_upwind_permutes.
Print Assumptions C08_permuted_interior.
(* non-vacuity: a 2 x 1 x 3 Grid3D and the cyclic permutation; a Grid2D and the swap of x and y *)
Example C08_perm_nonvacuous :
  let m3 := Exec.mk_mesh G3 (CorrLib.qc 0%Z 1%positive :: CorrLib.qc 1%Z 1%positive :: CorrLib.qc 3%Z 1%positive :: nil) (CorrLib.qc 0%Z 1%positive :: CorrLib.qc 1%Z 2%positive :: nil)
                         (CorrLib.qc 0%Z 1%positive :: CorrLib.qc 1%Z 1%positive :: CorrLib.qc 2%Z 1%positive :: CorrLib.qc 4%Z 1%positive :: nil) (CorrLib.qc 355%Z 113%positive) nil nil in
  let m2 := Exec.mk_mesh G2 (CorrLib.qc 0%Z 1%positive :: CorrLib.qc 1%Z 1%positive :: CorrLib.qc 3%Z 1%positive :: nil) (CorrLib.qc 0%Z 1%positive :: CorrLib.qc 1%Z 2%positive :: nil) nil (CorrLib.qc 355%Z 113%positive) nil nil in
  cartesian QcOps m3 /\ perm_ok QcOps P_c1 m3 /\ cartesian QcOps m2 /\ perm_ok QcOps P_xy m2
  /\ mN QcOps (pmesh QcOps P_c1 m3) AX = 1%nat /\ mN QcOps m3 AX = 2%nat.
Proof. cbv zeta. repeat split; try exact I; intros a; destruct a; reflexivity. Qed.

(* ---- mirroring a Cartesian grid along one axis a0 (Theory/MirrorThy.v): face positions x'_f = -x_(N-f), cell index i -> N+1-i,
   cell fields mirrored, the a0-component of a face field mirrored (and negated for a velocity: sign factor -1), the other components
   mirrored as cell-like data.  The mirrored stencils give in the mirrored cell what the original stencils give in the original
   cell (east and west coefficients swap).  Diffusion and central advection over any field; upwind advection needs the order and
   is stated over R. ---- *)
From PFV Require Import MirrorThy.
Theorem C08_diffusion_mirrors : forall (F : FieldOps) (L : FieldLaws F) (m : Mesh F) (a0 : axis),
  cartesian F m -> 1 <= mN F m a0 -> forall (D : fvar F) (x : cvar F) c, 1 <= cidx a0 c <= mN F m a0 ->
  apply_stencil F (mmesh F m a0) (diffAW F (mmesh F m a0) (mfvar F m a0 (k1 F) D)) (diffAP F (mmesh F m a0) (mfvar F m a0 (k1 F) D))
    (diffAE F (mmesh F m a0) (mfvar F m a0 (k1 F) D)) (mcvar F m a0 x) (mcell F m a0 c)
  = apply_stencil F m (diffAW F m D) (diffAP F m D) (diffAE F m D) x c.
Proof. exact diffusion_mirrors. Qed.
Theorem C08_central_mirrors : forall (F : FieldOps) (L : FieldLaws F) (m : Mesh F) (a0 : axis),
  cartesian F m -> 1 <= mN F m a0 -> forall (u : fvar F) (x : cvar F) c, 1 <= cidx a0 c <= mN F m a0 ->
  apply_stencil F (mmesh F m a0) (cenAW F (mmesh F m a0) (mfvar F m a0 (kopp F (k1 F)) u)) (cenAP F (mmesh F m a0) (mfvar F m a0 (kopp F (k1 F)) u))
    (cenAE F (mmesh F m a0) (mfvar F m a0 (kopp F (k1 F)) u)) (mcvar F m a0 x) (mcell F m a0 c)
  = apply_stencil F m (cenAW F m u) (cenAP F m u) (cenAE F m u) x c.
Proof. exact central_mirrors. Qed.
Theorem C08_upwind_mirrors : forall (m : Mesh ROps) (a0 : axis),
  cartesian ROps m -> 1 <= mN ROps m a0 -> forall (u : fvar ROps) (x : cvar ROps) c, 1 <= cidx a0 c <= mN ROps m a0 ->
  apply_stencil ROps (mmesh ROps m a0) (upwAW ROps (mmesh ROps m a0) (mfvar ROps m a0 (kopp ROps (k1 ROps)) u) (mfvar ROps m a0 (kopp ROps (k1 ROps)) u))
    (upwAP ROps (mmesh ROps m a0) (mfvar ROps m a0 (kopp ROps (k1 ROps)) u) (mfvar ROps m a0 (kopp ROps (k1 ROps)) u))
    (upwAE ROps (mmesh ROps m a0) (mfvar ROps m a0 (kopp ROps (k1 ROps)) u) (mfvar ROps m a0 (kopp ROps (k1 ROps)) u))
    (mcvar ROps m a0 x) (mcell ROps m a0 c)
  = apply_stencil ROps m (upwAW ROps m u u) (upwAP ROps m u u) (upwAE ROps m u u) x c.
Proof. exact upwind_mirrors. Qed.
(* the mirrored mesh is the mesh of the mirrored face positions: cell sizes are the mirrored cell sizes, ghost sizes included *)
Theorem C08_mirrored_sizes : forall (F : FieldOps) (L : FieldLaws F) (m : Mesh F) (a0 : axis), 1 <= mN F m a0 ->
  forall p, p <= S (mN F m a0) -> mDX F (mmesh F m a0) a0 p = mDX F m a0 (S (mN F m a0) - p).
Proof. exact mDX_a0. Qed.
Print Assumptions C08_diffusion_mirrors.
Print Assumptions C08_central_mirrors.
Print Assumptions C08_upwind_mirrors.
Print Assumptions C08_mirrored_sizes.
