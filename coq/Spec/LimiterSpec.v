(* Published closed forms of the 16 flux limiters (Sweby 1984; Waterson & Deconinck 2007;
   en.wikipedia.org/wiki/Flux_limiter), written independently of the code, over R.
   Rational limiters whose formula has a removable singularity at some r <= 0 are given
   with their continuous extension (0 for r <= 0), which is what "psi(r)=0 for r<=0" means
   for CHARM / HCUS / HQUICK in the literature. *)
From Coq Require Import Reals Lra String List.
Import ListNotations.
Local Open Scope R_scope.

Definition sp_CHARM (r : R) : R := if Rle_dec r 0 then 0 else r * (3 * r + 1) / ((r + 1) * (r + 1)).
Definition sp_HCUS (r : R) : R := if Rle_dec r 0 then 0 else 3 * r / (r + 2).          (* 1.5 (r+|r|)/(r+2) *)
Definition sp_HQUICK (r : R) : R := if Rle_dec r 0 then 0 else 4 * r / (r + 3).        (* 2 (r+|r|)/(r+3) *)
Definition sp_ospre (r : R) : R := 3 / 2 * (r * r + r) / (r * r + r + 1).
Definition sp_VanLeer (r : R) : R := (r + Rabs r) / (1 + Rabs r).
Definition sp_VanAlbada1 (r : R) : R := (r * r + r) / (r * r + 1).
Definition sp_VanAlbada2 (r : R) : R := 2 * r / (r * r + 1).
Definition sp_MinMod (r : R) : R := Rmax 0 (Rmin 1 r).
Definition sp_SUPERBEE (r : R) : R := Rmax 0 (Rmax (Rmin (2 * r) 1) (Rmin r 2)).
Definition sp_Osher (r : R) : R := Rmax 0 (Rmin r (3 / 2)).
Definition sp_Sweby (r : R) : R := Rmax 0 (Rmax (Rmin (3 / 2 * r) 1) (Rmin r (3 / 2))).
Definition sp_smart (r : R) : R := Rmax 0 (Rmin (2 * r) (Rmin (1 / 4 + 3 / 4 * r) 4)).
Definition sp_Koren (r : R) : R := Rmax 0 (Rmin (2 * r) (Rmin ((1 + 2 * r) / 3) 2)).
Definition sp_MUSCL (r : R) : R := Rmax 0 (Rmin (2 * r) (Rmin ((1 + r) / 2) 2)).      (* monotonized central *)
Definition sp_QUICK (r : R) : R := Rmax 0 (Rmin (2 * r) (Rmin ((3 + r) / 4) 2)).
Definition sp_UMIST (r : R) : R :=
  Rmax 0 (Rmin (2 * r) (Rmin (1 / 4 + 3 / 4 * r) (Rmin (3 / 4 + 1 / 4 * r) 2))).

Open Scope string_scope.
Definition sp_table : list (string * (R -> R)) :=
  [("CHARM", sp_CHARM); ("HCUS", sp_HCUS); ("HQUICK", sp_HQUICK); ("ospre", sp_ospre);
   ("VanLeer", sp_VanLeer); ("VanAlbada1", sp_VanAlbada1); ("VanAlbada2", sp_VanAlbada2);
   ("MinMod", sp_MinMod); ("SUPERBEE", sp_SUPERBEE); ("Osher", sp_Osher); ("Sweby", sp_Sweby);
   ("smart", sp_smart); ("Koren", sp_Koren); ("MUSCL", sp_MUSCL); ("QUICK", sp_QUICK);
   ("UMIST", sp_UMIST)].
(* the ten limiters defined by clipping (property text) *)
Definition clipped : list string :=
  ["MinMod"; "SUPERBEE"; "Osher"; "Sweby"; "Koren"; "MUSCL"; "QUICK"; "UMIST"; "smart"; "VanLeer"].
