(* C16 — Unsupported requests fail loudly with the documented error, valid ones never do.
   All statements are finite enumerations over tables REGENERATED from the source on every run
   (Gen/Labels.v, Gen/Dispatch.v); the check additionally executes every table row on the implementation. *)
From Coq Require Import String List Bool Arith.
From PFV Require Import Grid Labels LabelSpec LabelThy Dispatch DispatchThy.

Theorem C16_labels : forall g l, In l all_labels ->
  face_get l g = expected l g /\ face_set l g = expected l g /\ cellprop_get l g = expected l g.
Proof. exact labels_ok. Qed.
Print Assumptions C16_labels.
Theorem C16_radial_periodic : forall g a, periodic_raises_valueerror g a = radial_axis g a.
Proof. exact radial_periodic_ok. Qed.
Print Assumptions C16_radial_periodic.
Theorem C16_terms : forall k, classify k = if conforming k then Accept else TypeErr.
Proof. exact terms_ok. Qed.
Print Assumptions C16_terms.
Theorem C16_upwind_forwards_args : forall g,
  snd (disp_convectionUpwindTerm g) = true /\ snd (disp_convectionTVDupwindRHSTerm g) = true.
Proof. exact upwind_forwards_args. Qed.
Print Assumptions C16_upwind_forwards_args.
