#!/usr/bin/env python3
"""Symbolic tracing of the per-class operator builders  ->  coq/Gen/Traced_<class>.v  (one file per grid class)

For every grid class a small grid is built BY THE LIBRARY'S OWN CONSTRUCTOR from symbolic face positions, the coefficient
variables hold symbolic values, and the real builders (diffusionTerm, convectionTerm, divergenceTerm, gradientTerm, linearMean,
arithmeticMean, linearSourceTerm, constantSourceTerm, transientTerm, through the public dispatchers) are executed.  Every entry of
the returned matrix / vector / face field is then a symbolic expression in the face positions and coefficient values: exactly
what the code computes for this grid size, however the source is organised.  The generated Coq file states, for each entry,

        traced expression  =  the corresponding coefficient of the generic model (Model/Ops.v, Model/Solver.v)

for ALL values of the symbols (hypotheses: the denominators that occur are non-zero), and proves it by `field`.  This is the
symbolic counterpart of the numeric correspondence suites: same tie, but for every input of the traced size instead of samples.

Symbolic scalars carry a numeric SHADOW value.  It decides the comparisons the code makes on data (validation of angular
ranges, masks): the outcome is recorded as a path condition and listed in the generated file; the traced expression is what the
code computes on that path.  The builders traced here make no data-dependent choices; the mesh constructors compare angles with
2*pi (a warning only).  sin() of a cell-centre / face polar angle becomes the model's parameter sin_p j / sin_f j.
scipy's csr_array is replaced, inside the traced modules only, by a recorder that sums duplicate entries like scipy does.
Fail closed: any operation on a symbol that is not recorded (conversion to float, unknown numpy function, power other than 2 or 3,
a comparison whose operands have no shadow) raises TranslateError."""
import sys, os, math, importlib
from fractions import Fraction

CLASSES = ["Grid1D", "CylindricalGrid1D", "SphericalGrid1D", "Grid2D", "CylindricalGrid2D", "PolarGrid2D",
           "Grid3D", "CylindricalGrid3D", "SphericalGrid3D"]
COQ = {"Grid1D": "G1", "CylindricalGrid1D": "C1", "SphericalGrid1D": "S1", "Grid2D": "G2", "CylindricalGrid2D": "C2",
       "PolarGrid2D": "P2", "Grid3D": "G3", "CylindricalGrid3D": "C3", "SphericalGrid3D": "S3"}
DIM = {"Grid1D": 1, "CylindricalGrid1D": 1, "SphericalGrid1D": 1, "Grid2D": 2, "CylindricalGrid2D": 2, "PolarGrid2D": 2,
       "Grid3D": 3, "CylindricalGrid3D": 3, "SphericalGrid3D": 3}
SIZES = {1: [3], 2: [3, 2], 3: [2, 2, 2]}
# shadow face positions (only used to decide comparisons): increasing, radial > 0, angles inside their ranges
SHADOW = {"len": [0.25, 0.75, 1.5, 2.0], "rad": [0.5, 1.0, 2.0, 2.75], "ang": [0.25, 1.0, 2.5, 3.0], "pol": [0.5, 1.25, 2.0, 2.5]}
AXKIND = {"Grid1D": ["len"], "CylindricalGrid1D": ["rad"], "SphericalGrid1D": ["rad"], "Grid2D": ["len", "len"],
          "CylindricalGrid2D": ["rad", "len"], "PolarGrid2D": ["rad", "ang"], "Grid3D": ["len", "len", "len"],
          "CylindricalGrid3D": ["rad", "ang", "len"], "SphericalGrid3D": ["rad", "pol", "ang"]}
AXN = ["AX", "AY", "AZ"]


class TranslateError(Exception):
    pass


def lit(v):
    if isinstance(v, bool) or not isinstance(v, (int, float)):
        raise TranslateError(f"unsupported literal {v!r}")
    if isinstance(v, float) and not math.isfinite(v):
        raise TranslateError(f"non-finite literal {v!r}")
    fr = Fraction(v)
    # a float constant that is the rounding of a simple rational (1/3, 2/3, 0.1 ...) is read as that rational: rounding of
    # constants is part of the floating-point gap, which the exact-field model does not represent (DESIGN 2.1)
    if isinstance(v, float) and fr.denominator > 4096:
        simple = fr.limit_denominator(1000)
        if float(simple) == v:
            fr = simple
    n, d = fr.numerator, fr.denominator
    return f"(kofZ F ({n})%Z)" if d == 1 else f"(kofQ F ({n})%Z ({d})%positive)"


class Tracer:
    def __init__(self):
        self.dens = {}      # text -> None (ordered set)
        self.struct = {}    # text of a product / quotient -> (op, left text, right text)
        self.conds = []
        self.sins = {}      # text of the angle -> coq symbol
        self.fsargs = {}    # text of an argument of _fsign -> shadow value


class X:
    """symbolic field element with a numeric shadow; designed to live inside numpy object arrays"""
    __slots__ = ("t", "txt", "v")
    __hash__ = None

    def __init__(self, t, txt, v):
        self.t, self.txt, self.v = t, txt, float(v)

    def _o(self, o):
        if isinstance(o, X):
            return o.txt, o.v
        import numpy as np
        if isinstance(o, np.generic):
            o = o.item()
        if isinstance(o, np.ndarray):
            return None
        if isinstance(o, bool):
            o = int(o)          # a comparison mask used as a factor (numpy: True * x = x, False * x = 0); the comparison is a recorded path condition
        return lit(o), float(o)

    def _bin(self, op, o, f, swap=False):
        r = self._o(o)
        if r is None:
            return NotImplemented
        a, b = (r[0], self.txt) if swap else (self.txt, r[0])
        va, vb = (r[1], self.v) if swap else (self.v, r[1])
        txt = f"({op} F {a} {b})"
        if op == "kmul":
            self.t.struct[txt] = (op, a, b)
        return X(self.t, txt, f(va, vb))

    def __add__(self, o): return self._bin("kadd", o, lambda a, b: a + b)
    def __radd__(self, o): return self._bin("kadd", o, lambda a, b: a + b, True)
    def __sub__(self, o): return self._bin("ksub", o, lambda a, b: a - b)
    def __rsub__(self, o): return self._bin("ksub", o, lambda a, b: a - b, True)
    def __mul__(self, o): return self._bin("kmul", o, lambda a, b: a * b)
    def __rmul__(self, o): return self._bin("kmul", o, lambda a, b: a * b, True)

    def __truediv__(self, o):
        r = self._o(o)
        if r is None:
            return NotImplemented
        self.t.dens.setdefault(r[0])
        if r[1] == 0:
            raise TranslateError("division by a quantity whose shadow value is zero")
        return X(self.t, f"(kdiv F {self.txt} {r[0]})", self.v / r[1])

    def __rtruediv__(self, o):
        r = self._o(o)
        if r is None:
            return NotImplemented
        self.t.dens.setdefault(self.txt)
        if self.v == 0:
            raise TranslateError("division by a quantity whose shadow value is zero")
        return X(self.t, f"(kdiv F {r[0]} {self.txt})", r[1] / self.v)

    def __neg__(self): return X(self.t, f"(kopp F {self.txt})", -self.v)
    def __pos__(self): return self

    def __abs__(self):
        # |x| on the recorded path: x or -x by the sign of the shadow
        self.t.conds.append(("sign", self.txt, self.v >= 0))
        return self if self.v >= 0 else -self

    def __pow__(self, o, mod=None):
        if mod is not None or isinstance(o, X):
            raise TranslateError("symbolic exponent")
        if o in (2, 2.0):
            return self * self
        if o in (3, 3.0):
            return self * self * self
        raise TranslateError(f"power {o!r}")

    def _cmp(self, o, f, name):
        r = self._o(o)
        if r is None:
            return NotImplemented
        out = bool(f(self.v, r[1]))
        self.t.conds.append((name, self.txt, r[0], out))
        return out

    def __gt__(self, o): return self._cmp(o, lambda a, b: a > b, ">")
    def __lt__(self, o): return self._cmp(o, lambda a, b: a < b, "<")
    def __ge__(self, o): return self._cmp(o, lambda a, b: a >= b, ">=")
    def __le__(self, o): return self._cmp(o, lambda a, b: a <= b, "<=")
    def __eq__(self, o): return self._cmp(o, lambda a, b: a == b, "==")
    def __ne__(self, o): return self._cmp(o, lambda a, b: a != b, "!=")
    def __bool__(self): raise TranslateError("truth value of a symbolic number")
    def __float__(self): raise TranslateError("float() of a symbolic number")
    def __int__(self): raise TranslateError("int() of a symbolic number")

    # numpy calls these methods on the elements of object arrays
    def sin(self):
        s = self.t.sins.get(self.txt)
        if s is None:
            raise TranslateError("sin of a quantity that is neither a cell-centre nor a face polar angle: " + self.txt[:80])
        return X(self.t, s, math.sin(self.v))

    def cos(self): raise TranslateError("cos of a symbolic number")
    def sqrt(self): raise TranslateError("sqrt of a symbolic number")
    def exp(self): raise TranslateError("exp of a symbolic number")
    def log(self): raise TranslateError("log of a symbolic number")
    def conjugate(self): return self


def objarr(np, lst, shape=None):
    a = np.empty(len(lst), dtype=object)
    for i, x in enumerate(lst):
        a[i] = x
    return a.reshape(shape) if shape is not None else a


class Rec:
    """stand-in for scipy.sparse.csr_array((data, (rows, cols)), shape): duplicate entries are summed"""
    def __init__(self, arg, shape=None, **kw):
        self.shape = shape
        self.ndim = 2
        self.e = {}
        if isinstance(arg, tuple) and len(arg) == 2 and isinstance(arg[1], tuple):
            data, (rows, cols) = arg
            for v, i, j in zip(list(data), list(rows), list(cols)):
                self._add((int(i), int(j)), v)
        elif isinstance(arg, tuple) and len(arg) == 2 and all(isinstance(k, (int,)) or hasattr(k, "__index__") for k in arg):
            self.shape = tuple(int(k) for k in arg)
        else:
            raise TranslateError("unsupported csr_array constructor form")

    def _add(self, k, v):
        self.e[k] = v if k not in self.e else self.e[k] + v

    def copy(self):
        r = Rec((0, 0)); r.shape = self.shape; r.e = dict(self.e); return r

    def _comb(self, o, f):
        if not isinstance(o, Rec):
            return NotImplemented
        r = Rec((self.shape[0], self.shape[1]) if self.shape else (0, 0)); r.shape = self.shape
        for k, v in self.e.items():
            r._add(k, v)
        for k, v in o.e.items():
            r._add(k, f(v))
        return r

    def __add__(self, o): return self._comb(o, lambda v: v)
    def __sub__(self, o): return self._comb(o, lambda v: -v)
    def __neg__(self):
        r = Rec((0, 0)); r.shape = self.shape; r.e = {k: -v for k, v in self.e.items()}; return r
    def __mul__(self, s):
        r = Rec((0, 0)); r.shape = self.shape; r.e = {k: v * s for k, v in self.e.items()}; return r
    __rmul__ = __mul__


# ---------------------------------------------------------------- tracing one class
def trace_class(repo, cname):
    sys.path.insert(0, os.path.join(repo, "src"))
    import numpy as np
    import pyfvtool as pf
    d = DIM[cname]
    Ns = SIZES[d]
    t = Tracer()
    sym = {}          # coq variable name -> shadow
    def S(name, v):
        sym[name] = v
        return X(t, name, v)
    faces = []
    for a in range(d):
        sh = SHADOW[AXKIND[cname][a]]
        faces.append([S(f"f{'xyz'[a]}{i}", sh[i]) for i in range(Ns[a] + 1)])
    # sin of the polar angles (SphericalGrid3D): model parameters sin_p j (centres, j = 1..N) and sin_f j (faces, j = 0..N)
    if cname == "SphericalGrid3D":
        fy = faces[1]
        for j in range(Ns[1] + 1):
            t.sins[fy[j].txt] = f"sf{j}"; sym[f"sf{j}"] = math.sin(fy[j].v)
    mesh = getattr(pf, cname)(*[objarr(np, f) for f in faces])
    if cname == "SphericalGrid3D":
        cy = mesh.cellcenters._y
        for j in range(Ns[1]):
            if not isinstance(cy[j], X):
                raise TranslateError("cell centres of the polar axis are not symbolic")
            t.sins[cy[j].txt] = f"sp{j + 1}"; sym[f"sp{j + 1}"] = math.sin(cy[j].v)
    geom_conds = list(t.conds); t.conds.clear()
    # swap the sparse constructor in the modules that build matrices
    mods = [importlib.import_module("pyfvtool." + m) for m in ("diffusion", "advection", "source", "boundary", "calculus", "averaging", "pdesolver")]
    saved = [(m, getattr(m, "csr_array", None)) for m in mods]
    for m, old in saved:
        if old is not None:
            setattr(m, "csr_array", Rec)
    # buffers the builders allocate with np.zeros / np.ones must be able to hold symbols: inside the traced modules `np` is a proxy
    # whose allocation functions return object arrays (everything else is numpy's)
    class NPProxy:
        def __getattr__(self, n): return getattr(np, n)
        def zeros(self, shape, *a, **k): return np.zeros(shape, dtype=object)
        def ones(self, shape, *a, **k): return np.ones(shape, dtype=object)
        def empty(self, shape, *a, **k): return np.zeros(shape, dtype=object)
        def zeros_like(self, x, *a, **k): return np.zeros(np.shape(x), dtype=object)
        def ones_like(self, x, *a, **k): return np.ones(np.shape(x), dtype=object)
        def full(self, shape, v, *a, **k):
            r = np.empty(shape, dtype=object); r[...] = v; return r
    saved_np = [(m, m.np) for m in mods if hasattr(m, "np")]
    for m, _ in saved_np:
        m.np = NPProxy()
    try:
        dims = [int(k) for k in mesh.dims]
        def fshape(a):
            return tuple(dims[b] + (1 if b == a else 0) for b in range(d))
        def face_field(prefix, lo, hi):
            arrs, names = [], []
            for a in range(d):
                shp = fshape(a)
                n = int(np.prod(shp))
                vals = []
                for k in range(n):
                    idx = np.unravel_index(k, shp)
                    nm = f"{prefix}{'xyz'[a]}_" + "_".join(str(int(q)) for q in idx)
                    vals.append(S(nm, lo + (hi - lo) * ((7 * k + 3 * a + 1) % 11) / 11.0))
                arrs.append(objarr(np, vals, shp)); names.append(shp)
            while len(arrs) < 3:
                arrs.append(np.array([]))
            return pf.FaceVariable(mesh, *arrs), arrs
        def cell_field(prefix, lo, hi):
            shp = tuple(k + 2 for k in dims)
            n = int(np.prod(shp))
            vals = []
            for k in range(n):
                idx = np.unravel_index(k, shp)
                vals.append(S(f"{prefix}_" + "_".join(str(int(q)) for q in idx), lo + (hi - lo) * ((5 * k + 2) % 13) / 13.0))
            return pf.CellVariable(mesh, objarr(np, vals, shp), BCsTerm_precalc=False), shp
        Dv, Darrs = face_field("D", 0.5, 2.0)
        uv, uarrs = face_field("u", -1.0, 1.0)
        phi, pshape = cell_field("p", -1.0, 2.0)
        out = {"class": cname, "N": Ns, "sym": sym, "faces": [[x.txt for x in f] for f in faces], "geom_conds": geom_conds}
        def matrix(r):
            M = r[0] if isinstance(r, tuple) else r
            if not isinstance(M, Rec):
                raise TranslateError(f"builder returned {type(M).__name__}, not a matrix built through csr_array")
            return {k: (v if isinstance(v, X) else X(t, lit(float(v)), float(v))) for k, v in M.e.items()}
        def vec(r):
            return [x if isinstance(x, X) else X(t, lit(float(x)), float(x)) for x in np.asarray(r, dtype=object).ravel()]
        def fvals(f):
            return [[x if isinstance(x, X) else X(t, lit(float(x)), float(x)) for x in np.asarray(c, dtype=object).ravel()] for c in (f._xvalue, f._yvalue, f._zvalue)[:d]]
        out["diffusion"] = matrix(pf.diffusionTerm(Dv))
        out["central"] = matrix(pf.convectionTerm(uv))
        out["divergence"] = vec(pf.divergenceTerm(uv))
        out["gradient"] = fvals(pf.gradientTerm(phi))
        out["linmean"] = fvals(pf.linearMean(phi))
        out["arithmean"] = fvals(pf.arithmeticMean(phi))
        # harmonic mean: the zero tests on the cell values are data-dependent choices -> path conditions (hypotheses of the lemmas)
        t.conds.clear()
        out["harmmean"] = fvals(pf.harmonicMean(phi)); out["harm_conds"] = list(t.conds); t.conds.clear()
        out["linsource"] = matrix(pf.linearSourceTerm(phi))
        out["constsource"] = vec(pf.constantSourceTerm(phi))
        dt = S("dt", 0.5)
        alpha, _ = cell_field("al", 0.5, 2.0)
        Mt, Rt = pf.transientTerm(phi, dt, alpha)
        out["transientM"] = matrix(Mt); out["transientR"] = vec(Rt)
        # boundary conditions: face-wise Robin coefficients on every side (outward-normal sign convention for the shadows)
        SIDES = [("left", "right"), ("bottom", "top"), ("back", "front")]
        BC = pf.BoundaryConditions(mesh)
        bcshapes = {}
        for a in range(d):
            for hi, side in enumerate(SIDES[a]):
                face = getattr(BC, side)
                shp = tuple(np.shape(face.a))
                n = int(np.prod(shp)) if shp else 1
                for which, lo_, hi_ in (("a", 0.5, 1.5), ("b", 0.5, 2.0), ("c", -1.0, 2.0)):
                    vals = []
                    for k in range(n):
                        idx = np.unravel_index(k, shp) if shp else ()
                        sg = (1.0 if hi else -1.0) if which == "a" else 1.0
                        vals.append(S(f"bc{which}_{'xyz'[a]}{'hi' if hi else 'lo'}_" + "_".join(str(int(q)) for q in idx), sg * (lo_ + (hi_ - lo_) * ((3 * k + 1) % 7) / 7.0)))
                    # the public setter copies into the existing float array; the symbolic array is installed as the face's storage
                    from pyfvtool.utilities import TrackedArray
                    setattr(face, "_" + which, TrackedArray(objarr(np, vals, shp if shp else None)))
                bcshapes[(a, hi)] = shp
        Mbc, Rbc = pf.boundaryConditionsTerm(BC)
        out["bcM"] = matrix(Mbc); out["bcR"] = vec(Rbc)
        inner = np.asarray(phi._value, dtype=object)[tuple(slice(1, -1) for _ in range(d))]
        out["ghosts"] = vec(pf.boundary.cellValuesWithBoundaries(inner, BC))
        out["bcshapes"] = {f"{a}_{int(hi)}": list(shp) for (a, hi), shp in bcshapes.items()}
        # the same boundary object with every non-radial axis declared periodic through ONE side flag (the tutorial style)
        per_axes = [a for a in range(d) if AXKIND[cname][a] != "rad"]
        out["per_axes"] = per_axes
        if per_axes:
            for a in per_axes:
                getattr(BC, SIDES[a][0]).periodic = True
            Mp, Rp = pf.boundaryConditionsTerm(BC)
            out["bcpM"] = matrix(Mp); out["bcpR"] = vec(Rp)
            out["ghostsp"] = vec(pf.boundary.cellValuesWithBoundaries(inner, BC))
            for a in per_axes:
                getattr(BC, SIDES[a][0]).periodic = False
        # solvePDE's assembly: the system handed to the (spying) external solver for a list of negated / scaled matrix terms, vector
        # terms and a (matrix, vector) pair; called twice with the SAME list object (terms are reusable in a time loop)
        sc = S("sc", 1.5)
        pds = importlib.import_module("pyfvtool.pdesolver")
        captured = []
        def spy(M_, R_):
            captured.append((M_, R_))
            return np.zeros(int(np.prod(pshape)))
        phis = pf.CellVariable(mesh, np.asarray(phi._value, dtype=object).copy(), BC, BCsTerm_precalc=False)
        termlist = [-pf.diffusionTerm(Dv), pf.convectionTerm(uv) * sc, pf.linearSourceTerm(alpha), pf.constantSourceTerm(phi),
                    pf.transientTerm(phi, dt, alpha), pf.divergenceTerm(uv)]
        nterms = len(termlist)
        t.conds.clear()
        for rep in range(2):
            res_ = pds.solvePDE(phis, termlist, externalsolver=spy)
            if res_ is not phis:
                raise TranslateError("solvePDE did not return the variable it was given")
        if len(termlist) != nterms:
            raise TranslateError("solvePDE changed the length of the term list it was given")
        # solveExplicitPDE: old + dt * RHS on the interior, boundary values recomputed from the boundary conditions; input untouched
        rhsv, _ = cell_field("rh", -1.0, 1.0)
        phie = pf.CellVariable(mesh, np.asarray(phi._value, dtype=object).copy(), BC, BCsTerm_precalc=False)
        before = [x_.txt for x_ in vec(phie._value[tuple(slice(1, -1) for _ in range(d))])]
        newv = pds.solveExplicitPDE(phie, dt, np.asarray(rhsv._value, dtype=object).ravel())
        if newv is phie or [x_.txt for x_ in vec(phie._value[tuple(slice(1, -1) for _ in range(d))])] != before:
            raise TranslateError("solveExplicitPDE returned / modified its input variable")
        out["explicit"] = vec(newv._value)
        # plotprofile of a variable whose stored boundary values are the ones its boundary conditions give: coordinates = first face, cell
        # centres, last face; values = interior values, and the face average at every face ghost position
        phip = pf.CellVariable(mesh, np.asarray(phi._value, dtype=object).copy(), BC, BCsTerm_precalc=False)
        phip.apply_BCs()
        prof = phip.plotprofile()
        out["profile"] = vec(prof[-1])
        if tuple(np.shape(prof[-1])) != tuple(pshape):
            raise TranslateError("plotprofile values do not have the shape of the padded array")
        coords = []
        fcs = [mesh.facecenters._x, mesh.facecenters._y, mesh.facecenters._z]; ccs = [mesh.cellcenters._x, mesh.cellcenters._y, mesh.cellcenters._z]
        for a in range(d):
            got = [x_.txt for x_ in vec(prof[a])]
            want = [x_.txt for x_ in vec(np.asarray([fcs[a][0]] + list(ccs[a]) + [fcs[a][-1]], dtype=object))]
            if got != want:
                raise TranslateError(f"plotprofile coordinates of axis {a} are not (first face, cell centres, last face)")
        out["solveM"] = [matrix(c_[0]) for c_ in captured]
        out["solveR"] = [vec(c_[1]) for c_ in captured]
        t.conds.clear()
        # upwind advection: the builder chooses the donor cell by the SIGN of the velocity; each sign pattern is one path.  Two
        # patterns are traced (alternating signs, and the opposite), plus one with a separate direction field u_upwind.
        out["upwind"] = []
        for pat in range(3):
            def field_with_signs(prefix, flip):
                arrs = []
                for a in range(d):
                    shp = fshape(a)
                    vals = []
                    for k in range(int(np.prod(shp))):
                        idx = np.unravel_index(k, shp)
                        sgn = 1.0 if (sum(int(q) for q in idx) + a + flip) % 2 == 0 else -1.0
                        vals.append(S(f"{prefix}{pat}{'xyz'[a]}_" + "_".join(str(int(q)) for q in idx), sgn * (0.25 + ((5 * k + a) % 7) / 7.0)))
                    arrs.append(objarr(np, vals, shp))
                while len(arrs) < 3:
                    arrs.append(np.array([]))
                return pf.FaceVariable(mesh, *arrs)
            vv = field_with_signs("v", pat % 2)
            t.conds.clear()
            upm = fvals(pf.upwindMean(phi, vv)); upm_conds = list(t.conds)
            t.conds.clear()
            if pat < 2:
                M = matrix(pf.convectionUpwindTerm(vv)); ww = None
            else:
                ww = field_with_signs("w", 1)
                M = matrix(pf.convectionUpwindTerm(vv, ww))
            # TVD correction on the same sign pattern: _fsign and the limiter are UNINTERPRETED functions (fsgn, FLf); what is traced
            # is how the code forms the gradient ratios, the limited corrections and their flux-form divergence
            adv = importlib.import_module("pyfvtool.advection")
            real_fsign = adv._fsign
            def wrapX(x):
                return x if isinstance(x, X) else X(t, lit(float(x)), float(x))
            def sym_fsign(arr, *a_, **k_):
                if a_ or k_:
                    raise TranslateError("_fsign called with an explicit threshold")
                arr = np.asarray(arr, dtype=object)
                res = np.empty(arr.shape, dtype=object)
                for ix in np.ndindex(arr.shape):
                    x = wrapX(arr[ix])
                    t.fsargs.setdefault(x.txt, x.v)
                    res[ix] = X(t, f"(fsgn {x.txt})", float(real_fsign(np.float64(x.v))))
                return res
            def sym_FL(r):
                r = np.asarray(r, dtype=object)
                res = np.empty(r.shape, dtype=object)
                for ix in np.ndindex(r.shape):
                    x = wrapX(r[ix])
                    res[ix] = X(t, f"(FLf {x.txt})", 0.3 + 1.0 / (1.0 + x.v * x.v))
                return res
            t.fsargs = {}
            adv._fsign = sym_fsign
            try:
                Rt = vec(pf.convectionTVDupwindRHSTerm(vv, phi, sym_FL) if ww is None else pf.convectionTVDupwindRHSTerm(vv, phi, sym_FL, ww))
            finally:
                adv._fsign = real_fsign
            # which model gradient each argument of _fsign is: the one whose two cells it names (and whose shadow value it has)
            pv = np.asarray(phi._value, dtype=object)
            csz = [mesh.cellsize._x, mesh.cellsize._y, mesh.cellsize._z]
            cands = []
            for a in range(d):
                for ix in np.ndindex(pshape):
                    if ix[a] + 1 >= pshape[a]:
                        continue
                    jx = list(ix); jx[a] += 1; jx = tuple(jx)
                    w0, w1 = csz[a][ix[a]], csz[a][ix[a] + 1]
                    dxf = 0.5 * ((w0.v if isinstance(w0, X) else float(w0)) + (w1.v if isinstance(w1, X) else float(w1)))
                    cands.append((a, ix, pv[ix].txt, pv[jx].txt, (pv[jx].v - pv[ix].v) / dxf))
            import re as _re
            fsmap = []
            for txt, sh in t.fsargs.items():
                named = [c for c in cands if _re.search(r"\b%s\b" % _re.escape(c[2]), txt) and _re.search(r"\b%s\b" % _re.escape(c[3]), txt)]
                if len(named) != 1:
                    close = [c for c in (named or cands) if abs(c[4] - sh) <= 1e-9 * max(1.0, abs(sh))]
                    named = close[:1] if close else named[:1]
                if not named:
                    raise TranslateError("an argument of _fsign is not a difference of two adjacent cell values: " + txt[:120])
                fsmap.append((txt, named[0][0], [int(q) for q in named[0][1]]))
            out["upwind"].append({"M": M, "conds": list(t.conds), "has_w": ww is not None, "tvd": Rt, "fsmap": fsmap, "upwmean": upm, "upm_conds": upm_conds})
        t.conds.clear()
        out["conds"] = list(t.conds)
        out["dens"] = list(t.dens)
        out["struct"] = dict(t.struct)
        out["pshape"] = pshape
        out["fshapes"] = [fshape(a) for a in range(d)]
    finally:
        for m, old in saved:
            if old is not None:
                setattr(m, "csr_array", old)
        for m, old in saved_np:
            m.np = old
    return out


# ---------------------------------------------------------------- emission
def cell_of(idx, d):
    """numpy index of the padded cell array -> model cell (i, j, k)"""
    idx = list(idx) + [0] * (3 - d)
    return f"({idx[0]}, {idx[1]}, {idx[2]})%nat"


def emit(tr):
    import numpy as np
    cname = tr["class"]; cq = COQ[cname]; d = DIM[cname]; Ns = tr["N"]
    pshape = tr["pshape"]
    ncell = int(np.prod(pshape))
    o = []
    w = o.append
    w(f"(* GENERATED by tools/tr_builders.py: symbolic trace of the {cname} builders on a grid with N = {Ns}. DO NOT EDIT.")
    w("   Each lemma: (expression the code computes) = (coefficient of the generic model), for all values of the symbols. *)")
    w("From Coq Require Import Arith List Field ZArith Bool.")
    w("From PFV Require Import OField KOps Grid Ops Boundary Solver SymLib.")
    w("Import ListNotations.")
    w(f"Section Traced_{cq}.")
    # the field is given by its components (variables), so that every projection of F computes to a variable and `field` never
    # has to print a projection applied to an abstract record; any FieldOps with FieldLaws is of this form (destruct it)
    w("Variable T : Type.\nVariables z o : T.\nVariables ad mu su dv : T -> T -> T.\nVariables op iv : T -> T.\nVariables le lt eq_ : T -> T -> bool.")
    w("Hypothesis Fth : field_theory z o ad mu su op dv iv (@eq T).\nAdd Field FFtr : Fth.")
    w("Let F : FieldOps := mkFieldOps T z o ad mu su dv op iv le lt eq_.")
    w("Hypothesis H2 : ad o o <> z.\nHypothesis H3 : ad o (ad o o) <> z.")
    names = list(tr["sym"])
    w("Variables " + " ".join(names) + " : T.")
    w("Variables fsgn FLf : T -> T.      (* advection._fsign and the flux limiter, uninterpreted *)")
    # mesh
    def flist(a):
        return "[" + "; ".join(tr["faces"][a]) + "]" if a < d else "[]"
    sinp = "[" + "; ".join(f"sp{j + 1}" for j in range(Ns[1])) + "]" if cname == "SphericalGrid3D" else "[]"
    sinf = "[" + "; ".join(f"sf{j}" for j in range(Ns[1] + 1)) + "]" if cname == "SphericalGrid3D" else "[]"
    w(f"Definition tm : Mesh F := sym_mesh F {cq} {flist(0)} {flist(1)} {flist(2)} {lit(math.pi)} {sinp} {sinf}.")
    # fields
    def fvar_def(name, prefix):
        rows = []
        for a in range(d):
            shp = tr["fshapes"][a]
            for k in range(int(np.prod(shp))):
                idx = [int(q) for q in np.unravel_index(k, shp)]
                cell = [idx[b] + (0 if b == a else 1) for b in range(d)] + [0] * (3 - d)
                rows.append(f"  | {AXN[a]}, ({cell[0]}, {cell[1]}, {cell[2]})%nat => {prefix}{'xyz'[a]}_" + "_".join(map(str, idx)))
        w(f"Definition {name} : fvar F := fun a c => match a, c with\n" + "\n".join(rows) + f"\n  | _, _ => k0 F end.")
    def cvar_def(name, prefix):
        rows = []
        for k in range(ncell):
            idx = [int(q) for q in np.unravel_index(k, pshape)]
            rows.append(f"  | {cell_of(idx, d)} => {prefix}_" + "_".join(map(str, idx)))
        w(f"Definition {name} : cvar F := fun c => match c with\n" + "\n".join(rows) + f"\n  | _ => k0 F end.")
    fvar_def("tD", "D"); fvar_def("tu", "u"); cvar_def("tp", "p"); cvar_def("tal", "al")
    # boundary conditions
    def bc_fun(which):
        rows = []
        for a in range(d):
            for hi in (0, 1):
                shp = tr["bcshapes"][f"{a}_{hi}"]
                n = int(np.prod(shp)) if shp else 1
                for k in range(n):
                    idx = [int(q) for q in np.unravel_index(k, shp)] if shp else []
                    # ghost cell: index 0 / N+1 along a, transverse interior indices idx+1 in axis order
                    cell = []
                    it = iter(idx)
                    for b in range(d):
                        cell.append((Ns[a] + 1 if hi else 0) if b == a else next(it, 0) + 1)
                    cell += [0] * (3 - d)
                    rows.append(f"  | {AXN[a]}, {'true' if hi else 'false'}, ({cell[0]}, {cell[1]}, {cell[2]})%nat => bc{which}_{'xyz'[a]}{'hi' if hi else 'lo'}_" + "_".join(map(str, idx)))
        return "fun a hi c => match a, hi, c with\n" + "\n".join(rows) + "\n  | _, _, _ => k0 F end"
    w(f"Definition tbc : BCs F := mkBCs F ({bc_fun('a')}) ({bc_fun('b')}) ({bc_fun('c')}) (fun _ => false).")
    # hypotheses: the denominators of the trace + the basic geometric quantities the model divides by
    hyps = []
    def factors(txt):
        st = tr["struct"].get(txt)
        if st is None:
            return [txt]
        return factors(st[1]) + factors(st[2])
    for dtxt in tr["dens"]:
        if "(fsgn " in dtxt or "(FLf " in dtxt:
            continue          # handled with the TVD lemmas (the guard's value is non-zero: C13_fsign_nonzero)
        hyps.append(dtxt)
        hyps += factors(dtxt)
    for a in range(d):
        f = tr["faces"][a]
        for i in range(len(f) - 1):
            hyps.append(f"(ksub F {f[i + 1]} {f[i]})")
            hyps.append(f"(kadd F {f[i + 1]} {f[i]})")
        for i in range(len(f) - 2):
            hyps.append(f"(ksub F {f[i + 2]} {f[i]})")
    if cname == "SphericalGrid3D":
        hyps += [f"sp{j + 1}" for j in range(Ns[1])]
    if cname in ("SphericalGrid1D", "SphericalGrid3D"):
        f = tr["faces"][0]
        for i in range(len(f) - 1):
            a_, b_ = f[i + 1], f[i]
            hyps.append(f"(kadd F (kadd F (kmul F {a_} {a_}) (kmul F {a_} {b_})) (kmul F {b_} {b_}))")
    hyps.append("dt")
    seen, H = set(), []
    for h in hyps:
        if h not in seen and not h.startswith("(kofZ") and not h.startswith("(kofQ"):
            seen.add(h); H.append(h)
    for i, h in enumerate(H):
        w(f"Hypothesis Hnz{i} : ltac:(let t := eval cbv in ({h}) in exact (t <> z)).")
    w("Ltac nz1 := match goal with |- ?e <> _ => match goal with H : ?d <> _ |- _ => let Hc := fresh \"Hc\" in (intro Hc; apply H; transitivity e; [ring|exact Hc]) end end.")
    w("Ltac nz0 := first [assumption | nz1].")
    # a hypothesis d <> 0 whose d contains divisions: the condition field asks for is the numerator of d after clearing denominators
    w("Ltac nz2 := match goal with |- ?e <> _ => match goal with H : ?d <> _ |- _ => let Hc := fresh \"Hc\" in (intro Hc; apply H; field_simplify_eq; [first [exact Hc | (etransitivity; [|exact Hc]); ring | (rewrite <- Hc; ring)] | repeat split; nz0]) end end.")
    w("Ltac nz := first [nz0 | nz2].")
    w("Ltac tr_solve := cbv; try reflexivity; field; repeat split; nz.")
    nlem = [0]
    def lemma(name, lhs, rhs):
        nlem[0] += 1
        w(f"Lemma {name} : {lhs} = {rhs}.\nProof. tr_solve. Qed.")
    def rows_of(entries):
        byrow = {}
        for (r, c), v in entries.items():
            byrow.setdefault(r, {})[c] = v
        return byrow
    def matrix_lemmas(tag, entries, model_row):
        byrow = rows_of(entries)
        for r in range(ncell):
            idx = [int(q) for q in np.unravel_index(r, pshape)]
            interior = all(1 <= idx[b] <= Ns[b] for b in range(d))
            cols = set(byrow.get(r, {}))
            if interior:      # the columns the model's row can have: the cell and its neighbours along every axis
                for b in range(d):
                    for dl in (-1, 1):
                        j = list(idx); j[b] += dl
                        cols.add(int(np.ravel_multi_index(j, pshape)))
                cols.add(r)
            for c in sorted(cols):
                v = byrow.get(r, {}).get(c)
                lemma(f"{tag}_{r}_{c}", v.txt if v is not None else "k0 F", f"coef_at F ({model_row} {r}) {c}")
    xs = []
    if tr.get("solveM"):
        xs = []
        for k in range(ncell):
            idx = [int(q) for q in np.unravel_index(k, pshape)]
            xs.append("xs_" + "_".join(map(str, idx)))
        w("Variables " + " ".join(xs) + " : T.")
        rows = [f"  | {cell_of([int(q) for q in np.unravel_index(k, pshape)], d)} => {xs[k]}" for k in range(ncell)]
        w("Definition tx : cvar F := fun c => match c with\n" + "\n".join(rows) + "\n  | _ => k0 F end.")
        w("Definition tts : list (term F) := [TDiff F (kopp F (k1 F)) tD; TCen F sc tu; TLin F (k1 F) tal; TConst F (k1 F) tp; TTrans F tal dt tp; "
          "TVec F (k1 F) (interior_or_zero F tm (divergence F tm tu))].")
    if tr.get("explicit"):
        cvar_def("trh", "rh")
    w("(*CHUNK*)")
    matrix_lemmas("diffusion", tr["diffusion"], "stencil_row F tm (diffAW F tm tD) (diffAP F tm tD) (diffAE F tm tD)")
    w("(*CHUNK*)")
    matrix_lemmas("central", tr["central"], "stencil_row F tm (cenAW F tm tu) (cenAP F tm tu) (cenAE F tm tu)")
    w("(*CHUNK*)")
    matrix_lemmas("linsource", tr["linsource"], "diag_row F tm (fun c => tp c)")
    matrix_lemmas("transientM", tr["transientM"], "diag_row F tm (fun c => kdiv F (tal c) dt)")
    def cell_vec(tag, vals, model):
        for r in range(ncell):
            idx = [int(q) for q in np.unravel_index(r, pshape)]
            lemma(f"{tag}_{r}", vals[r].txt, f"interior_or_zero F tm ({model}) {cell_of(idx, d)}")
    cell_vec("divergence", tr["divergence"], "divergence F tm tu")
    cell_vec("constsource", tr["constsource"], "fun c => tp c")
    cell_vec("transientR", tr["transientR"], "fun c => kdiv F (kmul F (tal c) (tp c)) dt")
    def face_vals(tag, comps, model):
        for a in range(d):
            shp = tr["fshapes"][a]
            for k in range(int(np.prod(shp))):
                idx = [int(q) for q in np.unravel_index(k, shp)]
                cell = [idx[b] + (0 if b == a else 1) for b in range(d)] + [0] * (3 - d)
                lemma(f"{tag}_{'xyz'[a]}_" + "_".join(map(str, idx)), comps[a][k].txt, f"{model} {AXN[a]} ({cell[0]}, {cell[1]}, {cell[2]})%nat")
    w("(*CHUNK*)")
    byrow = rows_of(tr["bcM"])
    for r in range(ncell):
        idx = [int(q) for q in np.unravel_index(r, pshape)]
        nghost = sum(1 for b in range(d) if idx[b] == 0 or idx[b] == Ns[b] + 1)
        if nghost >= 2 and d == 2:
            continue          # 2-D corner rows: a maximum over data (model: corner_diag); compared numerically by the bc_rows suite
        cols = set(byrow.get(r, {}))
        if nghost == 1:
            b = [q for q in range(d) if idx[q] == 0 or idx[q] == Ns[q] + 1][0]
            j = list(idx); j[b] += (1 if idx[b] == 0 else -1)
            cols.add(int(np.ravel_multi_index(j, pshape))); cols.add(r)
        elif nghost >= 2:
            cols.add(r)
        for c in sorted(cols):
            v = byrow.get(r, {}).get(c)
            lemma(f"bcM_{r}_{c}", v.txt if v is not None else "k0 F", f"coef_at F (bc_row F tm tbc {cell_of(idx, d)}) {c}")
        lemma(f"bcR_{r}", tr["bcR"][r].txt, f"bc_rhs F tm tbc {cell_of(idx, d)}")
        if not (nghost >= 2):
            lemma(f"ghosts_{r}", tr["ghosts"][r].txt, f"with_boundaries F tm tbc tp {cell_of(idx, d)}")
    if tr.get("per_axes"):
        w("(*CHUNK*)")
        perf = "fun a => match a with " + " | ".join(f"{AXN[a]} => true" for a in tr["per_axes"]) + " | _ => false end" if len(tr["per_axes"]) < 3 else "fun _ => true"
        w(f"Definition tbcp : BCs F := mkBCs F (bca F tbc) (bcb F tbc) (bcc F tbc) ({perf}).")
        byrowp = rows_of(tr["bcpM"])
        for r in range(ncell):
            idx = [int(q) for q in np.unravel_index(r, pshape)]
            ghosts_ax = [b for b in range(d) if idx[b] == 0 or idx[b] == Ns[b] + 1]
            if len(ghosts_ax) >= 2 and d == 2:
                continue
            cols = set(byrowp.get(r, {}))
            if len(ghosts_ax) == 1:
                b = ghosts_ax[0]
                for n_ in (0, 1, Ns[b], Ns[b] + 1):
                    j = list(idx); j[b] = n_
                    cols.add(int(np.ravel_multi_index(j, pshape)))
            elif len(ghosts_ax) >= 2:
                cols.add(r)
            for c in sorted(cols):
                v = byrowp.get(r, {}).get(c)
                lemma(f"bcpM_{r}_{c}", v.txt if v is not None else "k0 F", f"coef_at F (bc_row F tm tbcp {cell_of(idx, d)}) {c}")
            lemma(f"bcpR_{r}", tr["bcpR"][r].txt, f"bc_rhs F tm tbcp {cell_of(idx, d)}")
            if len(ghosts_ax) < 2:
                lemma(f"ghostsp_{r}", tr["ghostsp"][r].txt, f"with_boundaries F tm tbcp tp {cell_of(idx, d)}")
    w("(*CHUNK*)")
    face_vals("gradient", tr["gradient"], "gradient F tm tp")
    face_vals("linmean", tr["linmean"], "linmean F tm tp")
    face_vals("arithmean", tr["arithmean"], "arithmean F tm tp")
    if tr.get("solveM"):
        # the second call with the same list object: if every captured entry is textually the expression of the first call, the lemmas
        # of the first call cover it; otherwise it gets its own lemmas (and they fail if the second system is a different one)
        def same_capture(k):
            A, B = tr["solveM"][0], tr["solveM"][k]
            return (set(A) == set(B) and all(A[e].txt == B[e].txt for e in A)
                    and [x_.txt for x_ in tr["solveR"][0]] == [x_.txt for x_ in tr["solveR"][k]])
        reps = [0] + [k for k in range(1, len(tr["solveM"])) if not same_capture(k)]
        w(f"(* solvePDE was called {len(tr['solveM'])} times with one term list; calls whose captured system differs textually from the first: {reps[1:]} *)")
        for rep, (Ms, Rs) in enumerate(zip(tr["solveM"], tr["solveR"])):
            if rep not in reps:
                continue
            byrow = rows_of(Ms)
            for r in range(ncell):
                if r % 8 == 0:
                    w("(*CHUNK*)")
                idx = [int(q) for q in np.unravel_index(r, pshape)]
                nghost = sum(1 for b in range(d) if idx[b] == 0 or idx[b] == Ns[b] + 1)
                if nghost >= 2 and d == 2:
                    continue
                ents = byrow.get(r, {})
                lhs = "(k0 F)"
                for c in sorted(ents):
                    lhs = f"(kadd F {lhs} (kmul F {ents[c].txt} {xs[c]}))"
                if nghost == 0:
                    lemma(f"solveL{rep}_{r}", lhs, f"sys_lhs F tm tts tx {cell_of(idx, d)}")
                    lemma(f"solveR{rep}_{r}", Rs[r].txt, f"sys_rhs F tm tts {cell_of(idx, d)}")
                else:
                    lemma(f"solveL{rep}_{r}", lhs, f"bc_lhs F tm tbc tx {cell_of(idx, d)}")
                    lemma(f"solveR{rep}_{r}", Rs[r].txt, f"bc_rhs F tm tbc {cell_of(idx, d)}")
    if tr.get("profile"):
        w("(*CHUNK*)")
        for r in range(ncell):
            idx = [int(q) for q in np.unravel_index(r, pshape)]
            if sum(1 for b in range(d) if idx[b] == 0 or idx[b] == Ns[b] + 1) >= 2:
                continue
            lemma(f"profile_{r}", tr["profile"][r].txt, f"plot_profile F tm (with_boundaries F tm tbc tp) {cell_of(idx, d)}")
    if tr.get("explicit"):
        w("(*CHUNK*)")
        for r in range(ncell):
            idx = [int(q) for q in np.unravel_index(r, pshape)]
            if sum(1 for b in range(d) if idx[b] == 0 or idx[b] == Ns[b] + 1) >= 2:
                continue
            lemma(f"explicit_{r}", tr["explicit"][r].txt, f"explicit_step F tm tbc tp dt trh {cell_of(idx, d)}")
    CMP0 = {">": lambda a, b: f"kltb F {b} {a}", "<": lambda a, b: f"kltb F {a} {b}", ">=": lambda a, b: f"kleb F {b} {a}", "<=": lambda a, b: f"kleb F {a} {b}", "==": lambda a, b: f"keqb F {a} {b}"}
    if tr.get("harmmean") is not None:
        w("(*CHUNK*)")
        w("Section Harmonic.")
        seenh = set(); k = 0
        for cnd in tr["harm_conds"]:
            if cnd[0] != "==" or (cnd[1], cnd[2]) in seenh:
                continue
            seenh.add((cnd[1], cnd[2]))
            w(f"Hypothesis Hh_{k} : ltac:(let t := eval cbv in ({CMP0['=='](cnd[1], cnd[2])}) in exact (t = {'true' if cnd[3] else 'false'})).")
            w(f"Hint Rewrite Hh_{k} : harm.")
            if not cnd[3]:
                w(f"Hypothesis Hhm_{k} : ltac:(let t := eval cbv in ({cnd[1]}) in exact (t <> z)).")
            k += 1
        w("Ltac harm_solve := cbv; repeat (autorewrite with harm; cbv beta iota); try reflexivity; field; repeat split; nz.")
        for a in range(d):
            shp = tr["fshapes"][a]
            for k2 in range(int(np.prod(shp))):
                idx = [int(q) for q in np.unravel_index(k2, shp)]
                cell = [idx[b] + (0 if b == a else 1) for b in range(d)] + [0] * (3 - d)
                nlem[0] += 1
                w(f"Lemma harmmean_{'xyz'[a]}_" + "_".join(map(str, idx)) + f" : {tr['harmmean'][a][k2].txt} = harmmean F tm tp {AXN[a]} ({cell[0]}, {cell[1]}, {cell[2]})%nat.\nProof. harm_solve. Qed.")
        w("End Harmonic.")
    # upwind advection, one sub-section per traced sign pattern
    CMP = {">": lambda a, b: f"klt_ {b} {a}", "<": lambda a, b: f"klt_ {a} {b}", ">=": lambda a, b: f"kle_ {b} {a}", "<=": lambda a, b: f"kle_ {a} {b}", "==": lambda a, b: f"keq_ {a} {b}"}
    for pat, up in enumerate(tr["upwind"]):
        w("(*CHUNK*)")
        w(f"Section Upwind{pat}.")
        def fv2(name, prefix):
            rows = []
            for a in range(d):
                shp = tr["fshapes"][a]
                for k in range(int(np.prod(shp))):
                    idx = [int(q) for q in np.unravel_index(k, shp)]
                    cell = [idx[b] + (0 if b == a else 1) for b in range(d)] + [0] * (3 - d)
                    rows.append(f"  | {AXN[a]}, ({cell[0]}, {cell[1]}, {cell[2]})%nat => {prefix}{pat}{'xyz'[a]}_" + "_".join(map(str, idx)))
            w(f"Definition {name} : fvar F := fun a c => match a, c with\n" + "\n".join(rows) + f"\n  | _, _ => k0 F end.")
        fv2(f"tv{pat}", "v")
        if up["has_w"]:
            fv2(f"tw{pat}", "w")
        seenc = set()
        k = 0
        for cnd in list(up["conds"]) + list(up.get("upm_conds", [])):
            if cnd[0] not in CMP or (cnd[0], cnd[1], cnd[2]) in seenc:
                continue
            seenc.add((cnd[0], cnd[1], cnd[2]))
            rel = CMP[cnd[0]](cnd[1], cnd[2]).replace("klt_", "kltb F").replace("kle_", "kleb F").replace("keq_", "keqb F")
            w(f"Hypothesis Hs{pat}_{k} : ltac:(let t := eval cbv in ({rel}) in exact (t = {'true' if cnd[3] else 'false'})).")
            w(f"Hint Rewrite Hs{pat}_{k} : signs{pat}.")
            k += 1
        w(f"Ltac up_solve := cbv; repeat (autorewrite with signs{pat}; cbv beta iota); try reflexivity; field; repeat split; nz.")
        uu = f"tv{pat}"; dd = f"tw{pat}" if up["has_w"] else uu
        # upwindMean(phi, v) with this sign pattern: the donor-cell value (boundary value on boundary faces)
        if up.get("upwmean") is not None:
            for a in range(d):
                shp = tr["fshapes"][a]
                for k2 in range(int(np.prod(shp))):
                    idx = [int(q) for q in np.unravel_index(k2, shp)]
                    cell = [idx[b] + (0 if b == a else 1) for b in range(d)] + [0] * (3 - d)
                    nlem[0] += 1
                    w(f"Lemma upwmean{pat}_{'xyz'[a]}_" + "_".join(map(str, idx)) + f" : {up['upwmean'][a][k2].txt} = upwindmean F tm tp {uu} {AXN[a]} ({cell[0]}, {cell[1]}, {cell[2]})%nat.\nProof. up_solve. Qed.")
        byrow = rows_of(up["M"])
        for r in range(ncell):
            idx = [int(q) for q in np.unravel_index(r, pshape)]
            interior = all(1 <= idx[b] <= Ns[b] for b in range(d))
            cols = set(byrow.get(r, {}))
            if interior:
                for b in range(d):
                    for dl in (-1, 1):
                        j = list(idx); j[b] += dl
                        cols.add(int(np.ravel_multi_index(j, pshape)))
                cols.add(r)
            for c in sorted(cols):
                v = byrow.get(r, {}).get(c)
                nlem[0] += 1
                w(f"Lemma upwind{pat}_{r}_{c} : {v.txt if v is not None else 'k0 F'} = coef_at F (stencil_row F tm (upwAW F tm {uu} {dd}) (upwAP F tm {uu} {dd}) (upwAE F tm {uu} {dd}) {r}) {c}.\nProof. up_solve. Qed.")
        # TVD correction: first each argument of _fsign is proved to be the model's face gradient, then every entry of the vector
        for k2, (atxt, ax, cidx) in enumerate(up.get("fsmap", [])):
            cell = cell_of(cidx, d)
            nlem[0] += 1
            w(f"Lemma tvdfsarg{pat}_{k2} : {atxt} = dphi F tm tp {AXN[ax]} {cell}.\nProof. tr_solve. Qed.")
            w(f"Hint Rewrite tvdfsarg{pat}_{k2} : tvdfs{pat}.")
            w(f"Hypothesis Hfs{pat}_{k2} : ltac:(let t := eval cbv in (fsgn (dphi F tm tp {AXN[ax]} {cell})) in exact (t <> z)).")
        if up.get("tvd") is not None:
            w(f"Ltac tvd_solve := autorewrite with tvdfs{pat}; up_solve.")
            for r in range(ncell):
                idx = [int(q) for q in np.unravel_index(r, pshape)]
                nlem[0] += 1
                w(f"Lemma tvd{pat}_{r} : {up['tvd'][r].txt} = interior_or_zero F tm (tvdrhs F fsgn FLf tm {uu} {dd} tp) {cell_of(idx, d)}.\nProof. tvd_solve. Qed.")
        w(f"End Upwind{pat}.")
    w("(*FOOTER*)")
    w(f"End Traced_{cq}.")
    w(f"(* {nlem[0]} entries.  Path conditions recorded while constructing the grid: {tr['geom_conds']!r}")
    w(f"   Path conditions recorded while running the builders: {tr['conds']!r} *)")
    return "\n".join(o) + "\n", nlem[0]


if __name__ == "__main__":
    repo = sys.argv[1] if len(sys.argv) > 1 else "/repo"
    dstdir = sys.argv[2] if len(sys.argv) > 2 and sys.argv[2] != "-" else None
    only = sys.argv[3].split(",") if len(sys.argv) > 3 else CLASSES
    rc = 0
    for cname in only:
        try:
            txt, n = emit(trace_class(repo, cname))
        except TranslateError as e:
            print(f"TRANSLATE-ERROR: {cname}: {e}")
            rc = 2
            continue
        except Exception as e:
            import traceback
            print(f"TRANSLATE-ERROR: {cname}: {type(e).__name__}: {e}\n" + traceback.format_exc()[-600:])
            rc = 2
            continue
        if dstdir:
            p = os.path.join(dstdir, f"Traced_{COQ[cname]}.v")
            old = open(p).read() if os.path.exists(p) else None
            if old != txt:
                open(p, "w").write(txt)
            print(cname, n, "entries")
        else:
            sys.stdout.write(txt)
    sys.exit(rc)
