(* Field-operations record, field laws, and the two instances used by the
   development: QcF (canonical rationals, executable by vm_compute) and RF (Coq reals). *)
From Coq Require Import Field QArith Qcanon Reals Bool.
From Coq Require RealField.

Record FieldOps := mkFieldOps {
  K :> Type;
  k0 : K; k1 : K;
  kadd : K -> K -> K; kmul : K -> K -> K; ksub : K -> K -> K; kdiv : K -> K -> K;
  kopp : K -> K; kinv : K -> K;
  kleb : K -> K -> bool; kltb : K -> K -> bool; keqb : K -> K -> bool
}.

Record FieldLaws (F : FieldOps) := mkFieldLaws {
  FL_field : field_theory (k0 F) (k1 F) (kadd F) (kmul F) (ksub F) (kopp F) (kdiv F) (kinv F) eq;
  FL_two   : kadd F (k1 F) (k1 F) <> k0 F;
  FL_three : kadd F (k1 F) (kadd F (k1 F) (k1 F)) <> k0 F;
  FL_eqb   : forall x y, keqb F x y = true <-> x = y;
  FL_ltb_irrefl : forall x, kltb F x x = false;
  FL_ltb_asym : forall x y, kltb F x y = true -> kltb F y x = false;
  FL_total : forall x y, kltb F x y = false -> kltb F y x = false -> x = y
}.

(* ---------- Qc instance ---------- *)
Definition Qc_leb (x y : Qc) : bool := Qle_bool (this x) (this y).
Definition Qc_ltb (x y : Qc) : bool := negb (Qle_bool (this y) (this x)).
Definition Qc_eqb (x y : Qc) : bool := Qeq_bool (this x) (this y).

Definition QcOps : FieldOps :=
  mkFieldOps Qc (Q2Qc 0) (Q2Qc 1) Qcplus Qcmult Qcminus Qcdiv Qcopp Qcinv Qc_leb Qc_ltb Qc_eqb.

Lemma Qc_eqb_spec x y : Qc_eqb x y = true <-> x = y.
Proof.
  unfold Qc_eqb. rewrite Qeq_bool_iff. split.
  - apply Qc_is_canon.
  - intros ->. reflexivity.
Qed.

Lemma Qc_ltb_lt x y : Qc_ltb x y = true <-> (x < y)%Qc.
Proof.
  unfold Qc_ltb, Qclt. rewrite negb_true_iff. split.
  - intros H. apply Qnot_le_lt. intro Hle. apply Qle_bool_iff in Hle. congruence.
  - intros H. destruct (Qle_bool (this y) (this x)) eqn:E; [|reflexivity].
    apply Qle_bool_iff in E. exfalso. exact (Qlt_not_le _ _ H E).
Qed.

Lemma Qc_leb_le x y : Qc_leb x y = true <-> (x <= y)%Qc.
Proof. unfold Qc_leb, Qcle. apply Qle_bool_iff. Qed.

Definition QcLaws : FieldLaws QcOps.
Proof.
  refine (mkFieldLaws QcOps Qcft _ _ Qc_eqb_spec _ _ _).
  - intro H. apply (f_equal this) in H. discriminate H.
  - intro H. apply (f_equal this) in H. discriminate H.
  - intro x. unfold QcOps, kltb, Qc_ltb. 
    assert (Qle_bool (this x) (this x) = true) as -> by (apply Qle_bool_iff; apply Qle_refl).
    reflexivity.
  - intros x y H. apply Qc_ltb_lt in H.
    destruct (kltb QcOps y x) eqn:E; [|reflexivity].
    apply Qc_ltb_lt in E. exfalso. exact (Qclt_not_le _ _ H (Qclt_le_weak _ _ E)).
  - intros x y H1 H2. 
    destruct (Qc_dec x y) as [[Hlt|Hgt]|Heq]; [| |exact Heq].
    + apply Qc_ltb_lt in Hlt. change (kltb QcOps x y) with (Qc_ltb x y) in H1. congruence.
    + apply Qc_ltb_lt in Hgt. change (kltb QcOps y x) with (Qc_ltb y x) in H2. congruence.
Defined.

(* ---------- R instance ---------- *)
Definition R_leb (x y : R) : bool := if Rle_dec x y then true else false.
Definition R_ltb (x y : R) : bool := if Rlt_dec x y then true else false.
Definition R_eqb (x y : R) : bool := if Req_EM_T x y then true else false.

Definition ROps : FieldOps :=
  mkFieldOps R 0%R 1%R Rplus Rmult Rminus Rdiv Ropp Rinv R_leb R_ltb R_eqb.

Lemma R_ltb_lt x y : R_ltb x y = true <-> (x < y)%R.
Proof. unfold R_ltb. destruct (Rlt_dec x y); split; intros; try assumption; try reflexivity; try discriminate; contradiction. Qed.
Lemma R_leb_le x y : R_leb x y = true <-> (x <= y)%R.
Proof. unfold R_leb. destruct (Rle_dec x y); split; intros; try assumption; try reflexivity; try discriminate; contradiction. Qed.
Lemma R_eqb_eq x y : R_eqb x y = true <-> x = y.
Proof. unfold R_eqb. destruct (Req_EM_T x y); split; intros; try assumption; try reflexivity; try discriminate; contradiction. Qed.

Definition RLaws : FieldLaws ROps.
Proof.
  refine (mkFieldLaws ROps RealField.Rfield _ _ R_eqb_eq _ _ _).
  - simpl. intro H. assert (0 < 1 + 1)%R by (apply Rplus_lt_0_compat; apply Rlt_0_1).
    rewrite H in H0. exact (Rlt_irrefl _ H0).
  - simpl. intro H. assert (0 < 1 + (1 + 1))%R by (repeat apply Rplus_lt_0_compat; apply Rlt_0_1).
    rewrite H in H0. exact (Rlt_irrefl _ H0).
  - intro x. simpl. unfold R_ltb. destruct (Rlt_dec x x) as [H|H]; [exfalso; exact (Rlt_irrefl _ H)|reflexivity].
  - intros x y H. apply R_ltb_lt in H. simpl. unfold R_ltb.
    destruct (Rlt_dec y x) as [H'|H']; [exfalso; exact (Rlt_asym _ _ H H')|reflexivity].
  - intros x y H1 H2. simpl in H1, H2. unfold R_ltb in H1, H2.
    destruct (Rlt_dec x y); [discriminate|]. destruct (Rlt_dec y x); [discriminate|].
    destruct (Rtotal_order x y) as [?|[?|?]]; [contradiction|assumption|contradiction].
Defined.

(* Notations for generic code: open scope kf inside a Section with Variable F. *)
Declare Scope kf_scope.
Delimit Scope kf_scope with kf.
