"""Shared pieces of the per-property check modules."""
import json, traceback
import numpy as np
import lib, gen
from suites import operators

OP_SUITES = ["diffusion", "conv_central", "conv_upwind", "tvd", "divergence", "gradient", "means"]


def run_suites(ctx, names, runner=None, relevant=None):
    """run (cached) correspondence suites; record coverage; register broken correspondences.
    Returns the list of mismatching labels."""
    allbad = []
    for n in names:
        for gm in lib.SUITE_GEN.get(n, []):
            tf = getattr(ctx, "translator_fails", {}).get(gm)
            if tf and not any(b["kind"] == "translator" and b["name"] == tf[0] for b in ctx.broken):
                ctx.broke("translator", tf[0], tf[1])
        fn = (lambda n=n: (runner or operators.run_suite)(n, ctx.tier, ctx.seed))
        try:
            # the symbolic suite does not depend on tier or seed: one cache entry serves every check (bin/setup warms it)
            r = lib.cached_suite(n, "any", 0, fn) if n == "symbolic" else lib.cached_suite(n, ctx.tier, ctx.seed, fn)
        except Exception:
            ctx.broke("correspondence", n + "/harness", traceback.format_exc()[-1200:])
            continue
        ctx.add_cases(n, r["checks"], r["keys"], samples=r.get("samples", [])[:1], dist=r.get("dist"))
        for e in r.get("errors", []):
            ctx.broke("correspondence", f"{n}/{e.get('file')}", "Coq could not evaluate the case file: " + e.get("out", "")[-500:])
        for s in r.get("skipped", []):
            if relevant and not relevant(n, s):
                continue
            ctx.broke("correspondence", f"{n}/{s.get('cls')}/{s.get('what')}",
                      f"implementation {s.get('reason')}: " + json.dumps(s.get("label", {}))[:600] + s.get("trace", "")[-400:])
        seen = set()
        for b in r.get("bad", []):
            if relevant and not relevant(n, b):
                continue
            k = (b.get("cls"), b.get("what"))
            allbad.append(dict(b, suite=n))
            if k in seen:
                continue
            seen.add(k)
            ctx.broke("correspondence", f"{n}/{b.get('cls')}/{b.get('what')}",
                      "model (Coq, Qc) and implementation disagree on: " + json.dumps(b)[:1200])
    return allbad


def mesh_from_label(pf, lab):
    return gen.build_mesh(pf, lab["cls"], lab["faces"])


def rel(a, b):
    a = np.asarray(a, dtype=float); b = np.asarray(b, dtype=float)
    return float(np.max(np.abs(a - b)) / (1.0 + np.max(np.abs(a)) + np.max(np.abs(b)))) if a.size else 0.0


def volumes(pf, mesh, cname):
    """the measure with respect to which the class's operators are in flux form (cellvolume, except S3: midpoint)"""
    if cname == "SphericalGrid3D":
        r = mesh.cellcenters._x[:, None, None]; th = mesh.cellcenters._y[None, :, None]
        return (r ** 2 * np.sin(th) * mesh.cellsize._x[1:-1, None, None] * mesh.cellsize._y[None, 1:-1, None]
                * mesh.cellsize._z[None, None, 1:-1])
    return np.asarray(mesh.cellvolume, dtype=float)


def interior_slices(d):
    return tuple(slice(1, -1) for _ in range(d))


def full_shape(mesh):
    return tuple(int(n) + 2 for n in mesh.dims)
