(* C13 — Flux limiters compute the published formulas, are total and within TVD bounds.
   The definitions FL_dispatch / FL_dens_dispatch / fsign are GENERATED from /repo on every run
   (Gen/Limiters.v); the closed forms sp_table are hand-written in Spec/LimiterSpec.v. *)
From Coq Require Import Reals String List Floats.
From PFV Require Import OField KOps Limiters LimiterSpec LimiterThy F64Ops FloatThy FloatLimThy FloatLim2Thy FloatLim3Thy FloatLim4Thy FloatAllThy FloatGuardThy.
Local Open Scope R_scope.

(* every named limiter evaluates the published closed form, for every real r *)
Theorem C13_published : forall eps name sp, 0 < eps -> lookup name sp_table = Some sp ->
  forall r, FL_dispatch ROps name eps r = sp r.
Proof. exact published_dispatch. Qed.
Print Assumptions C13_published.

(* no division by zero anywhere: every denominator of the selected limiter is non-zero for every r *)
Theorem C13_total : forall eps name r, 0 < eps ->
  Forall (fun d => d <> 0) (FL_dens_dispatch ROps name eps r).
Proof. exact total_dispatch. Qed.
Print Assumptions C13_total.

Theorem C13_one : forall name sp, lookup name sp_table = Some sp -> sp 1 = 1.
Proof. exact one_table. Qed.
Print Assumptions C13_one.

Theorem C13_range : forall name sp r, lookup name sp_table = Some sp -> 0 < r ->
  0 <= sp r <= Rmin (2 * r) 4.
Proof. exact range_table. Qed.
Print Assumptions C13_range.

Theorem C13_clip_zero : forall name sp r, In name clipped -> lookup name sp_table = Some sp ->
  r <= 0 -> sp r = 0.
Proof. exact clip_table. Qed.
Print Assumptions C13_clip_zero.

(* the code knows exactly the 16 published names ... *)
Theorem C13_names : forall n, In n FL_names <-> lookup n sp_table <> None.
Proof. exact names_are_the_16. Qed.
Print Assumptions C13_names.

(* ... and every other name yields SUPERBEE (for every field of scalars) *)
Theorem C13_fallback : forall (F : FieldOps) name eps r,
  ~ In name FL_names -> FL_dispatch F name eps r = FL_SUPERBEE F eps r.
Proof. exact unknown_name_superbee. Qed.
Print Assumptions C13_fallback.

(* the divisor used for the gradient ratio in the TVD correction is never zero *)
Theorem C13_fsign_nonzero : forall eps1 x, 0 < eps1 -> fsign ROps eps1 x <> 0.
Proof. exact fsign_nonzero. Qed.
Print Assumptions C13_fsign_nonzero.

(* ... its magnitude is at least the threshold (tiny non-zero differences are clamped as well), it keeps the sign of its argument,
   and therefore every gradient ratio a / _fsign(x) is bounded by |a| / eps1: no overflow next to differences of order one *)
Theorem C13_fsign_lower_bound : forall eps1 x, 0 < eps1 -> eps1 <= Rabs (fsign ROps eps1 x).
Proof. exact fsign_lower_bound. Qed.
Print Assumptions C13_fsign_lower_bound.
Theorem C13_fsign_same_sign : forall eps1 x, 0 < eps1 -> 0 <= x * fsign ROps eps1 x.
Proof. exact fsign_same_sign. Qed.
Print Assumptions C13_fsign_same_sign.
Theorem C13_fsign_ratio_bounded : forall eps1 a x, 0 < eps1 -> Rabs (a / fsign ROps eps1 x) <= Rabs a / eps1.
Proof. exact fsign_ratio_bounded. Qed.
Print Assumptions C13_fsign_ratio_bounded.

(* ---- binary64 level: the regenerated definitions evaluated with Coq's primitive floats (FOps), i.e. the IEEE 754 arithmetic numpy
   performs; `fin k f` = f is a finite float and |f| <= 2^k (Theory/FloatThy.v, on Flocq's specification of primitive floats).
   The full statement "every named limiter returns a finite value for every finite r" is FALSE in binary64 (refuted below: r*r
   overflows); proved is the part below.  The theorem _partial gives, for 12 names, finiteness with the bound 2^1002 and no condition on eps; C13_float_finite_up_to_2p500 below
   covers all 16 names (finite guard 0 < eps <= 1). *)
Theorem C13_float_finite_partial : forall name eps r, In name float_safe_names -> fin 500 r ->
  fin 1002 (FL_dispatch FOps name eps r).
Proof. exact float_safe_dispatch. Qed.
Print Assumptions C13_float_finite_partial.
Theorem C13_float_unknown_name_finite : forall name eps r, ~ In name FL_names -> fin 500 r ->
  fin 1002 (FL_dispatch FOps name eps r).
Proof. exact float_unknown_name. Qed.
Print Assumptions C13_float_unknown_name_finite.
Theorem C13_float_fin_is_finite : forall k f, fin k f -> PrimFloat.is_finite f = true.
Proof. exact fin_finite. Qed.
Print Assumptions C13_float_fin_is_finite.
(* HCUS and HQUICK (numerator r + |r| exactly zero for r < 0, where the denominator r + c is a non-zero float -- gradual underflow -- or the
   guard eps at r = -c; denominator >= c for r >= 0): finite for every float |r| <= 2^500 and every finite positive guard eps <= 1 *)
Theorem C13_float_finite_HCUS_HQUICK : forall eps r, fin 0 eps -> 0 < FR eps -> fin 500 r ->
  ffin (FL_HCUS FOps eps r) /\ ffin (FL_HQUICK FOps eps r).
Proof. intros eps r He Hp Hr. split; [exact (float_HCUS eps r He Hp Hr)|exact (float_HQUICK eps r He Hp Hr)]. Qed.
Print Assumptions C13_float_finite_HCUS_HQUICK.
(* ALL sixteen names, and every unknown name: finite for every float |r| <= 2^500 and every finite guard 0 < eps <= 1.  (ospre: its
   denominator r (r + 1) + 1 is >= 1/2 in floating point by monotonicity of rounding alone; CHARM: for r <= 0 the numerator is exactly zero and
   rnd(r + 1)^2 cannot underflow to zero, because a float of magnitude >= 1/2 is a multiple of 2^-53.)  This is the property's "finite value
   for every finite gradient ratio" restricted to |r| <= 2^500; beyond 2^512 it is false (C13_float_overflow_refuted). *)
Theorem C13_float_finite_up_to_2p500 : forall name eps r, fin 0 eps -> 0 < FR eps -> fin 500 r ->
  PrimFloat.is_finite (FL_dispatch FOps name eps r) = true.
Proof.
  intros name eps r He Hp Hr. rewrite Flocq.IEEE754.PrimFloat.is_finite_equiv. exact (float_all_dispatch name eps r He Hp Hr).
Qed.
Print Assumptions C13_float_finite_up_to_2p500.
Example C13_float_default_eps_ok : fin 0 (eps_default FOps) /\ 0 < FR (eps_default FOps).
Proof. exact eps_default_ok. Qed.
(* the guard of the gradient ratios never overflows *)
Theorem C13_float_fsign_finite : forall eps1 x, fin 0 eps1 -> fin 1000 x -> fin 1010 (fsign FOps eps1 x).
Proof. exact float_fsign. Qed.
Print Assumptions C13_float_fsign_finite.
(* the guard in binary64: every operation inside _fsign is exact, it returns exactly x, eps1 or -eps1, of magnitude >= eps1 ... *)
Theorem C13_float_fsign_exact : forall eps x, fin 0 eps -> 0 < FR eps -> fin 1000 x ->
  exists v, (fin 1000 (fsign FOps eps x) /\ FR (fsign FOps eps x) = v) /\ (v = FR x \/ v = FR eps \/ v = - FR eps) /\ FR eps <= Rabs v.
Proof. exact fsign_exact. Qed.
Print Assumptions C13_float_fsign_exact.
(* ... hence the gradient ratio is a finite float for every x (zero, denormal, huge) and |a| <= 2^k, and the limited value FL(a / _fsign(x)) of
   EVERY limiter is a finite float for |a| <= 2^400: "finite for every finite field, including exactly equal or exactly opposite successive
   differences" at the binary64 level, for the ratio and the limiter (the remaining products of the TVD vector are not modelled in binary64) *)
Theorem C13_float_ratio_finite : forall k eps a x, fin 0 eps -> pos (-100) eps -> fin k a -> fin 1000 x -> okexp (k - -100) = true ->
  fin (k - -100) (PrimFloat.div a (fsign FOps eps x)).
Proof. exact ratio_finite. Qed.
Print Assumptions C13_float_ratio_finite.
Theorem C13_float_limited_ratio_finite : forall name epsL eps1 a x,
  fin 0 epsL -> 0 < FR epsL -> fin 0 eps1 -> pos (-100) eps1 -> fin 400 a -> fin 1000 x ->
  PrimFloat.is_finite (FL_dispatch FOps name epsL (PrimFloat.div a (fsign FOps eps1 x))) = true.
Proof.
  intros. rewrite Flocq.IEEE754.PrimFloat.is_finite_equiv. apply limited_ratio_finite; assumption.
Qed.
Print Assumptions C13_float_limited_ratio_finite.
Example C13_float_default_eps1_ok : fin 0 (eps1_default FOps) /\ pos (-100) (eps1_default FOps).
Proof. exact eps1_default_ok. Qed.
(* refutation of the full statement at binary64: finite r = 2^520 gives NaN (CHARM, ospre, VanAlbada1), r = 2^1023 gives NaN
   (VanAlbada2) or an infinity (HCUS, HQUICK, VanLeer) -- known finding c13:float_overflow *)
Theorem C13_float_overflow_refuted :
  PrimFloat.is_finite big_r = true /\
  Forall (fun name => PrimFloat.is_nan (FL_dispatch FOps name (eps_default FOps) big_r) = true)
         ("CHARM" :: "ospre" :: "VanAlbada1" :: nil)%string /\
  PrimFloat.is_nan (FL_dispatch FOps "VanAlbada2" (eps_default FOps) 0x1p+1023%float) = true /\
  Forall (fun name => PrimFloat.is_finite (FL_dispatch FOps name (eps_default FOps) 0x1p+1023%float) = false)
         ("HCUS" :: "HQUICK" :: "VanLeer" :: nil)%string.
Proof. exact float_overflow_witness. Qed.
Print Assumptions C13_float_overflow_refuted.

(* non-vacuity: the hypotheses are met by the defaults the code uses *)
Example C13_defaults_positive : 0 < eps_default ROps /\ 0 < eps1_default ROps.
Proof.
  unfold eps_default, eps1_default. rewrite !kofQ_R. split; apply Rdiv_lt_0_compat; apply IZR_lt; reflexivity.
Qed.
Example C13_lookup_nonvacuous : lookup "Koren"%string sp_table = Some sp_Koren.
Proof. reflexivity. Qed.
Example C13_float_nonvacuous : fin 500 1.5%float /\ In "Koren"%string float_safe_names.
Proof. split; [|simpl; tauto]. eapply fin_weaken; [fin_tac|vm_compute; discriminate]. Qed.
