(* Object-level state of CellVariables and BoundaryConditions objects: dirty flags (TrackedArray), ghost cells,
   cached boundary terms, sharing.  Numeric content is abstracted to VERSION numbers: two arrays carry the same
   version iff their contents are equal (the harness assigns versions by content; in the theorems they are arbitrary).  `step` follows cell.py / boundary.py / pdesolver.py. *)
From Coq Require Import Arith List Bool.
Import ListNotations.

Record var := mkVar {
  v_int : nat;                 (* version of the interior values *)
  v_ghost : nat * nat;         (* (interior version, bc-content version) the stored ghost cells were computed from *)
  v_cache : option nat;        (* bc-content version the cached _BCsTerm was computed from, if any *)
  v_precalc : bool;            (* BCsTerm_precalc *)
  v_bc : nat;                  (* index of the BoundaryConditions object it refers to *)
  v_dirty : bool               (* value.modified *)
}.
(* two content versions: what the ghost formula depends on, what the boundary term depends on (an edit may change one and not the other,
   e.g. rescaling a on a homogeneous Neumann face) *)
Record bcobj := mkBC { b_gver : nat; b_ver : nat; b_dirty : bool }.
Record heap := mkHeap { vars : list var; bcs : list bcobj; fresh : nat }.

Inductive op :=
| EditBC (b : nat) (gver tver : nat)   (* any assignment to a/b/c (whole, slice, through a view), utility method, periodic toggle *)
| EditVal (v : nat) (ver : nat)       (* assignment / slice assignment to .value *)
| UpdateValue (v w : nat)             (* v.update_value(w): copies w's whole padded array *)
| ApplyBCs (v : nat)
| Solve (v : nat) (ver : nat)         (* solvePDE(v, terms) *)
| SolveExplicit (v : nat) (ver : nat) (* solveExplicitPDE(v, dt, rhs): appends a new variable sharing v's BC object *)
| Copy (v : nat)                      (* v.copy(): new variable, deep-copied BC object *)
| Arith (v : nat) (ver : nat)         (* arithmetic with v as left-most operand: new variable, deep-copied BC object *)
| NewShared (b : nat) (ver : nat).    (* CellVariable(mesh, values, BC_b) *)

Definition dvar : var := mkVar 0 (0, 0) None true 0 false.
Definition dbc : bcobj := mkBC 0 0 false.
Definition getv (h : heap) (i : nat) : var := nth i (vars h) dvar.
Definition getb (h : heap) (i : nat) : bcobj := nth i (bcs h) dbc.
Fixpoint set_nth {A} (i : nat) (x : A) (l : list A) : list A :=
  match l, i with
  | [], _ => []
  | _ :: t, 0 => x :: t
  | y :: t, S j => y :: set_nth j x t
  end.
Definition setv (h : heap) (i : nat) (v : var) : heap := mkHeap (set_nth i v (vars h)) (bcs h) (fresh h).
Definition setb (h : heap) (i : nat) (b : bcobj) : heap := mkHeap (vars h) (set_nth i b (bcs h)) (fresh h).
Definition tick (h : heap) : heap := mkHeap (vars h) (bcs h) (S (fresh h)).

(* CellVariable.apply_BCs *)
Definition apply_bcs (h : heap) (i : nat) : heap :=
  let v := getv h i in let b := getb h (v_bc v) in
  let v' := mkVar (v_int v) (v_int v, b_gver b) (if v_precalc v then Some (b_ver b) else v_cache v) (v_precalc v) (v_bc v) false in
  setb (setv h i v') (v_bc v) (mkBC (b_gver b) (b_ver b) false).

(* the boundary-condition content a solve of variable i assembles its system from.
   use_cache = true models the code BEFORE the repair (cached term trusted when no dirty flag is set). *)
Definition needs_refresh (h : heap) (i : nat) : bool :=
  let v := getv h i in b_dirty (getb h (v_bc v)) || v_dirty v.
Definition solve_bcver (use_cache : bool) (h : heap) (i : nat) : option nat :=
  let h1 := if needs_refresh h i then apply_bcs h i else h in
  let v := getv h1 i in
  if use_cache then v_cache v else Some (b_ver (getb h1 (v_bc v))).

Definition step (use_cache : bool) (h : heap) (o : op) : heap :=
  match o with
  | EditBC b gver tver => setb h b (mkBC gver tver true)
  | EditVal i ver =>
      let v := getv h i in
      setv h i (mkVar ver (v_ghost v) (v_cache v) (v_precalc v) (v_bc v) true)
  | UpdateValue i j =>
      let v := getv h i in let w := getv h j in
      setv h i (mkVar (v_int w) (v_ghost w) (v_cache v) (v_precalc v) (v_bc v) true)
  | ApplyBCs i => apply_bcs h i
  | Solve i ver =>
      let h1 := if needs_refresh h i then apply_bcs h i else h in
      let v := getv h1 i in
      (* the solution replaces the whole padded array, then apply_BCs *)
      let h2 := setv h1 i (mkVar ver (v_ghost v) (v_cache v) (v_precalc v) (v_bc v) (v_dirty v)) in
      apply_bcs h2 i
  | SolveExplicit i ver =>
      (* the input variable is refreshed unconditionally (repair: the dirty flags of a shared BC object can have been reset
         through another variable) *)
      let h1 := apply_bcs h i in
      let v := getv h1 i in
      let n := List.length (vars h1) in
      let w := mkVar ver (0, 0) None false (v_bc v) false in
      apply_bcs (mkHeap (vars h1 ++ [w]) (bcs h1) (fresh h1)) n
  | Copy i =>
      let v := getv h i in let b := getb h (v_bc v) in
      let nb := List.length (bcs h) in
      (* the padded array is passed as is (ghosts kept), the BC object is deep-copied with its flags,
         the constructor builds the term; copy() hands the value flag over *)
      mkHeap (vars h ++ [mkVar (v_int v) (v_ghost v) (Some (b_ver b)) true nb (v_dirty v)]) (bcs h ++ [b]) (fresh h)
  | Arith i ver =>
      let v := getv h i in let b := getb h (v_bc v) in
      let nb := List.length (bcs h) in
      mkHeap (vars h ++ [mkVar ver (ver, b_gver b) (Some (b_ver b)) true nb false]) (bcs h ++ [b]) (fresh h)
  | NewShared b ver =>
      let bo := getb h b in
      mkHeap (vars h ++ [mkVar ver (ver, b_gver bo) (Some (b_ver bo)) true b false]) (bcs h) (fresh h)
  end.

Definition run (use_cache : bool) (h : heap) (ops : list op) : heap := fold_left (step use_cache) ops h.
(* one variable on its own freshly made BC object *)
(* one variable with interior version iv on its own BC object with content versions (gv, tv) *)
Definition init_with (iv gv tv : nat) : heap := mkHeap [mkVar iv (iv, gv) (Some tv) true 0 false] [mkBC gv tv false] 0.
Definition init : heap := init_with 1 2 2.

(* observables compared with the implementation after every operation *)
Definition ghost_fresh (h : heap) (i : nat) : bool :=
  let v := getv h i in
  Nat.eqb (fst (v_ghost v)) (v_int v) && Nat.eqb (snd (v_ghost v)) (b_gver (getb h (v_bc v))).
Definition cache_fresh (h : heap) (i : nat) : option bool :=
  let v := getv h i in
  match v_cache v with Some c => Some (Nat.eqb c (b_ver (getb h (v_bc v)))) | None => None end.
Definition observe (h : heap) : list (bool * bool * bool * option bool * nat) :=
  map (fun i => let v := getv h i in
                (v_dirty v, b_dirty (getb h (v_bc v)), ghost_fresh h i, cache_fresh h i, v_bc v))
      (seq 0 (List.length (vars h))).
(* op indices are valid *)
Definition op_ok (h : heap) (o : op) : bool :=
  let nv := List.length (vars h) in let nb := List.length (bcs h) in
  match o with
  | EditBC b _ _ => Nat.ltb b nb | EditVal i _ => Nat.ltb i nv | UpdateValue i j => Nat.ltb i nv && Nat.ltb j nv
  | ApplyBCs i | Solve i _ | SolveExplicit i _ | Copy i | Arith i _ => Nat.ltb i nv
  | NewShared b _ => Nat.ltb b nb
  end.

(* comparison with the observations the harness made on the implementation after every operation *)
Definition obs := (bool * bool * bool * option bool * nat)%type.
Definition obool_eqb (a b : option bool) : bool :=
  match a, b with Some x, Some y => Bool.eqb x y | None, None => true | _, _ => false end.
Definition obs_eqb (a b : obs) : bool :=
  let '(a1, a2, a3, a4, a5) := a in let '(b1, b2, b3, b4, b5) := b in
  Bool.eqb a1 b1 && Bool.eqb a2 b2 && Bool.eqb a3 b3 && obool_eqb a4 b4 && Nat.eqb a5 b5.
Fixpoint obsl_eqb (a b : list obs) : bool :=
  match a, b with [] , [] => true | x :: a', y :: b' => obs_eqb x y && obsl_eqb a' b' | _, _ => false end.
(* index of the first operation after which model and implementation disagree (or an op is ill-formed) *)
Fixpoint first_divergence (use_cache : bool) (h : heap) (ops : list op) (expected : list (list obs)) (k : nat) : option nat :=
  match ops, expected with
  | [], [] => None
  | o :: ops', e :: exp' =>
      if op_ok h o then
        let h' := step use_cache h o in
        if obsl_eqb (observe h') e then first_divergence use_cache h' ops' exp' (S k) else Some k
      else Some k
  | _, _ => Some k
  end.
Definition history_ok (iv gv tv : nat) (ops : list op) (expected : list (list obs)) : bool :=
  match first_divergence false (init_with iv gv tv) ops expected 0 with None => true | Some _ => false end.
