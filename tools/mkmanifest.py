#!/usr/bin/env python3
"""Regenerates MANIFEST.json from the table below (claimed checks) and properties.jsonl."""
import json, os
V = os.path.dirname(os.path.dirname(os.path.abspath(__file__)))
TB = ("Coq 8.16.1 kernel incl. vm_compute; hand model coq/Model tied to /repo by correspondence suites evaluated inside Coq at Qc; "
      "translators tools/tr_*.py; floating point (except the limiters and the zero guard, C13), numpy broadcasting and the sparse solver are not modelled; axioms per theorem are "
      "listed in the evidence file from Print Assumptions")
CLAIMS = {
 "C01": ("Tie also symbolic: the relevant builders are traced on symbolic inputs and every traced entry is proved equal to the model's coefficient for all values (DESIGN 2.7). Generic-field theorems: every flux-form term (divergence, diffusion, central, upwind, TVD) changes the cellvolume-weighted sum only "
         "through boundary faces, for every class (S3: midpoint measure), N, spacing, coefficients (Props/C01.v); model tied to all per-class "
         "builders by 8 suites; direct conservation probes on the real code", "DESIGN.md 3, 4 (C01)"),
 "C05": ("Tie also symbolic: the relevant builders are traced on symbolic inputs and every traced entry is proved equal to the model's coefficient for all values (DESIGN 2.7). Theorems: matrix stencils = divergence of the explicit gradient/mean flux, cell by cell, all classes; TVD zero/unit-limiter identities "
         "(Props/C05.v); 7 correspondence suites; identity probes on the real code; zero-u_upwind edge is a known finding (refuted theorem)", "DESIGN.md 3, 4 (C05)"),
 "C06": ("Tie also symbolic: the relevant builders are traced on symbolic inputs and every traced entry is proved equal to the model's coefficient for all values (DESIGN 2.7). Theorems: diffusion of a constant is 0, central/upwind/TVD of a constant c is c*div(u) (Props/C06.v); suites + probes incl. sources-only solve", "DESIGN.md 4 (C06)"),
 "C02": ("Tie also symbolic: the relevant builders are traced on symbolic inputs and every traced entry is proved equal to the model's coefficient for all values (DESIGN 2.7). PARTIAL: convergence theorems are proved in the simplest configurations only (uniform Cartesian spacing; C02_convergence_cartesian_1D: uniform Cartesian axis, constant d, no advection, any closure of the comparison principle: |x_i - f(xi_i)| <= d max|f''''| h^2 / (12 min kap), from the Taylor remainder of the second difference (Coquelicot's Taylor-Lagrange; C02_taylor_second_difference, C02_taylor_cartesian_axis) and the stability theorem; the central convection stencil has its Taylor remainder too: C02_taylor_central_difference, C02_taylor_central_cartesian_axis, |u| max|f'''| h^2 / 6, consistency only; and the upwind stencil in interior cells: C02_taylor_upwind_cartesian_axis, |u| max|f''| h / 2, giving a second convergence theorem C02_convergence_upwind_cartesian_1D: upwind advection-diffusion, error <= (d max|f''''| h^2/12 + |u| max|f''| h/2) / min kap; and a third, C02_convergence_cartesian_nD: diffusion on uniform Cartesian grids of any dimension, error <= sum over axes of d max|4th derivative along the axis| h_a^2/12 / min kap, with its upwind advection-diffusion counterpart C02_convergence_upwind_cartesian_nD); elsewhere the two halves of the Lax argument are proved separately and the Taylor remainder is not. Stability, every class and dimension, non-uniform spacing included (over R): the discrete solution is within max|truncation error| / min(alpha/dt+beta) of any field satisfying the rows up to that error (comparison principle; D>=0, upwind with divergence-free u; Dirichlet / no-flux / one-signed Robin / periodic closures; for non-periodic boundary objects the closure is derived from the boundary rows, so the statement is about fields satisfying the rows of the assembled system). Consistency (generic field): on uniform spacing the diffusion and central-advection stencils "
         "reproduce the continuous operator exactly on polynomial families separating every metric factor (Cartesian, cylindrical r incl. the axis cell, "
         "SphericalGrid1D exact-volume r, angular 1/r^2), SphericalGrid3D radial block with its exact O(h^2) remainder (Props/C02.v); the model is tied to every "
         "builder by the operator/bc/solve suites; manufactured-solution refinement on the implementation (9 classes x central/upwind x Dirichlet/Robin x "
         "uniform/graded, 3 resolutions, observed order)", "DESIGN.md 4 (C02)"),
 "C03": ("Tie also symbolic: the relevant builders are traced on symbolic inputs and every traced entry is proved equal to the model's coefficient for all values (DESIGN 2.7). Theorems: stored boundary values (with_boundaries) satisfy a/h*(difference)+b*(average)=c face by face incl. 1/r, 1/(r sin theta); the solver's "
         "boundary rows encode the same relation; (a,b,c) scale invariance; periodic wrap and the exact residual of the solver's periodic rows "
         "(Props/C03.v); suites bc_ghost, bc_rows, solve, explicit on all classes; Robin-residual probes after the four operations; periodic axis "
         "with unequal end cells is a known finding; the plot profile (plotprofile) is modelled (plot_profile), proved to report the face value that satisfies the configured relation (the Dirichlet value when a = 0) and tied to the code symbolically and numerically", "DESIGN.md 4 (C03)"),
 "C04": ("Tie also symbolic: the relevant builders are traced on symbolic inputs and every traced entry is proved equal to the model's coefficient for all values (DESIGN 2.7). Theorems over every solution of the assembled system: term order irrelevant, linear in the unknown, superposition in sources/boundary "
         "data/old values, terms never enter boundary rows (Props/C04.v); the solve suite evaluates the residual of the MODEL system inside Coq at "
         "the real solver's answer for random term lists; probes: identity of the returned object, external solver receives the identical system, "
         "solveMatrixPDE agreement, per-cell source/transient coefficients against a cell-by-cell assembly; uniqueness of the solution of C07-type systems over R, stated for is_solution itself with hypotheses on the data only (closure hypotheses derived from the boundary rows). The ASSEMBLY of solvePDE is in the symbolic tie: the system a spying external solver receives for a list of negated / scaled matrices, vectors and a (matrix, vector) pair, called twice with the same list, is proved equal row by row to sys_lhs / sys_rhs / bc_lhs / bc_rhs of the model for all values (solveL*, solveR*)", "DESIGN.md 2.7, 4 (C04)"),
 "C07": ("Tie also symbolic: the relevant builders are traced on symbolic inputs and every traced entry is proved equal to the model's coefficient for all values (DESIGN 2.7). Theorems over R: every solution of a system whose rows are convex combinations plus sink stays within [min(data,0), max(data,0)] (within the data "
         "range without sink), non-negativity; sign structure of the diffusion and upwind stencils and row sum = div(u); per axis, -diffusion + upwind has "
         "exactly the convex row shape; and ON THE MODEL for every class and dimension: every solution of the transient/-diffusion/upwind(div-free)/sink "
         "system lies between min and max of previous values, boundary data and 0 (flux form + argmax over the finite set of unknowns; ghost hypothesis from "
         "Dirichlet / no-flux rows) (Props/C07.v). The underlying comparison principle (C07_comparison) includes periodic neighbours and has a concrete non-vacuity instance over R; the ghost hypothesis is discharged per boundary kind. Probe: multi-step solves with D contrast 1e8, divergence-free u on every class, dt over 8 decades, Dirichlet/no-flux/periodic; overshoots "
         "confirmed by exact rational re-solve", "DESIGN.md 4 (C07)"),
 "C08": ("Tie also symbolic: the relevant builders are traced on symbolic inputs and every traced entry is proved equal to the model's coefficient for all values (DESIGN 2.7). Theorems (generic field): on a field that does not vary along an axis the block of that axis of diffusion is 0 and of central/upwind advection is "
         "value*div(u), 0 for invariant velocity (Props/C08.v); model symmetric under axis relabelling/mirroring by construction (one per-axis stencil); per-axis "
         "correspondence (Mx,My,Mz) of every builder; probes: 7 embedding pairs, Cartesian permutations, mirrors, periodic shifts on the implementation; "
         "upwind/TVD along a periodic axis is a known finding", "DESIGN.md 4 (C08)"),
 "C09": ("Heap machine Model/State.v (dirty flags of TrackedArrays, ghost cells, cached boundary term, shared BoundaryConditions objects, copy / arithmetic / "
         "explicit-solver results), validated by operation-history correspondence (bounded-exhaustive + random, 5 grid classes). Theorems: in every heap a solve "
         "assembles its boundary equations from the current content (= fresh start), shared objects included; for histories without sharing, clean flags imply "
         "fresh ghosts and cache (invariant by induction over histories); the pre-repair code is refuted by two concrete histories; after the explicit solver its input and result have fresh ghosts in every heap (Props/C09.v); probe: next "
         "solve (implicit or explicit first) vs fresh start on real objects, systematic single-side edits x consumers", "DESIGN.md 4 (C09)"),
 "C10": ("Theorems: sizes = face differences, ghost sizes repeat, centres = midpoints, (N,L) form, coded volumes in geometric form per class, radial/"
         "Cartesian sums telescope to the domain size (generic field); over R: positivity, SphericalGrid1D volume = full shell, SphericalGrid3D volume "
         "REFUTED (known finding, pinned by a test); labels by finite enumeration over tables regenerated from face.py/mesh.py (Props/C10.v); mesh suite; "
         "per-cell geometric-volume and label probes", "DESIGN.md 4 (C10)"),
 "C11": ("Tie also symbolic: the relevant builders are traced on symbolic inputs and every traced entry is proved equal to the model's coefficient for all values (DESIGN 2.7). Theorems: constants, linear exactness on any spacing, donor-cell rule (generic field); over R: every mean lies between its two neighbours and "
         "harmonic <= geometric <= arithmetic with the same width weights (weighted AM-GM from 1+x<=exp x) (Props/C11.v); means suite on all classes incl. "
         "zeros; probes incl. geometricMean closed form and a donor-cell reference for upwindMean; linearMean, arithmeticMean, harmonicMean (all non-zero data) and upwindMean (three sign patterns) are in the symbolic tie", "DESIGN.md 4 (C11)"),
 "C14": ("Storage-level model Model/Algebra.v; theorems by induction over expression trees of any depth: no operator writes a pre-existing array, results "
         "of operator applications are fresh arrays (value, ghosts, every BC array), results carry the boundary conditions of the left-most variable leaf, "
         "copy() is equal and fresh; operator table regenerated from cell.py/face.py has every reflected form (Props/C14.v). Elementwise numerics are numpy's: "
         "the algebra suite checks values, snapshots, np.shares_memory alias graph and later cross-modification on the implementation (assurance mainly from it)", "DESIGN.md 4 (C14)"),
 "C15": ("Write effects of all 26 public builders/solvers are extracted statically from the source on every run (view/alias analysis, call-graph fixpoint) and "
         "proved equal to the documented ones by finite enumeration (only solvePDE writes, only its solution variable; solveExplicitPDE may refresh boundary values "
         "of its input) (Props/C15.v); purity in the functional model is by construction; the purity suite measures snapshots, bit-identical repeats and aliasing "
         "on the implementation (assurance mainly from it)", "DESIGN.md 4 (C15)"),
 "C16": ("Finite enumerations (proofs by computation over finite domains, lifted with forallb_forall / case analysis) over tables REGENERATED from the source: "
         "6 labels x 9 classes x get/set (+CellProp), periodic flags on radial boundaries raise ValueError and no other flag does, the term-kind chain of "
         "solvePDE yields TypeError exactly for non-conforming terms (Props/C16.v); every table row plus shapes, arities 0..7 and BoundaryFace types is executed on the implementation", "DESIGN.md 4 (C16)"),
 "C17": ("Tie also symbolic: the relevant builders are traced on symbolic inputs and every traced entry is proved equal to the model's coefficient for all values (DESIGN 2.7). Theorems: under a change of the length unit every diffusion/central/upwind stencil coefficient of the rescaled problem is 1/T times the original, "
         "boundary a/h unchanged, ghost values scale with K, linearity in coefficient fields; and at solution level: if x solves the system of (mesh, bc, terms) "
         "then K*x solves the system of the rescaled data, for every class and term list incl. periodic and corner rows (C17_solution_scales, Props/C17.v). "
         "TVD vectors enter as data scaled K/T; that the TVD vector scales so is C17_tvd_rows_scale (any limiter, any guard commuting with the unit change on the gradients that occur; the code's guard does above its absolute threshold in both unit systems: C17_guard_commutes_above_threshold; the code's TVD vector is tied to the model symbolically). Probe: "
         "two unit systems over +-6 decades, also with D = harmonicMean(k); homogeneity of the means", "DESIGN.md 4 (C17)"),
 "C12": ("Tie also symbolic: the relevant builders are traced on symbolic inputs and every traced entry is proved equal to the model's coefficient for all values (DESIGN 2.7). Theorems: backward-Euler row identity, steady <-> fixed point for every dt and alpha, increment identity behind dt->0/inf, explicit step "
         "definition; over R on every class and dimension (diffusion D>=0, upwind with divergence-free u, sink): |step - steady| <= W*A/(A+dt*B) (beta>=B>0), |step - old| <= dt*P/a0, |implicit - explicit| <= dt^2*Q/a0, and the epsilon-forms of both limits (Props/C12.v). Not covered by theorems: dt->inf with beta = 0, central advection. Suites solve/explicit; dt sweeps over 12 decades, multi-step and explicit update_value loops on the real code", "DESIGN.md 4 (C12)"),
 "C13": ("Theorems about the limiter definitions REGENERATED from utilities.fluxLimiter / advection._fsign on every run (published closed form "
         "for every real r, all denominators non-zero, psi(1)=1, 0<=psi<=min(2r,4), clipping, fallback, _fsign never 0, |_fsign(x)| >= eps1 with the sign of x so that every gradient ratio a/_fsign(x) is bounded by |a|/eps1), translator sanity at Qc "
         "inside Coq, symbolic tie of the ratios the TVD code forms (a/_fsign(face gradient)) and a search on the real code. BINARY64 LEVEL: the regenerated definitions are also evaluated with Coq's primitive floats (IEEE 754 binary64) and compared bit for bit with numpy (incl. denormals and the overflow region); on Flocq's specification of primitive floats it is proved that all 16 limiters, the unknown-name fallback and _fsign are finite (no overflow, no invalid operation) for every float |r| <= 2^500 (C13_float_finite_up_to_2p500: all 16 names and the fallback, every finite guard 0 < eps <= 1; C13_float_finite_partial gives the value bound 2^1002 for 12 of them), the guard _fsign is exact in binary64 (returns x, eps1 or -eps1, magnitude >= eps1: C13_float_fsign_exact) so that the ratio and FL(ratio) are finite floats for face gradients up to 2^400 (C13_float_limited_ratio_finite); the full statement is refuted beyond 2^512 by evaluation (C13_float_overflow_refuted; known finding c13:float_overflow)", "DESIGN.md 2.1, 4 (C13)"),
}
props = [json.loads(l) for l in open(os.path.join(V, "properties.jsonl"))]
old = {}
man = {"version": 1, "setup_cmd": "bin/setup",
       "hooks": {"guard": "PYFVTOOL_VERIF",
                 "enable": "no instrumentation of /repo is needed; every observable is reachable from the harness (PYTHONPATH=/repo/src)",
                 "baseline_off_cmd": "cd /repo && /venv/bin/python -m pytest -ra -q -p no:cacheprovider --timeout=900 --continue-on-collection-errors",
                 "source_commits": [], "add_only": True},
       "engines": [{"name": "coq-proof+correspondence", "path": "bin/check", "serves_properties": sorted(CLAIMS),
                    "kind_free_text": "Coq 8.16 theorems over a generic-field model + translators regenerating model parts from /repo + correspondence evaluated inside Coq (vm_compute at Qc) + search on the implementation"}],
       "checks": [], "notes": "see DESIGN.md; known findings in known_findings.jsonl", "not_applicable": []}
for p in props:
    i = p["id"]
    if i in CLAIMS:
        txt, ref = CLAIMS[i]
        man["checks"].append({"property_id": i, "quick_cmd": f"bin/check {i} --tier quick", "thorough_cmd": f"bin/check {i} --tier thorough",
                              "evidence_file": f"evidence/{i}.json", "replay_cmd_template": f"bin/check {i} --replay {{path}}",
                              "engine": "coq-proof+correspondence",
                              "level_claimed": {"category": "proof", "text": txt, "design_ref": ref},
                              "level_note": TB, "technique": "machine-checked proof in Coq (theorems over a model) + correspondence/translation tie to the code"})
    else:
        man["not_applicable"].append({"property_id": i, "reason": "check not built yet (work in progress, planned in DESIGN.md section 4); not a claim that the technique cannot apply"})
json.dump(man, open(os.path.join(V, "MANIFEST.json"), "w"), indent=1)
print("claimed:", sorted(CLAIMS))
