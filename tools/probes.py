"""Direct evaluation of a property's observable on the real implementation (the 'search' of DESIGN 2.5).
Each probe returns the number of evaluations; violations are registered on ctx with a concrete replay."""
import random
import numpy as np
import gen
from common import rel, volumes, interior_slices, full_shape

TOL = 1e-9


def fmul(pf, mesh, A, B):
    return pf.FaceVariable(mesh, A._xvalue * B._xvalue, A._yvalue * B._yvalue if A._yvalue.size else np.array([]),
                           A._zvalue * B._zvalue if A._zvalue.size else np.array([]))


def lab(cname, fs, **kw):
    d = {"cls": cname, "faces": [list(map(float, f)) for f in fs]}
    for k, v in kw.items():
        d[k] = v.tolist() if isinstance(v, np.ndarray) else ([a.tolist() for a in v] if isinstance(v, tuple) else v)
    return d


def cases(ctx, pf, tag, reps_q=4, reps_t=25, uniform=False, nmin=1, nmax_q=3, nmax_t=5, classes=None):
    rng = random.Random(f"{tag}-{ctx.seed}")
    reps = reps_q if ctx.tier == "quick" else reps_t
    for cname in (classes or gen.CLASSES):
        for k in range(reps):
            fs = gen.mesh_case(rng, cname, nmax=(nmax_q if ctx.tier == "quick" else nmax_t), uniform=uniform, nmin=nmin)
            yield rng, cname, fs, gen.build_mesh(pf, cname, fs)


def interior_of(mesh, v):
    return np.asarray(v).reshape(full_shape(mesh))[interior_slices(len(mesh.dims))]


def probe_c05(ctx, pf):
    n = 0
    for rng, cname, fs, mesh in cases(ctx, pf, "c05"):
        ph = gen.cell_array(rng, mesh)
        phi = pf.CellVariable(mesh, ph)
        v = phi._value.ravel()
        Da = gen.face_arrays(rng, mesh, lo=0.0, hi=3.0)
        ua = gen.face_arrays(rng, mesh)
        D = pf.FaceVariable(mesh, *Da); u = pf.FaceVariable(mesh, *ua)
        wa = tuple(np.where(a == 0, 0.0, np.sign(np.cos(7 * a + 1))) if a.size else a for a in ua)
        w = pf.FaceVariable(mesh, *wa)
        with np.errstate(all="ignore"):
            checks = [
                ("diffusionTerm vs divergenceTerm(D*gradientTerm)", pf.diffusionTerm(D) @ v,
                 pf.divergenceTerm(fmul(pf, mesh, D, pf.gradientTerm(phi)))),
                ("convectionTerm vs divergenceTerm(u*linearMean)", pf.convectionTerm(u) @ v,
                 pf.divergenceTerm(fmul(pf, mesh, u, pf.linearMean(phi)))),
                ("convectionUpwindTerm vs divergenceTerm(u*upwindMean)", pf.convectionUpwindTerm(u) @ v,
                 pf.divergenceTerm(fmul(pf, mesh, u, pf.upwindMean(phi, u)))),
                ("convectionUpwindTerm(u,u_upwind) vs divergenceTerm(u*upwindMean(phi,u_upwind))",
                 pf.convectionUpwindTerm(u, w) @ v, pf.divergenceTerm(fmul(pf, mesh, u, pf.upwindMean(phi, w)))),
                ("TVD correction with zero limiter", pf.convectionTVDupwindRHSTerm(u, phi, lambda r: 0.0 * r),
                 np.zeros(v.size)),
            ]
        for what, a, b in checks:
            n += 1
            e = rel(interior_of(mesh, a), interior_of(mesh, b))
            if not e <= TOL:
                ctx.violation(f"c05:{cname}:{what}", f"{cname}: {what}: max relative deviation {e:.3g}",
                              lab(cname, fs, D=Da, u=ua, u_upwind=wa, phi_with_ghosts=phi._value, what=what))
    # unit limiter on uniform grids
    for rng, cname, fs, mesh in cases(ctx, pf, "c05u", uniform=True):
        ph = gen.cell_array(rng, mesh)
        phi = pf.CellVariable(mesh, ph); v = phi._value.ravel()
        ua = gen.face_arrays(rng, mesh); u = pf.FaceVariable(mesh, *ua)
        with np.errstate(all="ignore"):
            a = pf.convectionUpwindTerm(u) @ v - pf.convectionTVDupwindRHSTerm(u, phi, lambda r: 1.0 + 0.0 * r)
            b = pf.convectionTerm(u) @ v
        n += 1
        e = rel(interior_of(mesh, a), interior_of(mesh, b))
        if not e <= TOL:
            ctx.violation(f"c05:{cname}:unit-limiter", f"{cname}: upwind - TVD(unit limiter) != central on a uniform grid: {e:.3g}",
                          lab(cname, fs, u=ua, phi_with_ghosts=phi._value))
    # known finding: u_upwind exactly zero on a face where u is not
    m = pf.Grid1D(np.array([0., 1., 2., 3., 4.]))
    u = pf.FaceVariable(m, 1.0)
    w = pf.FaceVariable(m, np.array([1., 1., 0., 1., 1.]), np.array([]), np.array([]))
    phi = pf.CellVariable(m, np.array([1., 2., 4., 8., 16., 32.]))
    a = (pf.convectionUpwindTerm(u, w) @ phi._value)[1:-1]
    b = pf.divergenceTerm(fmul(pf, m, u, pf.upwindMean(phi, w)))[1:-1]
    n += 1
    if rel(a, b) > TOL:
        ctx.violation("c05:zero_u_upwind", "convectionUpwindTerm(u, u_upwind) counts a face flux twice where u_upwind == 0 but u != 0",
                      {"cls": "Grid1D", "faces": [[0, 1, 2, 3, 4]], "u": 1.0, "u_upwind": [1, 1, 0, 1, 1],
                       "phi_with_ghosts": [1, 2, 4, 8, 16, 32], "matrix_form": a.tolist(), "chain": b.tolist()})
    return n


def probe_c06(ctx, pf):
    n = 0
    for rng, cname, fs, mesh in cases(ctx, pf, "c06"):
        cval = rng.choice([1.0, -2.5, 3.0, 0.75])
        v = np.full(int(np.prod(full_shape(mesh))), cval)
        phi = pf.CellVariable(mesh, v.reshape(full_shape(mesh)))
        Da = gen.face_arrays(rng, mesh, lo=0.0, hi=3.0); ua = gen.face_arrays(rng, mesh)
        D = pf.FaceVariable(mesh, *Da); u = pf.FaceVariable(mesh, *ua)
        FL = pf.fluxLimiter(rng.choice(["SUPERBEE", "Koren", "VanLeer", "CHARM"]))
        with np.errstate(all="ignore"):
            divu = cval * pf.divergenceTerm(u)
            checks = [("diffusionTerm of a constant", pf.diffusionTerm(D) @ v, 0 * v),
                      ("convectionTerm of a constant", pf.convectionTerm(u) @ v, divu),
                      ("convectionUpwindTerm of a constant", pf.convectionUpwindTerm(u) @ v, divu),
                      ("TVD-corrected advection of a constant",
                       pf.convectionUpwindTerm(u) @ v - pf.convectionTVDupwindRHSTerm(u, phi, FL), divu)]
        for what, a, b in checks:
            n += 1
            e = rel(interior_of(mesh, a), interior_of(mesh, b))
            if not e <= TOL:
                ctx.violation(f"c06:{cname}:{what}", f"{cname}: {what} is not c*div(u): deviation {e:.3g}",
                              lab(cname, fs, D=Da, u=ua, c=cval, what=what))
        # sources act cell-locally: beta*phi = gamma alone gives gamma/beta
        beta = pf.CellVariable(mesh, np.abs(gen.cell_array(rng, mesh)) + 0.5)
        gamma = pf.CellVariable(mesh, gen.cell_array(rng, mesh))
        x = pf.CellVariable(mesh, 0.0)
        try:
            pf.solvePDE(x, [pf.linearSourceTerm(beta), pf.constantSourceTerm(gamma)])
            got = x.value; want = gamma.value / beta.value
            n += 1
            if rel(got, want) > TOL:
                ctx.violation(f"c06:{cname}:source", f"{cname}: beta*phi=gamma alone does not give gamma/beta",
                              lab(cname, fs, beta=beta._value, gamma=gamma._value))
        except Exception as ex:
            ctx.violation(f"c06:{cname}:source-raise", f"{cname}: solvePDE with sources only raised {type(ex).__name__}: {ex}", lab(cname, fs))
    return n


def inner_columns(mesh):
    """flat indices of cells at least 2 away from every boundary along each axis"""
    dims = [int(k) for k in mesh.dims]
    if any(k < 3 for k in dims):
        return []
    shape = full_shape(mesh)
    G = np.arange(int(np.prod(shape))).reshape(shape)
    return G[tuple(slice(2, -2) for _ in dims)].ravel().tolist()


def probe_c01(ctx, pf):
    """interior faces cancel: for fields supported away from the boundary the V-weighted sum of every
    flux-form term vanishes; closed systems keep domainIntegral under implicit and explicit steps"""
    n = 0
    for rng, cname, fs, mesh in cases(ctx, pf, "c01", nmin=3, nmax_q=4, nmax_t=6):
        cols = inner_columns(mesh)
        if not cols:
            continue
        V = volumes(pf, mesh, cname)
        shape = full_shape(mesh); d = len(shape)
        ph = np.zeros(int(np.prod(shape)))
        for cidx in cols:
            ph[cidx] = gen.dy(rng, -2, 2, 4, 0.0) or 1.0
        phi = pf.CellVariable(mesh, ph.reshape(shape)); v = phi._value.ravel()
        Da = gen.face_arrays(rng, mesh, lo=0.0, hi=3.0); ua = gen.face_arrays(rng, mesh)
        D = pf.FaceVariable(mesh, *Da); u = pf.FaceVariable(mesh, *ua)
        FL = pf.fluxLimiter(rng.choice(["SUPERBEE", "Koren", "VanLeer", "MinMod"]))
        with np.errstate(all="ignore"):
            terms = [("diffusionTerm", pf.diffusionTerm(D) @ v), ("convectionTerm", pf.convectionTerm(u) @ v),
                     ("convectionUpwindTerm", pf.convectionUpwindTerm(u) @ v),
                     ("divergenceTerm(D*gradientTerm)", pf.divergenceTerm(fmul(pf, mesh, D, pf.gradientTerm(phi))))]
            if all(int(k) >= 5 for k in mesh.dims):
                # TVD stencil is two cells wide: use a field supported 3 cells away from the boundary
                ph2 = np.zeros(shape); ph2[tuple(slice(3, -3) for _ in shape)] = 1.5
                phi2 = pf.CellVariable(mesh, ph2)
                terms.append(("convectionTVDupwindRHSTerm", pf.convectionTVDupwindRHSTerm(u, phi2, FL)))
        for what, t in terms:
            n += 1
            tot = float(np.sum(V * interior_of(mesh, t)))
            scale = float(np.sum(np.abs(V * interior_of(mesh, t)))) + 1e-300
            if abs(tot) > 1e-9 * scale + 1e-12:
                ctx.violation(f"c01:{cname}:{what}",
                              f"{cname}: {what}: interior face fluxes do not cancel (volume-weighted sum {tot:.6g}, scale {scale:.3g})",
                              lab(cname, fs, D=Da, u=ua, phi_with_ghosts=phi._value, what=what))
    return n


# ------------------------------------------------------------------ C03 / C04 / C12
SIDES = [("left", "right"), ("bottom", "top"), ("back", "front")]


def metric_h(mesh, cname, ax, hi):
    """distance factor h of the ghost-to-inner difference quotient on the faces normal to axis ax (array over the face)"""
    d = len(mesh.dims)
    cs = [mesh.cellsize._x, mesh.cellsize._y, mesh.cellsize._z][ax]
    dx = cs[-1] if hi else cs[0]
    shape = [int(n) for n in mesh.dims]
    tshape = [shape[i] for i in range(d) if i != ax]
    h = np.full(tshape if tshape else (1,), float(dx))
    if cname in ("PolarGrid2D",) and ax == 1:
        h = dx * mesh.cellcenters._x
    if cname in ("CylindricalGrid3D", "SphericalGrid3D") and ax == 1:
        h = dx * mesh.cellcenters._x[:, None] * np.ones(tshape)
    if cname == "SphericalGrid3D" and ax == 2:
        h = dx * mesh.cellcenters._x[:, None] * np.sin(mesh.cellcenters._y)[None, :]
    return h


def robin_residual(pf, mesh, cname, var):
    """max relative residual of a*dphi/dn + b*phi = c over all non-periodic boundary faces, and of the wrap on periodic axes"""
    d = len(mesh.dims)
    v = np.asarray(var._value, dtype=float)
    worst = 0.0; where = None
    for ax in range(d):
        lo, hi = getattr(var.BCs, SIDES[ax][0]), getattr(var.BCs, SIDES[ax][1])
        periodic = lo.periodic or hi.periodic
        inner = tuple(slice(1, -1) if i != ax else None for i in range(d))
        def take(k):
            idx = tuple(slice(1, -1) if i != ax else k for i in range(d))
            return v[idx]
        N = int(mesh.dims[ax])
        if periodic:
            e = max(rel(take(0), take(N)), rel(take(N + 1), take(1)))
            if e > worst:
                worst, where = e, f"periodic wrap axis {ax}"
            continue
        for side, face, g, i_, sgn in ((0, lo, 0, 1, 1.0), (1, hi, N + 1, N, 1.0)):
            a = np.asarray(face.a, dtype=float).reshape(take(g).shape) if take(g).shape != () else float(np.asarray(face.a).ravel()[0])
            b = np.asarray(face.b, dtype=float).reshape(take(g).shape) if take(g).shape != () else float(np.asarray(face.b).ravel()[0])
            c = np.asarray(face.c, dtype=float).reshape(take(g).shape) if take(g).shape != () else float(np.asarray(face.c).ravel()[0])
            h = metric_h(mesh, cname, ax, side == 1)
            h = np.asarray(h).reshape(take(g).shape) if take(g).shape != () else float(np.asarray(h).ravel()[0])
            if side == 1:
                dq = (take(g) - take(i_)) / h
            else:
                dq = (take(i_) - take(g)) / h
            lhs = a * dq + b * 0.5 * (take(g) + take(i_))
            sc = 1.0 + np.max(np.abs(a * dq)) + np.max(np.abs(b * take(g))) + np.max(np.abs(c))
            e = float(np.max(np.abs(lhs - c)) / sc)
            if e > worst:
                worst, where = e, f"{SIDES[ax][side]}"
    return worst, where


def probe_c03(ctx, pf):
    from suites.bcsuite import set_random_bcs, bc_label
    from scipy.sparse.linalg import spsolve
    n = 0
    for rng, cname, fs, mesh in cases(ctx, pf, "c03", reps_q=5, reps_t=30):
        d = len(mesh.dims)
        BC, desc, per = set_random_bcs(rng, mesh, cname)
        inner = gen.cell_array(rng, mesh)[interior_slices(d)]
        L = lab(cname, fs, bc=bc_label(BC, d), kinds=desc, phi_interior=inner)
        try:
            with np.errstate(all="ignore"):
                phi = pf.CellVariable(mesh, inner, BC)
                stages = [("construction", phi)]
                phi2 = phi.copy(); phi2.value = phi2.value * 2.0 + 1.0; phi2.apply_BCs()
                stages.append(("apply_BCs", phi2))
                D = pf.FaceVariable(mesh, 1.0)
                spy = {}
                def solver(M, R):
                    spy["x"] = spsolve(M, R); return spy["x"]
                phi3 = phi.copy()
                pf.solvePDE(phi3, [pf.transientTerm(phi3, 0.5, 1.0), -pf.diffusionTerm(D)], externalsolver=solver)
                stages.append(("solvePDE", phi3))
                rhs = pf.divergenceTerm(fmul(pf, mesh, D, pf.gradientTerm(phi)))
                phi4 = pf.solveExplicitPDE(phi, 0.01, rhs)
                stages.append(("solveExplicitPDE", phi4))
        except Exception as ex:
            ctx.violation(f"c03:{cname}:raise", f"{cname}: {type(ex).__name__} while applying boundary conditions: {ex}", L)
            continue
        for what, var in stages:
            n += 1
            if not np.all(np.isfinite(var._value)):
                continue
            e, where = robin_residual(pf, mesh, cname, var)
            if e > 1e-8:
                ctx.violation(f"c03:{cname}:{what}", f"{cname}: after {what} the stored boundary values violate the configured condition on {where} (residual {e:.3g})",
                              dict(L, stage=what, where=where))
        # solver ghosts vs reported ghosts (mutual consistency)
        raw = np.asarray(spy["x"]).reshape(phi3._value.shape)
        rep = np.asarray(phi3._value)
        for ax in range(d):
            N = int(mesh.dims[ax])
            for g in (0, N + 1):
                idx = tuple(slice(1, -1) if i != ax else g for i in range(d))
                n += 1
                e = rel(raw[idx], rep[idx])
                if e > 1e-8:
                    cs = [mesh.cellsize._x, mesh.cellsize._y, mesh.cellsize._z][ax]
                    if per[ax] and abs(cs[0] - cs[-1]) > 1e-14:
                        ctx.violation("c03:periodic_nonuniform",
                                      "on a periodic axis whose two end cells differ in size the solver's periodic rows (gradient matching) and the reported wrap-copy ghost values differ",
                                      dict(L, axis=ax, solver_ghost=np.asarray(raw[idx]).tolist(), reported_ghost=np.asarray(rep[idx]).tolist()))
                    else:
                        ctx.violation(f"c03:{cname}:solver-vs-reported", f"{cname}: ghost values used by the solver and reported after solvePDE differ on axis {ax} (rel {e:.3g})",
                                      dict(L, axis=ax))
    return n


def probe_c04(ctx, pf):
    from suites.bcsuite import set_random_bcs, bc_label
    from scipy.sparse.linalg import spsolve
    n = 0
    for rng, cname, fs, mesh in cases(ctx, pf, "c04", reps_q=4, reps_t=25):
        d = len(mesh.dims)
        BC, desc, per = set_random_bcs(rng, mesh, cname)
        inner = gen.cell_array(rng, mesh)[interior_slices(d)]
        L = lab(cname, fs, bc=bc_label(BC, d), kinds=desc, phi_interior=inner)
        with np.errstate(all="ignore"):
            phi = pf.CellVariable(mesh, inner, BC)
            D = pf.FaceVariable(mesh, *gen.face_arrays(rng, mesh, lo=0.0, hi=2.0))
            u = pf.FaceVariable(mesh, *gen.face_arrays(rng, mesh, lo=-1.0, hi=1.0))
            gam = pf.CellVariable(mesh, gen.cell_array(rng, mesh)[interior_slices(d)])
            Mt, Rt = pf.transientTerm(phi, 0.25, 1.0)
            Md = pf.diffusionTerm(D); Mu = pf.convectionUpwindTerm(u); Rg = pf.constantSourceTerm(gam)
            terms = [(Mt, Rt), -2.0 * Md, Mu, 0.5 * Rg]
            rng.shuffle(terms)
            spy = {}
            def solver(M, R):
                spy["M"], spy["R"] = M.copy(), R.copy(); return spsolve(M, R)
            Mbc, Rbc = pf.boundaryConditionsTerm(BC)
            ret = pf.solvePDE(phi, terms, externalsolver=solver)
            Mh = Mbc + Mt - 2.0 * Md + Mu; Rh = Rbc + Rt + 0.5 * Rg
        n += 3
        if ret is not phi:
            ctx.violation(f"c04:{cname}:identity", f"{cname}: solvePDE does not return the variable it was given", L)
        if abs(spy["M"] - Mh).max() > 1e-9 * (1 + abs(Mh).max()) or rel(spy["R"], Rh) > 1e-9:
            ctx.violation(f"c04:{cname}:external-system", f"{cname}: the external solver received a different system than sum(terms)+BC terms", L)
        # terms touch interior rows only / BC term touches boundary rows only
        shape = full_shape(mesh)
        G = np.arange(int(np.prod(shape))).reshape(shape)
        inter = set(G[interior_slices(d)].ravel().tolist())
        for nm, Mx in (("transient", Mt), ("diffusion", Md), ("upwind", Mu)):
            rows = set(np.unique(Mx.tocoo().row[Mx.tocoo().data != 0]).tolist())
            if not rows <= inter:
                ctx.violation(f"c04:{cname}:{nm}-rows", f"{cname}: {nm} term has entries in boundary rows", L)
        rows = set(np.unique(Mbc.tocoo().row[Mbc.tocoo().data != 0]).tolist())
        if rows & inter:
            ctx.violation(f"c04:{cname}:bc-rows", f"{cname}: boundary term has entries in interior rows", L)
        with np.errstate(all="ignore"):
            ref = pf.solveMatrixPDE(mesh, Mh, Rh)
        if np.all(np.isfinite(ref._value)) and np.max(np.abs(ref._value)) < 1e6:
            n += 1
            if rel(ref.value, ret.value) > 1e-8:
                ctx.violation(f"c04:{cname}:solveMatrixPDE", f"{cname}: solvePDE and solveMatrixPDE on the hand-assembled system differ", L)
    return n


def probe_c12(ctx, pf):
    from suites.bcsuite import set_random_bcs, bc_label
    n = 0
    for rng, cname, fs, mesh in cases(ctx, pf, "c12", reps_q=3, reps_t=20):
        d = len(mesh.dims)
        BC, desc, per = set_random_bcs(rng, mesh, cname, allow_periodic=False, kinds=["dirichlet", "robin", "dirichlet"])
        inner = gen.cell_array(rng, mesh)[interior_slices(d)]
        L = lab(cname, fs, bc=bc_label(BC, d), kinds=desc, phi_interior=inner)
        with np.errstate(all="ignore"):
            D = pf.FaceVariable(mesh, *[np.abs(a) + 0.25 for a in gen.face_arrays(rng, mesh, lo=0.0, hi=2.0)])
            u = pf.FaceVariable(mesh, *gen.face_arrays(rng, mesh, lo=-1.0, hi=1.0))
            beta = pf.CellVariable(mesh, np.abs(gen.cell_array(rng, mesh))[interior_slices(d)] + 0.5)
            gam = pf.CellVariable(mesh, gen.cell_array(rng, mesh)[interior_slices(d)])
            spatial = [-pf.diffusionTerm(D), pf.convectionUpwindTerm(u), pf.linearSourceTerm(beta), pf.constantSourceTerm(gam)]
            st = pf.CellVariable(mesh, inner, BC)
            pf.solvePDE(st, spatial)
            steady = np.array(st._value)
            if not np.all(np.isfinite(steady)) or np.max(np.abs(steady)) > 1e6:
                continue
            decades = range(-6, 7, 3) if ctx.tier == "quick" else range(-6, 7)
            for e in decades:
                dt = 10.0 ** e
                alpha = rng.choice([1.0, 2.5, pf.CellVariable(mesh, np.abs(gen.cell_array(rng, mesh))[interior_slices(d)] + 0.5)])
                x = pf.CellVariable(mesh, np.array(st.value), BC)
                pf.solvePDE(x, [pf.transientTerm(x, dt, alpha)] + spatial)
                n += 1
                if rel(x._value, steady) > 1e-7:
                    ctx.violation(f"c12:{cname}:fixed-point", f"{cname}: a steady solution is not reproduced by a transient step with dt={dt:g}", dict(L, dt=dt))
                    break
            # dt -> infinity gives the steady state, dt -> 0 the old field
            x = pf.CellVariable(mesh, inner, BC)
            pf.solvePDE(x, [pf.transientTerm(x, 1e12, 1.0)] + spatial)
            n += 1
            if rel(x.value, st.value) > 1e-6:
                ctx.violation(f"c12:{cname}:dt-inf", f"{cname}: a step with dt=1e12 does not return the steady solution", L)
            x = pf.CellVariable(mesh, inner, BC)
            pf.solvePDE(x, [pf.transientTerm(x, 1e-12, 1.0)] + spatial)
            n += 1
            if rel(x.value, inner) > 1e-6:
                ctx.violation(f"c12:{cname}:dt-zero", f"{cname}: a step with dt=1e-12 does not return the old field", L)
            # explicit step
            old = pf.CellVariable(mesh, inner, BC)
            before = np.array(old._value)
            rhs = pf.divergenceTerm(fmul(pf, mesh, D, pf.gradientTerm(old))) - pf.convectionUpwindTerm(u) @ old._value.ravel() \
                - pf.linearSourceTerm(beta) @ old._value.ravel() + pf.constantSourceTerm(gam)
            dt = 1e-3
            new = pf.solveExplicitPDE(old, dt, rhs)
            want = before[interior_slices(d)] + dt * rhs.reshape(before.shape)[interior_slices(d)]
            n += 2
            if rel(new.value, want) > 1e-10:
                ctx.violation(f"c12:{cname}:explicit", f"{cname}: solveExplicitPDE is not old + dt*RHS on interior cells", dict(L, dt=dt))
            if not np.array_equal(before, old._value):
                ctx.violation(f"c12:{cname}:explicit-input", f"{cname}: solveExplicitPDE modified its input variable", L)
            # explicit vs implicit: O(dt^2)
            errs = []
            Ssum = -spatial[0] + spatial[1] + spatial[2]
            normS = float(abs(Ssum).max()) + 1.0
            for dt in (1e-2 / normS, 5e-3 / normS):
                xi = pf.CellVariable(mesh, inner, BC)
                pf.solvePDE(xi, [pf.transientTerm(xi, dt, 1.0)] + spatial)
                xe = pf.solveExplicitPDE(old, dt, rhs)
                errs.append(float(np.max(np.abs(xi.value - xe.value))))
            n += 1
            if errs[0] > 1e-9 and errs[1] > errs[0] / 2.8:
                ctx.violation(f"c12:{cname}:imp-exp-order", f"{cname}: implicit and explicit steps do not agree to O(dt^2): differences {errs}", L)
    return n


# ------------------------------------------------------------------ C10
COORD_SYSTEM = {"Grid1D": ["x"], "CylindricalGrid1D": ["r"], "SphericalGrid1D": ["r"], "Grid2D": ["x", "y"],
                "CylindricalGrid2D": ["r", "z"], "PolarGrid2D": ["r", "theta"], "Grid3D": ["x", "y", "z"],
                "CylindricalGrid3D": ["r", "theta", "z"], "SphericalGrid3D": ["r", "theta", "phi"]}
ALL_LABELS = ["x", "y", "z", "r", "theta", "phi"]


def geometric_volume(cname, fs):
    f = [np.asarray(x, dtype=float) for x in fs]
    d0 = np.diff(f[0])
    r2 = np.diff(f[0] ** 2) / 2.0
    r3 = np.diff(f[0] ** 3) / 3.0
    if cname == "Grid1D": return d0
    if cname == "CylindricalGrid1D": return r2 * 2 * np.pi
    if cname == "SphericalGrid1D": return r3 * 2.0 * 2 * np.pi
    d1 = np.diff(f[1])
    if cname == "Grid2D": return d0[:, None] * d1[None, :]
    if cname == "CylindricalGrid2D": return (r2 * 2 * np.pi)[:, None] * d1[None, :]
    if cname == "PolarGrid2D": return r2[:, None] * d1[None, :]
    d2 = np.diff(f[2])
    if cname == "Grid3D": return d0[:, None, None] * d1[None, :, None] * d2[None, None, :]
    if cname == "CylindricalGrid3D": return r2[:, None, None] * d1[None, :, None] * d2[None, None, :]
    dc = -np.diff(np.cos(f[1]))
    return r3[:, None, None] * dc[None, :, None] * d2[None, None, :]


def probe_c10(ctx, pf):
    n = 0
    for rng, cname, fs, mesh in cases(ctx, pf, "c10", reps_q=6, reps_t=40, nmax_q=4, nmax_t=7):
        V = np.asarray(mesh.cellvolume, dtype=float)
        G = geometric_volume(cname, fs)
        n += 3
        L = lab(cname, fs)
        if V.shape != G.shape or not np.all(V > 0):
            ctx.violation(f"c10:{cname}:positive", f"{cname}: cellvolume has wrong shape or non-positive entries", L)
            continue
        e = float(np.max(np.abs(V - G) / G))
        if e > 1e-12:
            if cname == "SphericalGrid3D":
                ctx.violation("c10:S3_volume", "SphericalGrid3D.cellvolume uses dtheta/pi instead of (cos th1 - cos th2)/2", dict(L, rel_dev=e))
            else:
                ctx.violation(f"c10:{cname}:volume", f"{cname}: cellvolume differs from the geometric cell volume (max rel {e:.3g})", L)
        # geometry accessors
        d = len(fs)
        fc = [mesh.facecenters._x, mesh.facecenters._y, mesh.facecenters._z]
        cc = [mesh.cellcenters._x, mesh.cellcenters._y, mesh.cellcenters._z]
        cs = [mesh.cellsize._x, mesh.cellsize._y, mesh.cellsize._z]
        for a in range(d):
            f = np.asarray(fs[a], dtype=float)
            ok = (np.array_equal(fc[a], f) and np.allclose(cc[a], 0.5 * (f[1:] + f[:-1]), rtol=1e-15, atol=0)
                  and np.allclose(cs[a][1:-1], np.diff(f), rtol=1e-15, atol=0) and cs[a][0] == cs[a][1] and cs[a][-1] == cs[a][-2]
                  and int(mesh.dims[a]) == len(f) - 1)
            if not ok:
                ctx.violation(f"c10:{cname}:axis{a}", f"{cname}: faces / centres / sizes of axis {a} are not as specified", L)
        # labels: coordinates reachable exactly under the labels of the coordinate system
        for prop in (mesh.cellcenters, mesh.facecenters, mesh.cellsize):
            for l in ALL_LABELS:
                n += 1
                try:
                    v = getattr(prop, l); got = "ok"
                except AttributeError:
                    got = "AttributeError"
                except Exception as ex:
                    got = type(ex).__name__
                want = "ok" if l in COORD_SYSTEM[cname] else "AttributeError"
                if got == "ok" and want == "ok":
                    slot = COORD_SYSTEM[cname].index(l)
                    if v is not [prop._x, prop._y, prop._z][slot]:
                        got = "wrong-array"
                if got != want:
                    ctx.violation(f"c10:{cname}:label:{l}", f"{cname}: coordinate label '{l}' gives {got}, expected {want}", dict(L, label=l))
    return n


def probe_c01_steps(ctx, pf):
    """closed systems: domainIntegral() before/after implicit and explicit steps (no-flux walls with zero wall-normal
    velocity; periodic on non-radial axes with equal end cells)"""
    n = 0
    for rng, cname, fs, mesh in cases(ctx, pf, "c01s", reps_q=3, reps_t=15, nmin=2, nmax_q=3, nmax_t=5):
        d = len(mesh.dims)
        BC = pf.BoundaryConditions(mesh)   # default: no flux everywhere
        per_axes = []
        for ax in range(d):
            f = np.asarray(fs[ax]); dxs = np.diff(f)
            if gen.AXKIND[cname][ax] != "rad" and abs(dxs[0] - dxs[-1]) < 1e-14 and rng.random() < 0.5:
                getattr(BC, SIDES[ax][0]).periodic = True; getattr(BC, SIDES[ax][1]).periodic = True
                per_axes.append(ax)
        inner = np.abs(gen.cell_array(rng, mesh))[interior_slices(d)] + 0.25
        phi = pf.CellVariable(mesh, inner, BC)
        Da = list(gen.face_arrays(rng, mesh, lo=0.0, hi=2.0)); ua = list(gen.face_arrays(rng, mesh, lo=-1.0, hi=1.0))
        # zero wall-normal velocity on non-periodic boundaries; periodic: equal velocity on the two end faces
        for ax in range(d):
            a = ua[ax]
            lo = tuple(0 if i == ax else slice(None) for i in range(d)); hi = tuple(-1 if i == ax else slice(None) for i in range(d))
            if ax in per_axes:
                a[hi] = a[lo]; Da[ax][hi] = Da[ax][lo]   # the two end faces are one and the same physical face
            else:
                a[lo] = 0.0; a[hi] = 0.0
        D = pf.FaceVariable(mesh, *Da); u = pf.FaceVariable(mesh, *ua)
        if ax in per_axes:
            pass
        L = lab(cname, fs, D=tuple(Da), u=tuple(ua), phi_interior=inner, periodic_axes=per_axes)
        I0 = phi.domainIntegral()
        # upwind variant: zero normal velocity also on the periodic end faces (see known finding c01:upwind_periodic)
        uw = [a.copy() for a in ua]
        for ax in per_axes:
            lo = tuple(0 if i == ax else slice(None) for i in range(d)); hi = tuple(-1 if i == ax else slice(None) for i in range(d))
            uw[ax][lo] = 0.0; uw[ax][hi] = 0.0
        uW = pf.FaceVariable(mesh, *uw)
        variants = [("diffusion + central advection", lambda v: [-pf.diffusionTerm(D), pf.convectionTerm(u)],
                     lambda v: pf.divergenceTerm(fmul(pf, mesh, D, pf.gradientTerm(v))) - pf.divergenceTerm(fmul(pf, mesh, u, pf.linearMean(v)))),
                    ("diffusion + upwind advection", lambda v: [-pf.diffusionTerm(D), pf.convectionUpwindTerm(uW)],
                     lambda v: pf.divergenceTerm(fmul(pf, mesh, D, pf.gradientTerm(v))) - pf.divergenceTerm(fmul(pf, mesh, uW, pf.upwindMean(v, uW))))]
        for vname, mk, mkrhs in variants:
            with np.errstate(all="ignore"):
                x = phi.copy()
                for dt in (0.01, 1.0, 100.0):
                    pf.solvePDE(x, [pf.transientTerm(x, dt, 1.0)] + mk(x))
                I1 = x.domainIntegral()
                y = pf.solveExplicitPDE(phi, 1e-4, mkrhs(phi))
                I2 = y.domainIntegral()
            n += 2
            for what, I in ((f"three implicit solvePDE steps ({vname})", I1), (f"one solveExplicitPDE step ({vname})", I2)):
                if not abs(I - I0) <= 1e-9 * (abs(I0) + 1e-12):
                    if cname == "SphericalGrid3D":
                        ctx.violation("c01:S3_domainIntegral",
                                      "SphericalGrid3D: domainIntegral() (coded cellvolume) is not conserved by closed systems; the operators conserve the midpoint measure instead",
                                      dict(L, before=float(I0), after=float(I), what=what))
                    else:
                        ctx.violation(f"c01:{cname}:{what}", f"{cname}: domainIntegral changed from {float(I0)!r} to {float(I)!r} over {what} in a closed system",
                                      dict(L, before=float(I0), after=float(I), what=what, u_upwind_variant=[a.tolist() for a in uw]))
    # known finding: upwind advection through a periodic boundary is not conservative (inflow boundary faces use the face average)
    m1 = pf.Grid1D(np.array([0., 1., 2., 3.]))
    BC = pf.BoundaryConditions(m1); BC.left.periodic = True; BC.right.periodic = True
    phi = pf.CellVariable(m1, np.array([1.0, 2.0, 4.0]), BC)
    u1 = pf.FaceVariable(m1, 1.0)
    I0 = float(phi.domainIntegral())
    x = phi.copy(); pf.solvePDE(x, [pf.transientTerm(x, 0.5, 1.0), pf.convectionUpwindTerm(u1)])
    n += 1
    if abs(float(x.domainIntegral()) - I0) > 1e-9:
        ctx.violation("c01:upwind_periodic", "upwind advection across a periodic boundary with non-zero normal velocity does not conserve domainIntegral",
                      {"cls": "Grid1D", "faces": [[0, 1, 2, 3]], "u": 1.0, "phi_interior": [1, 2, 4], "dt": 0.5, "before": I0, "after": float(x.domainIntegral())})
    return n


# ------------------------------------------------------------------ C11
def probe_c11(ctx, pf):
    n = 0
    for rng, cname, fs, mesh in cases(ctx, pf, "c11", reps_q=4, reps_t=30):
        d = len(mesh.dims)
        shape = full_shape(mesh)
        pos = np.abs(gen.cell_array(rng, mesh, p0=0.0)) + 0.25
        phi = pf.CellVariable(mesh, pos)
        cs = [mesh.cellsize._x, mesh.cellsize._y, mesh.cellsize._z]
        L = lab(cname, fs, phi_with_ghosts=pos)
        with np.errstate(all="ignore"):
            means = {k: getattr(pf, k)(phi) for k in ("linearMean", "arithmeticMean", "geometricMean", "harmonicMean")}
        for ax in range(d):
            lo = tuple(slice(0, -1) if i == ax else slice(1, -1) for i in range(d))
            hi = tuple(slice(1, None) if i == ax else slice(1, -1) for i in range(d))
            a, b = pos[lo], pos[hi]
            mn, mx = np.minimum(a, b), np.maximum(a, b)
            vals = {k: [v._xvalue, v._yvalue, v._zvalue][ax] for k, v in means.items()}
            for k, v in vals.items():
                n += 1
                if v.shape != a.shape or not np.all(np.isfinite(v)) or np.any(v < mn * (1 - 1e-12)) or np.any(v > mx * (1 + 1e-12)):
                    ctx.violation(f"c11:{cname}:{k}:between", f"{cname}: {k} is not between the two adjacent cell values (axis {ax})", dict(L, axis=ax))
            n += 1
            if np.any(vals["harmonicMean"] > vals["geometricMean"] * (1 + 1e-12)) or np.any(vals["geometricMean"] > vals["arithmeticMean"] * (1 + 1e-12)):
                ctx.violation(f"c11:{cname}:HGA", f"{cname}: harmonic <= geometric <= arithmetic violated (axis {ax})", dict(L, axis=ax))
            # geometric mean closed form with the same width weights
            sh = [1] * d; sh[ax] = -1
            w = cs[ax].reshape(sh)
            w1 = w[tuple(slice(0, -1) if i == ax else slice(None) for i in range(d))]
            w2 = w[tuple(slice(1, None) if i == ax else slice(None) for i in range(d))]
            g = np.exp((w1 * np.log(a) + w2 * np.log(b)) / (w1 + w2))
            if rel(vals["geometricMean"], g) > 1e-12:
                ctx.violation(f"c11:{cname}:geometric", f"{cname}: geometricMean is not exp of the width-weighted mean of logs (axis {ax})", dict(L, axis=ax))
        # constants reproduced; zeros handled identically in every dimension
        cst = pf.CellVariable(mesh, np.full(shape, 2.5))
        for k in ("linearMean", "arithmeticMean", "geometricMean", "harmonicMean"):
            v = getattr(pf, k)(cst)
            n += 1
            for comp in (v._xvalue, v._yvalue, v._zvalue)[:d]:
                if not np.allclose(comp, 2.5, rtol=1e-13, atol=0):
                    ctx.violation(f"c11:{cname}:{k}:const", f"{cname}: {k} does not reproduce a constant field", L)
        z = pos.copy()
        z[tuple(rng.randrange(s) for s in shape)] = 0.0
        z[tuple(slice(None) if i else slice(0, 2) for i in range(d))] = 0.0     # two adjacent zeros along x
        zv = pf.CellVariable(mesh, z)
        with np.errstate(all="ignore"):
            for k in ("harmonicMean", "geometricMean"):
                v = getattr(pf, k)(zv)
                n += 1
                for ax, comp in enumerate((v._xvalue, v._yvalue, v._zvalue)[:d]):
                    lo = tuple(slice(0, -1) if i == ax else slice(1, -1) for i in range(d))
                    hi = tuple(slice(1, None) if i == ax else slice(1, -1) for i in range(d))
                    zero_face = (z[lo] == 0) | (z[hi] == 0)
                    if not np.all(np.isfinite(comp)) or np.any(comp[zero_face] != 0):
                        ctx.violation(f"c11:{cname}:{k}:zeros", f"{cname}: {k} with exact zeros in the data is not 0 / not finite on the affected faces (axis {ax})",
                                      dict(L, phi_with_ghosts=z, axis=ax))
        # linear fields reproduced at the face positions (Cartesian interpretation of each axis)
        for ax in range(d):
            f = np.asarray(fs[ax]); c = 0.5 * (f[1:] + f[:-1])
            cg = np.hstack([f[0] - 0.5 * (f[1] - f[0]), c, f[-1] + 0.5 * (f[-1] - f[-2])])
            sh = [1] * d; sh[ax] = -1
            lin = np.broadcast_to(1.5 + 0.75 * cg.reshape(sh), shape).copy()
            v = pf.linearMean(pf.CellVariable(mesh, lin))
            comp = (v._xvalue, v._yvalue, v._zvalue)[ax]
            want = np.broadcast_to(1.5 + 0.75 * f.reshape(sh), comp.shape)
            n += 1
            if rel(comp, want) > 1e-12:
                ctx.violation(f"c11:{cname}:linear-exact", f"{cname}: linearMean does not reproduce a linear field at the faces of axis {ax}", dict(L, axis=ax))
    return n


# ------------------------------------------------------------------ C17
LENGTHLIKE = {k: [x != "ang" and x != "pol" for x in v] for k, v in gen.AXKIND.items()}


def probe_c17(ctx, pf):
    from suites.bcsuite import set_random_bcs, bc_label
    n = 0
    for rng, cname, fs, mesh in cases(ctx, pf, "c17", reps_q=3, reps_t=20):
        d = len(mesh.dims)
        Lc = 10.0 ** rng.randint(-6, 6); Tc = 10.0 ** rng.randint(-6, 6); Kc = 10.0 ** rng.randint(-6, 6)
        fs2 = [np.asarray(f) * (Lc if LENGTHLIKE[cname][a] else 1.0) for a, f in enumerate(fs)]
        mesh2 = gen.build_mesh(pf, cname, fs2)
        BC, desc, per = set_random_bcs(rng, mesh, cname)
        BC2 = pf.BoundaryConditions(mesh2)
        for ax in range(d):
            for side in SIDES[ax]:
                f1, f2 = getattr(BC, side), getattr(BC2, side)
                f2.a[:] = np.asarray(f1.a) * Lc; f2.b[:] = np.asarray(f1.b); f2.c[:] = np.asarray(f1.c) * Kc
                f2.periodic = f1.periodic
        inner = gen.cell_array(rng, mesh)[interior_slices(d)]
        Da = gen.face_arrays(rng, mesh, lo=0.0, hi=2.0); ua = gen.face_arrays(rng, mesh, lo=-1.0, hi=1.0)
        be = np.abs(gen.cell_array(rng, mesh))[interior_slices(d)]; ga = gen.cell_array(rng, mesh)[interior_slices(d)]
        flname = rng.choice(["SUPERBEE", "Koren", "VanLeer", "MinMod"])
        L = lab(cname, fs, bc=bc_label(BC, d), kinds=desc, phi_interior=inner, D=Da, u=ua, beta=be, gamma=ga, L=Lc, T=Tc, K=Kc, limiter=flname)
        def run(mesh_, BC_, l, t, k):
            phi = pf.CellVariable(mesh_, inner * k, BC_)
            D = pf.FaceVariable(mesh_, *[a * l * l / t for a in Da]); u = pf.FaceVariable(mesh_, *[a * l / t for a in ua])
            beta = pf.CellVariable(mesh_, be / t); gamma = pf.CellVariable(mesh_, ga * k / t)
            FL = pf.fluxLimiter(flname)
            out = []
            for step in range(2):
                terms = [pf.transientTerm(phi, 0.25 * t, 1.0), -pf.diffusionTerm(D), pf.convectionUpwindTerm(u),
                         pf.convectionTVDupwindRHSTerm(u, phi, FL), pf.linearSourceTerm(beta), pf.constantSourceTerm(gamma)]
                pf.solvePDE(phi, terms)
                out.append(np.array(phi._value))
            phi_c = pf.CellVariable(mesh_, inner * k, BC_)
            pf.solvePDE(phi_c, [pf.transientTerm(phi_c, 0.25 * t, 1.0), pf.convectionTerm(u), -pf.diffusionTerm(D)])
            out.append(np.array(phi_c._value))
            return out
        try:
            with np.errstate(all="ignore"):
                r1 = run(mesh, BC, 1.0, 1.0, 1.0); r2 = run(mesh2, BC2, Lc, Tc, Kc)
        except Exception as ex:
            ctx.violation(f"c17:{cname}:raise", f"{cname}: {type(ex).__name__} in the rescaled problem: {ex}", L)
            continue
        for i, (a, b) in enumerate(zip(r1, r2)):
            if not np.all(np.isfinite(a)) or np.max(np.abs(a)) > 1e6:
                continue
            n += 1
            inner_a = a[interior_slices(d)]; inner_b = b[interior_slices(d)]
            # TVD: _fsign's absolute threshold 1e-16 is not unit-free; only compare when all gradients are far from it
            e = float(np.max(np.abs(inner_b / Kc - inner_a)) / (1.0 + np.max(np.abs(inner_a))))
            if e > 1e-7:
                ctx.violation(f"c17:{cname}:solution", f"{cname}: the solution of the rescaled problem is not K times the original (step/variant {i}, rel dev {e:.3g}, L={Lc:g}, T={Tc:g}, K={Kc:g})", dict(L, variant=i))
                break
        # linearity in the coefficient fields
        D1 = pf.FaceVariable(mesh, *Da); D2 = pf.FaceVariable(mesh, *gen.face_arrays(rng, mesh, lo=0.0, hi=2.0))
        Ds = pf.FaceVariable(mesh, *[2.5 * a + b for a, b in zip((D1._xvalue, D1._yvalue, D1._zvalue), (D2._xvalue, D2._yvalue, D2._zvalue))])
        u1 = pf.FaceVariable(mesh, *ua); u2 = pf.FaceVariable(mesh, *gen.face_arrays(rng, mesh, lo=-1.0, hi=1.0))
        us = pf.FaceVariable(mesh, *[2.5 * a + b for a, b in zip((u1._xvalue, u1._yvalue, u1._zvalue), (u2._xvalue, u2._yvalue, u2._zvalue))])
        wd = pf.FaceVariable(mesh, *[np.where(a >= 0, 1.0, -1.0) if a.size else a for a in ua])
        with np.errstate(all="ignore"):
            checks = [("diffusionTerm", pf.diffusionTerm(Ds), 2.5 * pf.diffusionTerm(D1) + pf.diffusionTerm(D2)),
                      ("convectionTerm", pf.convectionTerm(us), 2.5 * pf.convectionTerm(u1) + pf.convectionTerm(u2)),
                      ("convectionUpwindTerm at fixed upwind direction", pf.convectionUpwindTerm(us, wd),
                       2.5 * pf.convectionUpwindTerm(u1, wd) + pf.convectionUpwindTerm(u2, wd))]
        for what, A, B in checks:
            n += 1
            if abs(A - B).max() > 1e-9 * (1 + abs(B).max()):
                ctx.violation(f"c17:{cname}:linear:{what}", f"{cname}: {what} is not linear in its coefficient field", dict(L, what=what))
    return n


# ------------------------------------------------------------------ C16
def outcome(f):
    try:
        f(); return "ok"
    except Exception as ex:
        return type(ex).__name__


def probe_c16(ctx, pf):
    import itertools
    n = 0
    rng = random.Random(f"c16-{ctx.seed}")
    for cname in gen.CLASSES:
        d = gen.DIM[cname]
        for N in (1, 2, 3):
            fs = [np.linspace(0.5, 1.5, N + 1) for _ in range(d)]
            mesh = gen.build_mesh(pf, cname, fs)
            L = lab(cname, fs)
            # component labels of FaceVariable: get and set
            fv = pf.FaceVariable(mesh, 1.0)
            for l in ALL_LABELS:
                want = "ok" if l in COORD_SYSTEM[cname] else "AttributeError"
                got_g = outcome(lambda: getattr(fv, l + "value"))
                got_s = outcome(lambda: setattr(fv, l + "value", getattr(fv, "_xvalue")))
                n += 2
                if got_g != want or got_s != want:
                    ctx.violation(f"c16:{cname}:facelabel:{l}", f"{cname}: FaceVariable.{l}value get->{got_g} set->{got_s}, documented: {want}", dict(L, label=l))
                if want == "ok":
                    slot = COORD_SYSTEM[cname].index(l)
                    if getattr(fv, l + "value") is not [fv._xvalue, fv._yvalue, fv._zvalue][slot]:
                        ctx.violation(f"c16:{cname}:facelabel:{l}:slot", f"{cname}: FaceVariable.{l}value names the wrong component", dict(L, label=l))
            # periodic flags: every pattern over the 2d sides
            sides = [s for ax in range(d) for s in SIDES[ax]]
            pats = list(itertools.product([False, True], repeat=len(sides)))
            if len(pats) > 16 and ctx.tier == "quick":
                pats = pats[::3] + [pats[-1]]
            for pat in pats:
                BC = pf.BoundaryConditions(mesh)
                for s, flag in zip(sides, pat):
                    if flag:
                        getattr(BC, s).periodic = True
                radial = gen.AXKIND[cname][0] == "rad" and (pat[0] or pat[1])
                want = "ValueError" if radial else "ok"
                got = outcome(lambda: pf.boundaryConditionsTerm(BC))
                got2 = outcome(lambda: pf.CellVariable(mesh, 1.0, BC))
                n += 2
                if got != want or got2 != want:
                    ctx.violation(f"c16:{cname}:periodic", f"{cname}: periodic flags {dict(zip(sides, pat))}: boundaryConditionsTerm->{got}, CellVariable->{got2}, documented: {want}",
                                  dict(L, flags=dict(zip(sides, [bool(x) for x in pat]))))
            # initial-value shapes
            dims = tuple(int(k) for k in mesh.dims)
            good = [np.ones(dims), np.ones(tuple(k + 2 for k in dims)), 2.0, np.array([2.0])]
            bad = [np.ones(tuple(k + 1 for k in dims)), np.ones(tuple(k + 3 for k in dims)), np.ones(dims + (2,)), np.ones((int(np.prod(dims)) + 5,))]
            for v in good:
                got = outcome(lambda: pf.CellVariable(mesh, v))
                n += 1
                if got != "ok":
                    ctx.violation(f"c16:{cname}:shape-valid", f"{cname}: CellVariable rejects a documented initial value of shape {np.shape(v)}: {got}", dict(L, shape=list(np.shape(v))))
            for v in bad:
                if v.size == 1 or v.shape == dims or v.shape == tuple(k + 2 for k in dims):
                    continue
                got = outcome(lambda: pf.CellVariable(mesh, v))
                n += 1
                if got != "ValueError":
                    ctx.violation(f"c16:{cname}:shape-invalid", f"{cname}: CellVariable with an array of shape {v.shape} on a {dims} grid gives {got}, documented: ValueError",
                                  dict(L, shape=list(v.shape)))
            # boundary coefficients must be arrays
            for args in ((1.0, 0.0, 0.0), ([1.0], [0.0], [0.0]), (np.ones(1), 0.0, np.zeros(1))):
                got = outcome(lambda: pf.boundary.BoundaryFace(*args))
                n += 1
                if got != "TypeError":
                    ctx.violation("c16:bcface-type", f"BoundaryFace with non-array coefficients {args!r} gives {got}, documented: TypeError", {"args": repr(args)})
            # equation terms
            phi = pf.CellVariable(mesh, 1.0)
            ncell = int(np.prod([k + 2 for k in dims]))
            from scipy.sparse import identity
            okterms = [identity(ncell, format="csr"), np.zeros(ncell), (identity(ncell, format="csr"), np.zeros(ncell)), pf.transientTerm(phi, 1.0)]
            for t in okterms:
                got = outcome(lambda: pf.solvePDE(pf.CellVariable(mesh, 1.0), [identity(ncell, format="csr"), t]))
                n += 1
                if got != "ok":
                    ctx.violation(f"c16:{cname}:term-valid", f"{cname}: solvePDE rejects a documented term kind ({type(t).__name__}): {got}", L)
            for t in (None, 3.0, "abc", (np.zeros(ncell), np.zeros(ncell)), (identity(ncell), np.zeros(ncell), np.zeros(ncell)), np.zeros((2, 2, 2)), (1.0, 2.0), object()):
                got = outcome(lambda: pf.solvePDE(pf.CellVariable(mesh, 1.0), [identity(ncell, format="csr"), t]))
                n += 1
                if got != "TypeError":
                    ctx.violation(f"c16:term-invalid:{type(t).__name__}", f"solvePDE with a non-conforming term {type(t).__name__} gives {got}, documented: TypeError", dict(L, term=repr(t)[:80]))
        # constructor arity 0..7: the documented forms (d face arrays; N.. + L..) are accepted, every other arity raises TypeError
        for k in range(0, 8):
            args = [np.array([0.5, 1.0, 1.5])] * k
            want = "ok" if k == d else "TypeError"
            got = outcome(lambda: getattr(pf, cname)(*args))
            if k in (6, 2 * d) and k != d:
                continue   # six positional arguments are the internal (dims, cellsize, ...) form; 2d arguments are the (N.., L..) form
            n += 1
            if (want == "ok") != (got == "ok") or (want != "ok" and got != "TypeError"):
                ctx.violation(f"c16:{cname}:arity:{k}", f"{cname} constructor with {k} arguments gives {got}, documented: {want}", {"cls": cname, "nargs": k})
        nl = [2] * d + [1.0] * d
        got = outcome(lambda: getattr(pf, cname)(*nl))
        n += 1
        if got != "ok":
            ctx.violation(f"c16:{cname}:NL-form", f"{cname}{tuple(nl)} raises {got}", {"cls": cname})
    return n


# ------------------------------------------------------------------ C09
def probe_c09(ctx, pf):
    """random edit/solve histories on real objects; then, for every live variable, the next solve is compared with a fresh start"""
    import copy as _copy
    from suites import statesuite as S
    n = 0
    rng = random.Random(f"c09-{ctx.seed}")
    nh = 40 if ctx.tier == "quick" else 300
    for k in range(nh):
        cname = S.GRIDS[k % len(S.GRIDS)]
        world = S.World(pf, rng, cname, "bc_default" if k % 2 else "bc_passed")
        length = rng.randint(3, 10 if ctx.tier == "quick" else 25)
        ops, exp, desc, err = S.gen_history(rng, world, length)
        L = {"cls": cname, "history": desc}
        if err:
            ctx.violation(f"c09:{cname}:raise", f"{cname}: history raised: {err}", L)
            continue
        D = world.D
        for vi, v in enumerate(world.vars):
            try:
                with np.errstate(all="ignore"):
                    fresh = pf.CellVariable(world.mesh, np.array(v.value), _copy.deepcopy(v.BCs))
                    a = v.copy() if False else v
                    pf.solvePDE(a, [pf.transientTerm(a, 0.7, 1.0), -pf.diffusionTerm(D)])
                    pf.solvePDE(fresh, [pf.transientTerm(fresh, 0.7, 1.0), -pf.diffusionTerm(D)])
                n += 1
                if np.all(np.isfinite(fresh._value)) and rel(a._value, fresh._value) > 1e-9:
                    ctx.violation(f"c09:{cname}:solve-vs-fresh", f"{cname}: after a history of {len(desc)} operations the next solvePDE on variable {vi} differs from a fresh start",
                                  dict(L, variable=vi))
                    break
                e1 = pf.solveExplicitPDE(a, 0.01, np.zeros(a._value.size))
                e2 = pf.solveExplicitPDE(fresh, 0.01, np.zeros(a._value.size))
                n += 1
                if rel(e1._value, e2._value) > 1e-9:
                    ctx.violation(f"c09:{cname}:explicit-vs-fresh", f"{cname}: solveExplicitPDE after a history differs from a fresh start", dict(L, variable=vi))
                    break
                # a variable returned by the explicit solver remains usable by the implicit solver
                pf.solvePDE(e1, [pf.transientTerm(e1, 0.7, 1.0), -pf.diffusionTerm(D)])
                n += 1
            except Exception as ex:
                ctx.violation(f"c09:{cname}:solve-raise", f"{cname}: solve after a history raised {type(ex).__name__}: {ex}", dict(L, variable=vi))
                break
        # copies are independent of their originals
        v = world.vars[0]
        c = v.copy()
        before = (np.array(v._value), [np.array(getattr(v.BCs, s).c) for s in ("left", "right")])
        c.value = c.value + 1.0; c.BCs.left.c = 123.0; c.BCs.right.a = 7.0
        n += 1
        if not np.array_equal(before[0], v._value) or any(not np.array_equal(x, np.array(getattr(v.BCs, s).c)) for x, s in zip(before[1], ("left", "right"))):
            ctx.violation(f"c09:{cname}:copy-independent", f"{cname}: modifying a copy changed the original", L)
    return n


# ------------------------------------------------------------------ C14
import operator as _op
BINOPS = [("add", _op.add), ("sub", _op.sub), ("mul", _op.mul), ("truediv", _op.truediv), ("pow", _op.pow),
          ("gt", _op.gt), ("ge", _op.ge), ("lt", _op.lt), ("le", _op.le), ("and", _op.and_), ("or", _op.or_)]
NPREF = {"add": np.add, "sub": np.subtract, "mul": np.multiply, "truediv": np.divide, "pow": np.power, "gt": np.greater,
         "ge": np.greater_equal, "lt": np.less, "le": np.less_equal, "and": np.logical_and, "or": np.logical_or}


def _cell_arrays(v):
    out = [("value", v._value)]
    for ax in range(3):
        for s in SIDES[ax]:
            f = getattr(v.BCs, s)
            out += [(f"{s}.a", f._a), (f"{s}.b", f._b), (f"{s}.c", f._c)]
    return out


def _face_arrays(v):
    return [("x", v._xvalue), ("y", v._yvalue), ("z", v._zvalue)]


def _snap(arrs):
    return [np.array(a, copy=True) for _, a in arrs]


def _same(snaps, arrs):
    return all(np.array_equal(s, np.asarray(a), equal_nan=True) for s, (_, a) in zip(snaps, arrs))


def _aliases(res_arrs, op_arrs):
    for n1, a in res_arrs:
        for n2, b in op_arrs:
            if a.size and b.size and np.shares_memory(a, b):
                return f"{n1} aliases operand {n2}"
    return None


def probe_c14(ctx, pf):
    from suites.bcsuite import set_random_bcs
    n = 0
    for rng, cname, fs, mesh in cases(ctx, pf, "c14", reps_q=2, reps_t=10, nmin=2):
        d = len(mesh.dims)
        L = lab(cname, fs)
        def newcell():
            BC, _, _ = set_random_bcs(rng, mesh, cname, allow_periodic=False)
            return pf.CellVariable(mesh, np.abs(gen.cell_array(rng, mesh))[interior_slices(d)] + 0.5, BC)
        def newface():
            return pf.FaceVariable(mesh, *[np.abs(a) + 0.5 for a in gen.face_arrays(rng, mesh)])
        for kind, mk, arrs_of in (("cell", newcell, _cell_arrays), ("face", newface, _face_arrays)):
            for opname, fn in BINOPS:
                A, B = mk(), mk()
                scal = 1.5
                arr = (np.abs(gen.cell_array(rng, mesh))[interior_slices(d)] + 0.25) if kind == "cell" else None
                combos = [("var,var", A, B), ("var,scalar", A, scal), ("scalar,var", scal, A)]
                if kind == "cell":
                    combos.append(("var,ndarray", A, arr))
                for cn, x, y in combos:
                    if opname in ("gt", "ge", "lt", "le") and cn == "scalar,var":
                        pass  # python swaps to the mirrored comparison
                    ops = [o for o in (x, y) if hasattr(o, "domain")]
                    op_arrs = [pair for o in ops for pair in arrs_of(o)]
                    before = _snap(op_arrs)
                    try:
                        with np.errstate(all="ignore"):
                            r = fn(x, y)
                    except Exception as ex:
                        ctx.violation(f"c14:{kind}:{opname}:{cn}:raise", f"{kind} variable: operator {opname} with operands ({cn}) raised {type(ex).__name__}: {ex}", dict(L, op=opname, operands=cn))
                        continue
                    n += 1
                    tag = f"c14:{kind}:{opname}:{cn}"
                    if type(r) is not type(ops[0]):
                        ctx.violation(tag + ":type", f"{kind}: {opname}({cn}) returned {type(r).__name__}", dict(L, op=opname, operands=cn)); continue
                    if not _same(before, op_arrs):
                        ctx.violation(tag + ":mutates", f"{kind}: {opname}({cn}) modified an operand", dict(L, op=opname, operands=cn))
                    al = _aliases(arrs_of(r), op_arrs)
                    if al:
                        ctx.violation(tag + ":alias", f"{kind}: result of {opname}({cn}): {al}", dict(L, op=opname, operands=cn))
                    def inner(o):
                        if kind == "cell":
                            return np.asarray(o.value) if hasattr(o, "domain") else o
                        return o
                    with np.errstate(all="ignore"):
                        if kind == "cell":
                            want = NPREF[opname](inner(x), inner(y)).astype(float)
                            got = np.asarray(r.value, dtype=float)
                            ok = np.allclose(got, want, rtol=1e-13, atol=0, equal_nan=True)
                        else:
                            ok = True
                            for comp in ("_xvalue", "_yvalue", "_zvalue")[:d]:
                                gx = getattr(x, comp) if hasattr(x, "domain") else x
                                gy = getattr(y, comp) if hasattr(y, "domain") else y
                                ok = ok and np.allclose(np.asarray(getattr(r, comp), dtype=float), NPREF[opname](gx, gy).astype(float), rtol=1e-13, atol=0, equal_nan=True)
                    if not ok:
                        ctx.violation(tag + ":values", f"{kind}: {opname}({cn}) is not the elementwise numpy result on interior values", dict(L, op=opname, operands=cn))
                    if kind == "cell":
                        left = ops[0]
                        if r.BCs is left.BCs:
                            ctx.violation(tag + ":bcs-shared", f"cell: result of {opname}({cn}) shares the BoundaryConditions object of its operand", dict(L, op=opname, operands=cn))
                        for ax in range(d):
                            for s in SIDES[ax]:
                                f1, f2 = getattr(r.BCs, s), getattr(left.BCs, s)
                                if not (np.array_equal(f1.a, f2.a) and np.array_equal(f1.b, f2.b) and np.array_equal(f1.c, f2.c) and f1.periodic == f2.periodic):
                                    ctx.violation(tag + ":bcs-values", f"cell: result of {opname}({cn}) does not carry the boundary conditions of its left-most variable operand", dict(L, op=opname, operands=cn))
                        with np.errstate(all="ignore"):
                            fresh = pf.boundary.cellValuesWithBoundaries(np.array(r.value), r.BCs)
                        if not np.allclose(np.asarray(r._value), fresh, rtol=1e-12, atol=1e-12, equal_nan=True):
                            ctx.violation(tag + ":ghost", f"cell: boundary values of the result of {opname}({cn}) are not consistent with its boundary conditions", dict(L, op=opname, operands=cn))
                        # later modification of the result does not reach the operands, and vice versa
                        r.value = np.asarray(r.value) * 0 + 7.0; r.BCs.left.c = 99.0
                        if not _same(before, op_arrs):
                            ctx.violation(tag + ":later-mod", f"cell: modifying the result of {opname}({cn}) changed an operand", dict(L, op=opname, operands=cn))
                        rs = _snap(_cell_arrays(r))
                        ops[0].value = np.asarray(ops[0].value) * 0 + 3.0; ops[0].BCs.right.c = -5.0
                        if not _same(rs, _cell_arrays(r)):
                            ctx.violation(tag + ":later-mod2", f"cell: modifying an operand of {opname}({cn}) changed the earlier result", dict(L, op=opname, operands=cn))
            # unary, funceval / faceeval, copy
            A = mk(); op_arrs = arrs_of(A); before = _snap(op_arrs)
            with np.errstate(all="ignore"):
                results = [("neg", -A), ("abs", abs(A))]
                if kind == "cell":
                    results += [("funceval", pf.funceval(lambda x: x * 2.0, A)), ("celleval", pf.celleval(lambda x, y: x + y, A, mk())), ("copy", A.copy())]
                else:
                    results += [("faceeval", pf.faceeval(lambda x: x * 2.0, A))]
            for nm, r in results:
                n += 1
                al = _aliases(arrs_of(r), op_arrs)
                if al or not _same(before, op_arrs):
                    ctx.violation(f"c14:{kind}:{nm}", f"{kind}: {nm} {'modified its operand' if not al else al}", dict(L, op=nm))
            if kind == "cell":
                c = A.copy()
                if not (np.array_equal(c._value, A._value) and c.BCs is not A.BCs):
                    ctx.violation("c14:cell:copy-equal", "copy() is not an equal, independent variable", L)
        # expression trees
        a, b, c3 = newcell(), newcell(), newcell()
        arrs = _cell_arrays(a) + _cell_arrays(b) + _cell_arrays(c3); before = _snap(arrs)
        with np.errstate(all="ignore"):
            r = (2.0 * a + b) * c3 - abs(a) / (1.0 + b ** 2.0)
        n += 1
        want = (2.0 * np.asarray(a.value) + np.asarray(b.value)) * np.asarray(c3.value) - np.abs(a.value) / (1.0 + np.asarray(b.value) ** 2.0)
        if not np.allclose(r.value, want, rtol=1e-12) or not _same(before, arrs) or _aliases(_cell_arrays(r), arrs):
            ctx.violation(f"c14:{cname}:tree", f"{cname}: expression tree result wrong / operands modified / aliasing", L)
        for ax in range(d):
            for s in SIDES[ax]:
                if not np.array_equal(getattr(r.BCs, s).c, getattr(a.BCs, s).c):
                    ctx.violation(f"c14:{cname}:tree-bcs", f"{cname}: expression tree result does not carry the boundary conditions of its left-most variable operand", L)
    return n


# ------------------------------------------------------------------ C15
def _mesh_arrays(mesh):
    out = []
    for nm in ("cellsize", "cellcenters", "facecenters"):
        p = getattr(mesh, nm)
        out += [(f"{nm}._x", p._x), (f"{nm}._y", p._y), (f"{nm}._z", p._z)]
    out.append(("dims", mesh.dims))
    return out


def _result_arrays(r):
    """all ndarrays reachable from a builder result (matrices, vectors, variables, tuples)"""
    out = []
    def walk(x, nm):
        if isinstance(x, tuple) or isinstance(x, list):
            for i, y in enumerate(x): walk(y, f"{nm}[{i}]")
        elif hasattr(x, "tocsr"):
            c = x.tocsr(); out.extend([(nm + ".data", c.data), (nm + ".indices", c.indices)])
        elif isinstance(x, np.ndarray):
            out.append((nm, x))
        elif hasattr(x, "_xvalue"):
            out.extend([(nm + "._xvalue", np.asarray(x._xvalue)), (nm + "._yvalue", np.asarray(x._yvalue)), (nm + "._zvalue", np.asarray(x._zvalue))])
        elif hasattr(x, "_value"):
            out.append((nm + "._value", np.asarray(x._value)))
            out.extend((nm + "." + a, b) for a, b in _cell_arrays(x)[1:])
    walk(r, "result")
    return out


def _bits(r):
    return [np.array(a, copy=True) for _, a in _result_arrays(r)]


def probe_c15(ctx, pf):
    from suites.bcsuite import set_random_bcs
    n = 0
    for rng, cname, fs, mesh in cases(ctx, pf, "c15", reps_q=2, reps_t=10, nmin=2):
        d = len(mesh.dims)
        L = lab(cname, fs)
        BC, _, _ = set_random_bcs(rng, mesh, cname, allow_periodic=False)
        phi = pf.CellVariable(mesh, np.abs(gen.cell_array(rng, mesh))[interior_slices(d)] + 0.5, BC)
        D = pf.FaceVariable(mesh, *[np.abs(a) + 0.25 for a in gen.face_arrays(rng, mesh)])
        u = pf.FaceVariable(mesh, *gen.face_arrays(rng, mesh))
        uup = pf.FaceVariable(mesh, *[np.where(a >= 0, 1.0, -1.0) if a.size else a for a in (u._xvalue, u._yvalue, u._zvalue)])
        beta = pf.CellVariable(mesh, np.abs(gen.cell_array(rng, mesh))[interior_slices(d)] + 0.5)
        FL = pf.fluxLimiter("Koren")
        ncell = int(np.prod(full_shape(mesh)))
        calls = [("diffusionTerm", lambda: pf.diffusionTerm(D)), ("convectionTerm", lambda: pf.convectionTerm(u)),
                 ("convectionUpwindTerm", lambda: pf.convectionUpwindTerm(u)), ("convectionUpwindTerm(u,u_upwind)", lambda: pf.convectionUpwindTerm(u, uup)),
                 ("convectionTVDupwindRHSTerm", lambda: pf.convectionTVDupwindRHSTerm(u, phi, FL)),
                 ("divergenceTerm", lambda: pf.divergenceTerm(D)), ("gradientTerm", lambda: pf.gradientTerm(phi)),
                 ("linearMean", lambda: pf.linearMean(phi)), ("arithmeticMean", lambda: pf.arithmeticMean(phi)),
                 ("geometricMean", lambda: pf.geometricMean(phi)), ("harmonicMean", lambda: pf.harmonicMean(phi)),
                 ("upwindMean", lambda: pf.upwindMean(phi, u)), ("linearSourceTerm", lambda: pf.linearSourceTerm(beta)),
                 ("constantSourceTerm", lambda: pf.constantSourceTerm(beta)), ("transientTerm", lambda: pf.transientTerm(phi, 0.5, beta)),
                 ("transientTerm(scalar alpha)", lambda: pf.transientTerm(phi, 0.5, 2.0)),
                 ("boundaryConditionsTerm", lambda: pf.boundaryConditionsTerm(phi.BCs)),
                 ("cellValuesWithBoundaries", lambda: pf.boundary.cellValuesWithBoundaries(np.array(phi.value), phi.BCs)),
                 ("cellLocations", lambda: pf.cellLocations(mesh)), ("faceLocations", lambda: pf.faceLocations(mesh)),
                 ("cellvolume", lambda: mesh.cellvolume), ("plotprofile", lambda: phi.plotprofile()),
                 ("domainIntegral", lambda: np.asarray(phi.domainIntegral())),
                 ("solveMatrixPDE", lambda: pf.solveMatrixPDE(mesh, pf.boundaryConditionsTerm(phi.BCs)[0] + pf.linearSourceTerm(beta), np.ones(ncell))),
                 ("solveExplicitPDE", lambda: pf.solveExplicitPDE(phi, 0.01, np.ones(ncell)))]
        inputs = _mesh_arrays(mesh) + _cell_arrays(phi) + _cell_arrays(beta) + _face_arrays(D) + _face_arrays(u) + _face_arrays(uup)
        for nm, call in calls:
            before = _snap(inputs)
            try:
                with np.errstate(all="ignore"):
                    r1 = call(); b1 = _bits(r1)
                    r2 = call(); b2 = _bits(r2)
            except Exception as ex:
                ctx.violation(f"c15:{cname}:{nm}:raise", f"{cname}: {nm} raised {type(ex).__name__}: {ex}", dict(L, call=nm)); continue
            n += 1
            if not _same(before, inputs):
                bad = [k for (k, a), s in zip(inputs, before) if not np.array_equal(s, np.asarray(a), equal_nan=True)]
                ctx.violation(f"c15:{cname}:{nm}:mutates", f"{cname}: {nm} modified its inputs: {bad[:4]}", dict(L, call=nm, modified=bad[:8]))
            if len(b1) != len(b2) or any(x.shape != y.shape or x.tobytes() != y.tobytes() for x, y in zip(b1, b2)):
                ctx.violation(f"c15:{cname}:{nm}:nondeterministic", f"{cname}: two calls of {nm} with equal inputs are not bit-identical", dict(L, call=nm))
            al = _aliases(_result_arrays(r1), _mesh_arrays(mesh))
            if al:
                ctx.violation(f"c15:{cname}:{nm}:alias-grid", f"{cname}: result of {nm} aliases grid storage ({al})", dict(L, call=nm))
            if nm not in ("solveExplicitPDE",):
                al = _aliases(_result_arrays(r1), _cell_arrays(phi) + _cell_arrays(beta) + _face_arrays(D) + _face_arrays(u))
                if al:
                    ctx.violation(f"c15:{cname}:{nm}:alias-input", f"{cname}: result of {nm} aliases an input array ({al})", dict(L, call=nm))
        # solvePDE modifies only its solution variable; terms are reusable in a time loop
        x = pf.CellVariable(mesh, np.array(phi.value), BC)
        Md = pf.diffusionTerm(D); Mu = pf.convectionUpwindTerm(u); Mb = pf.linearSourceTerm(beta)
        terms = [-Md, Mu, Mb]
        tb = _bits(terms)
        others = _mesh_arrays(mesh) + _cell_arrays(beta) + _face_arrays(D) + _face_arrays(u)
        before = _snap(others)
        with np.errstate(all="ignore"):
            for step in range(3):
                pf.solvePDE(x, [pf.transientTerm(x, 0.5, 1.0)] + terms)
        n += 1
        if not _same(before, others):
            ctx.violation(f"c15:{cname}:solvePDE:mutates", f"{cname}: solvePDE modified something other than its solution variable", L)
        ta = _bits(terms)
        if any(a.tobytes() != b.tobytes() for a, b in zip(tb, ta)):
            ctx.violation(f"c15:{cname}:solvePDE:terms", f"{cname}: solvePDE modified the terms it was given (they cannot be reused in a time loop)", L)
    return n
