#!/usr/bin/env python3
"""apply an already validated seeded change to /repo, run the given checks, undo.  usage: seedquick.py <dir with patch.diff> C01[,C02...]"""
import sys, subprocess
src, checks = sys.argv[1], sys.argv[2].split(",")
def sh(c):
    p = subprocess.run(c, shell=True, stdout=subprocess.PIPE, stderr=subprocess.STDOUT, text=True); return p.returncode, p.stdout
rc, out = sh("git -C /repo status --short"); assert out.strip() == "", out
rc, out = sh(f"git -C /repo apply {src}/patch.diff"); assert rc == 0, out
try:
    for c in checks:
        rc, out = sh(f"cd /verif && VERIF_EVIDENCE_DIR=/verif/build/scratch_evidence bin/check {c}")
        lines = [l for l in out.split("\n") if l.startswith("VIOLATION") or l.startswith("[")]
        print(c, "exit", rc); [print("   ", l[:260]) for l in lines[:5]]
finally:
    sh("git -C /repo checkout -- .")
print("repo:", repr(sh("git -C /repo status --short")[1].strip()))
