#!/usr/bin/env python3
"""Validate a seeded change produced by a sub-agent and run our checks against it.
usage: seedcheck.py <Cxx> <dir with patch.diff demo.py notes.md> [name] [--checks C01,C05]"""
import sys, os, subprocess, json, shutil, time, re
prop, src = sys.argv[1], sys.argv[2]
name = sys.argv[3] if len(sys.argv) > 3 and not sys.argv[3].startswith("--") else prop
checks = [prop]
for a in sys.argv:
    if a.startswith("--checks"):
        checks = a.split("=", 1)[1].split(",")
V = "/verif"; R = "/repo"
wt = f"/tmp/val_{name}"
def sh(cmd, **kw):
    p = subprocess.run(cmd, shell=True, stdout=subprocess.PIPE, stderr=subprocess.STDOUT, text=True, **kw)
    return p.returncode, p.stdout
sh(f"git -C {R} worktree remove --force {wt}"); shutil.rmtree(wt, ignore_errors=True)
rc, out = sh(f"git -C {R} worktree add -q --detach {wt} HEAD")
env = f"PYTHONPATH={wt}/src PYTHONDONTWRITEBYTECODE=1"
meta = {"property": prop, "name": name}
rc0, o0 = sh(f"cd /tmp && {env} /venv/bin/python -W ignore {src}/demo.py")
rca, oa = sh(f"git -C {wt} apply {src}/patch.diff")
rc1, o1 = sh(f"cd /tmp && {env} /venv/bin/python -W ignore {src}/demo.py")
rct, ot = sh(f"cd {wt} && {env} /venv/bin/python -m pytest -q -p no:cacheprovider --timeout=900 --continue-on-collection-errors 2>&1 | tail -3")
m = re.search(r"(\d+) passed", ot)
meta.update({"demo_unchanged_exit": rc0, "patch_applies": rca == 0, "demo_changed_exit": rc1, "tests": ot.strip().split("\n")[-1], "tests_passed": int(m.group(1)) if m else 0,
             "demo_output_changed": o1[-600:]})
sh(f"git -C {R} worktree remove --force {wt}"); shutil.rmtree(wt, ignore_errors=True)
valid = rc0 == 0 and rca == 0 and rc1 != 0 and meta["tests_passed"] == 48 and "failed" not in ot
meta["valid"] = valid
print(json.dumps({k: meta[k] for k in ("demo_unchanged_exit", "patch_applies", "demo_changed_exit", "tests", "valid")}))
if valid:
    # run our checks against it
    rc, out = sh(f"git -C {R} status --short")
    assert out.strip() == "", "repo not clean: " + out
    rc, out = sh(f"git -C {R} apply {src}/patch.diff")
    res = {}
    try:
        for c in checks:
            t = time.time()
            rc, out = sh(f"cd {V} && VERIF_EVIDENCE_DIR=/verif/build/scratch_evidence bin/check {c}")
            lines = [l for l in out.split("\n") if l.startswith("VIOLATION") or l.startswith("[")]
            res[c] = {"exit": rc, "wall_s": round(time.time() - t, 1), "lines": [l[:300] for l in lines[:6]]}
            print(c, "exit", rc, *[l[:230] for l in lines[:3]], sep="\n   ")
    finally:
        sh(f"git -C {R} checkout -- .")
    meta["checks"] = res
    meta["caught_by"] = [c for c, r in res.items() if r["exit"] == 1]
    d = f"{V}/seeded/{name}"
    os.makedirs(d, exist_ok=True)
    shutil.copy(f"{src}/patch.diff", d); shutil.copy(f"{src}/demo.py", d)
    if os.path.exists(f"{src}/notes.md"):
        meta["needs_to_manifest"] = open(f"{src}/notes.md").read()[:1500]
    meta["what_was_run"] = ("fresh worktree of /repo HEAD: demo.py (exit 0), git apply patch.diff, demo.py (exit != 0), full pytest (48 passed); "
                            "then git -C /repo apply patch.diff, bin/check <ids>, git -C /repo checkout -- .")
    json.dump(meta, open(f"{d}/meta.json", "w"), indent=1)
rc, out = sh(f"git -C {R} status --short")
print("repo status after:", repr(out.strip()))
