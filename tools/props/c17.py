"""C17 check module."""
import traceback
import lib
from common import run_suites
import probes
from suites import bcsuite, solvesuite, meshsuite

REL = lambda suite, b: suite != "means" or b.get("what") in ("linearMean", "upwindMean")


def run(ctx):
    import pyfvtool as pf
    ctx.rule = ("all operator suites + mesh + bc + solve (the model whose rows the scaling theorems are about is compared with every builder); "
                "impl_probe: the same two-step solve (transient, diffusion, upwind+TVD, sources; and central) in two unit systems with L, T, K in 10^-6..10^6, "
                "and linearity of each matrix term in its coefficient field; non-trivial = N>=2 on some axis")
    ctx.prove("C17")
    from suites import symsuite
    run_suites(ctx, ["symbolic"], runner=symsuite.run_suite, relevant=symsuite.relevant_for(['diffusion', 'central', 'divergence', 'gradient', 'linmean', 'arithmean', 'bcM', 'bcR', 'ghosts', 'upwind', 'tvd', 'tvdfsarg', 'harmmean', 'solveL', 'solveR']))
    run_suites(ctx, ["mesh"], runner=meshsuite.run_suite)
    run_suites(ctx, ["diffusion", "conv_central", "conv_upwind", "tvd", "divergence", "gradient", "means"], relevant=REL)
    run_suites(ctx, ["bc_ghost", "bc_rows"], runner=bcsuite.run_suite)
    run_suites(ctx, ["solve"], runner=solvesuite.run_suite)
    try:
        n = probes.probe_c17(ctx, pf)
        ctx.add_cases("impl_probe", n, [f"c17probe{i}" for i in range(min(n, 50))])
    except Exception:
        ctx.broke("correspondence", "impl_probe/harness", traceback.format_exc()[-1200:])


def replay(path):
    print(open(path).read()[:4000])
    return 0
