(* Theorems about the GENERATED limiter definitions (Gen/Limiters.v) at the R instance. *)
From Coq Require Import Reals Lra Psatz String List Bool.
From PFV Require Import OField KOps Limiters LimiterSpec.
Import ListNotations.
Local Open Scope R_scope.

Lemma b2k_R b : b2k ROps b = if b then 1 else 0.
Proof. reflexivity. Qed.

(* Normalise a goal about ROps-instantiated generated code into plain R with
   Rlt_dec / Rle_dec / Req_EM_T conditionals. *)
Ltac rnorm :=
  rewrite ?kofZ_R, ?kofQ_R;
  unfold kabs, kmin, kmax, ksign, b2k;
  cbn [kadd kmul ksub kdiv kopp kinv kleb kltb keqb k0 k1 ROps K];
  unfold R_leb, R_ltb, R_eqb.

Ltac rcases :=
  repeat match goal with
  | |- context [Rlt_dec ?a ?b] => destruct (Rlt_dec a b)
  | |- context [Rle_dec ?a ?b] => destruct (Rle_dec a b)
  | |- context [Req_EM_T ?a ?b] => destruct (Req_EM_T a b)
  | |- context [Rcase_abs ?a] => destruct (Rcase_abs a)
  | H : context [Rlt_dec ?a ?b] |- _ => destruct (Rlt_dec a b)
  | H : context [Rle_dec ?a ?b] |- _ => destruct (Rle_dec a b)
  end.

Ltac spec_unfold := unfold Rmin, Rmax, Rabs.

Ltac fin := try lra; try (exfalso; lra); try (field_simplify_eq; [lra|lra]); try (field; lra).

Ltac zero_case :=
  match goal with r : R |- _ => let H := fresh in assert (H : r = 0) by lra; rewrite H; unfold Rdiv; lra end.
Ltac pub := rnorm; spec_unfold; rcases; try lra; try (exfalso; lra); try (field; nra);
            try (unfold Rdiv; nra); try zero_case.
(* ---------- published closed forms ---------- *)
Section Pub.
Variable eps : R.
Hypothesis Heps : 0 < eps.

Lemma pub_CHARM (r : R) : FL_CHARM ROps eps r = sp_CHARM r.
Proof. unfold FL_CHARM, sp_CHARM. pub. Qed.
Lemma pub_HCUS (r : R) : FL_HCUS ROps eps r = sp_HCUS r.
Proof. unfold FL_HCUS, sp_HCUS. pub. Qed.
Lemma pub_HQUICK (r : R) : FL_HQUICK ROps eps r = sp_HQUICK r.
Proof. unfold FL_HQUICK, sp_HQUICK. pub. Qed.
Lemma pub_ospre (r : R) : FL_ospre ROps eps r = sp_ospre r.
Proof. unfold FL_ospre, sp_ospre. pub. Qed.
Lemma pub_VanLeer (r : R) : FL_VanLeer ROps eps r = sp_VanLeer r.
Proof. unfold FL_VanLeer, sp_VanLeer. pub. Qed.
Lemma pub_VanAlbada1 (r : R) : FL_VanAlbada1 ROps eps r = sp_VanAlbada1 r.
Proof. unfold FL_VanAlbada1, sp_VanAlbada1. pub. Qed.
Lemma pub_VanAlbada2 (r : R) : FL_VanAlbada2 ROps eps r = sp_VanAlbada2 r.
Proof. unfold FL_VanAlbada2, sp_VanAlbada2. pub. Qed.
Lemma pub_MinMod (r : R) : FL_MinMod ROps eps r = sp_MinMod r.
Proof. unfold FL_MinMod, sp_MinMod. pub. Qed.
Lemma pub_SUPERBEE (r : R) : FL_SUPERBEE ROps eps r = sp_SUPERBEE r.
Proof. unfold FL_SUPERBEE, sp_SUPERBEE. pub. Qed.
Lemma pub_Osher (r : R) : FL_Osher ROps eps r = sp_Osher r.
Proof. unfold FL_Osher, sp_Osher. pub. Qed.
Lemma pub_Sweby (r : R) : FL_Sweby ROps eps r = sp_Sweby r.
Proof. unfold FL_Sweby, sp_Sweby. pub. Qed.
Lemma pub_smart (r : R) : FL_smart ROps eps r = sp_smart r.
Proof. unfold FL_smart, sp_smart. pub. Qed.
Lemma pub_Koren (r : R) : FL_Koren ROps eps r = sp_Koren r.
Proof. unfold FL_Koren, sp_Koren. pub. Qed.
Lemma pub_MUSCL (r : R) : FL_MUSCL ROps eps r = sp_MUSCL r.
Proof. unfold FL_MUSCL, sp_MUSCL. pub. Qed.
Lemma pub_QUICK (r : R) : FL_QUICK ROps eps r = sp_QUICK r.
Proof. unfold FL_QUICK, sp_QUICK. pub. Qed.
Lemma pub_UMIST (r : R) : FL_UMIST ROps eps r = sp_UMIST r.
Proof. unfold FL_UMIST, sp_UMIST. pub. Qed.

(* ---------- totality: every denominator of every limiter is non-zero ---------- *)
Ltac tot := rnorm; rcases; repeat constructor; try nra; try lra.
Lemma total_CHARM (r : R) : Forall (fun d => d <> 0) (FL_CHARM_dens ROps eps r).
Proof. unfold FL_CHARM_dens. tot. Qed.
Lemma total_HCUS (r : R) : Forall (fun d => d <> 0) (FL_HCUS_dens ROps eps r).
Proof. unfold FL_HCUS_dens. tot. Qed.
Lemma total_HQUICK (r : R) : Forall (fun d => d <> 0) (FL_HQUICK_dens ROps eps r).
Proof. unfold FL_HQUICK_dens. tot. Qed.
Lemma total_ospre (r : R) : Forall (fun d => d <> 0) (FL_ospre_dens ROps eps r).
Proof. unfold FL_ospre_dens. tot. Qed.
Lemma total_VanLeer (r : R) : Forall (fun d => d <> 0) (FL_VanLeer_dens ROps eps r).
Proof. unfold FL_VanLeer_dens. tot. Qed.
Lemma total_VanAlbada1 (r : R) : Forall (fun d => d <> 0) (FL_VanAlbada1_dens ROps eps r).
Proof. unfold FL_VanAlbada1_dens. tot. Qed.
Lemma total_VanAlbada2 (r : R) : Forall (fun d => d <> 0) (FL_VanAlbada2_dens ROps eps r).
Proof. unfold FL_VanAlbada2_dens. tot. Qed.
Lemma total_MinMod (r : R) : Forall (fun d => d <> 0) (FL_MinMod_dens ROps eps r).
Proof. unfold FL_MinMod_dens. tot. Qed.
Lemma total_SUPERBEE (r : R) : Forall (fun d => d <> 0) (FL_SUPERBEE_dens ROps eps r).
Proof. unfold FL_SUPERBEE_dens. tot. Qed.
Lemma total_Osher (r : R) : Forall (fun d => d <> 0) (FL_Osher_dens ROps eps r).
Proof. unfold FL_Osher_dens. tot. Qed.
Lemma total_Sweby (r : R) : Forall (fun d => d <> 0) (FL_Sweby_dens ROps eps r).
Proof. unfold FL_Sweby_dens. tot. Qed.
Lemma total_smart (r : R) : Forall (fun d => d <> 0) (FL_smart_dens ROps eps r).
Proof. unfold FL_smart_dens. tot. Qed.
Lemma total_Koren (r : R) : Forall (fun d => d <> 0) (FL_Koren_dens ROps eps r).
Proof. unfold FL_Koren_dens. tot. Qed.
Lemma total_MUSCL (r : R) : Forall (fun d => d <> 0) (FL_MUSCL_dens ROps eps r).
Proof. unfold FL_MUSCL_dens. tot. Qed.
Lemma total_QUICK (r : R) : Forall (fun d => d <> 0) (FL_QUICK_dens ROps eps r).
Proof. unfold FL_QUICK_dens. tot. Qed.
Lemma total_UMIST (r : R) : Forall (fun d => d <> 0) (FL_UMIST_dens ROps eps r).
Proof. unfold FL_UMIST_dens. tot. Qed.
End Pub.

(* ---------- properties of the published forms ---------- *)
Ltac sp := spec_unfold; rcases; try lra; try (exfalso; lra).
Lemma one_CHARM : sp_CHARM 1 = 1.
Proof. unfold sp_CHARM. sp; try (field; lra). Qed.
Lemma one_HCUS : sp_HCUS 1 = 1.
Proof. unfold sp_HCUS. sp; try (field; lra). Qed.
Lemma one_HQUICK : sp_HQUICK 1 = 1.
Proof. unfold sp_HQUICK. sp; try (field; lra). Qed.
Lemma one_ospre : sp_ospre 1 = 1.
Proof. unfold sp_ospre. sp; try (field; lra). Qed.
Lemma one_VanLeer : sp_VanLeer 1 = 1.
Proof. unfold sp_VanLeer. sp; try (field; lra). Qed.
Lemma one_VanAlbada1 : sp_VanAlbada1 1 = 1.
Proof. unfold sp_VanAlbada1. sp; try (field; lra). Qed.
Lemma one_VanAlbada2 : sp_VanAlbada2 1 = 1.
Proof. unfold sp_VanAlbada2. sp; try (field; lra). Qed.
Lemma one_MinMod : sp_MinMod 1 = 1.
Proof. unfold sp_MinMod. sp; try (field; lra). Qed.
Lemma one_SUPERBEE : sp_SUPERBEE 1 = 1.
Proof. unfold sp_SUPERBEE. sp; try (field; lra). Qed.
Lemma one_Osher : sp_Osher 1 = 1.
Proof. unfold sp_Osher. sp; try (field; lra). Qed.
Lemma one_Sweby : sp_Sweby 1 = 1.
Proof. unfold sp_Sweby. sp; try (field; lra). Qed.
Lemma one_smart : sp_smart 1 = 1.
Proof. unfold sp_smart. sp; try (field; lra). Qed.
Lemma one_Koren : sp_Koren 1 = 1.
Proof. unfold sp_Koren. sp; try (field; lra). Qed.
Lemma one_MUSCL : sp_MUSCL 1 = 1.
Proof. unfold sp_MUSCL. sp; try (field; lra). Qed.
Lemma one_QUICK : sp_QUICK 1 = 1.
Proof. unfold sp_QUICK. sp; try (field; lra). Qed.
Lemma one_UMIST : sp_UMIST 1 = 1.
Proof. unfold sp_UMIST. sp; try (field; lra). Qed.

Lemma div_bounds n d u : 0 < d -> 0 <= n -> n <= u * d -> 0 <= n / d <= u.
Proof.
  intros Hd Hn Hu. split.
  - apply Rmult_le_pos; [exact Hn|]. left. apply Rinv_0_lt_compat. exact Hd.
  - apply Rmult_le_reg_r with d; [exact Hd|]. unfold Rdiv. rewrite Rmult_assoc, Rinv_l by lra. lra.
Qed.
Ltac rng := spec_unfold; rcases; try lra; try (exfalso; lra).
Lemma range_CHARM (r : R) : 0 < r -> 0 <= sp_CHARM r <= Rmin (2 * r) 4.
Proof.
  intros Hr. unfold sp_CHARM. rng; apply div_bounds; nra.
Qed.
Lemma range_HCUS (r : R) : 0 < r -> 0 <= sp_HCUS r <= Rmin (2 * r) 4.
Proof.
  intros Hr. unfold sp_HCUS. rng; apply div_bounds; nra.
Qed.
Lemma range_HQUICK (r : R) : 0 < r -> 0 <= sp_HQUICK r <= Rmin (2 * r) 4.
Proof.
  intros Hr. unfold sp_HQUICK. rng; apply div_bounds; nra.
Qed.
Lemma range_ospre (r : R) : 0 < r -> 0 <= sp_ospre r <= Rmin (2 * r) 4.
Proof.
  intros Hr. unfold sp_ospre. replace (3 / 2 * (r * r + r) / (r * r + r + 1)) with ((3 / 2 * (r * r + r)) / (r * r + r + 1)) by (unfold Rdiv; ring).
  rng; apply div_bounds; nra.
Qed.
Lemma range_VanLeer (r : R) : 0 < r -> 0 <= sp_VanLeer r <= Rmin (2 * r) 4.
Proof.
  intros Hr. unfold sp_VanLeer. rewrite (Rabs_pos_eq r) by lra. rng; apply div_bounds; nra.
Qed.
Lemma range_VanAlbada1 (r : R) : 0 < r -> 0 <= sp_VanAlbada1 r <= Rmin (2 * r) 4.
Proof.
  intros Hr. unfold sp_VanAlbada1. rng; apply div_bounds; nra.
Qed.
Lemma range_VanAlbada2 (r : R) : 0 < r -> 0 <= sp_VanAlbada2 r <= Rmin (2 * r) 4.
Proof.
  intros Hr. unfold sp_VanAlbada2. rng; apply div_bounds; nra.
Qed.
Lemma range_MinMod (r : R) : 0 < r -> 0 <= sp_MinMod r <= Rmin (2 * r) 4.
Proof.
  intros Hr. unfold sp_MinMod. rng.
Qed.
Lemma range_SUPERBEE (r : R) : 0 < r -> 0 <= sp_SUPERBEE r <= Rmin (2 * r) 4.
Proof.
  intros Hr. unfold sp_SUPERBEE. rng.
Qed.
Lemma range_Osher (r : R) : 0 < r -> 0 <= sp_Osher r <= Rmin (2 * r) 4.
Proof.
  intros Hr. unfold sp_Osher. rng.
Qed.
Lemma range_Sweby (r : R) : 0 < r -> 0 <= sp_Sweby r <= Rmin (2 * r) 4.
Proof.
  intros Hr. unfold sp_Sweby. rng.
Qed.
Lemma range_smart (r : R) : 0 < r -> 0 <= sp_smart r <= Rmin (2 * r) 4.
Proof.
  intros Hr. unfold sp_smart. rng.
Qed.
Lemma range_Koren (r : R) : 0 < r -> 0 <= sp_Koren r <= Rmin (2 * r) 4.
Proof.
  intros Hr. unfold sp_Koren. rng.
Qed.
Lemma range_MUSCL (r : R) : 0 < r -> 0 <= sp_MUSCL r <= Rmin (2 * r) 4.
Proof.
  intros Hr. unfold sp_MUSCL. rng.
Qed.
Lemma range_QUICK (r : R) : 0 < r -> 0 <= sp_QUICK r <= Rmin (2 * r) 4.
Proof.
  intros Hr. unfold sp_QUICK. rng.
Qed.
Lemma range_UMIST (r : R) : 0 < r -> 0 <= sp_UMIST r <= Rmin (2 * r) 4.
Proof.
  intros Hr. unfold sp_UMIST. rng.
Qed.
Lemma clip_MinMod (r : R) : r <= 0 -> sp_MinMod r = 0.
Proof. intros Hr. unfold sp_MinMod. sp; try (unfold Rdiv; nra); try zero_case. Qed.
Lemma clip_SUPERBEE (r : R) : r <= 0 -> sp_SUPERBEE r = 0.
Proof. intros Hr. unfold sp_SUPERBEE. sp; try (unfold Rdiv; nra); try zero_case. Qed.
Lemma clip_Osher (r : R) : r <= 0 -> sp_Osher r = 0.
Proof. intros Hr. unfold sp_Osher. sp; try (unfold Rdiv; nra); try zero_case. Qed.
Lemma clip_Sweby (r : R) : r <= 0 -> sp_Sweby r = 0.
Proof. intros Hr. unfold sp_Sweby. sp; try (unfold Rdiv; nra); try zero_case. Qed.
Lemma clip_Koren (r : R) : r <= 0 -> sp_Koren r = 0.
Proof. intros Hr. unfold sp_Koren. sp; try (unfold Rdiv; nra); try zero_case. Qed.
Lemma clip_MUSCL (r : R) : r <= 0 -> sp_MUSCL r = 0.
Proof. intros Hr. unfold sp_MUSCL. sp; try (unfold Rdiv; nra); try zero_case. Qed.
Lemma clip_QUICK (r : R) : r <= 0 -> sp_QUICK r = 0.
Proof. intros Hr. unfold sp_QUICK. sp; try (unfold Rdiv; nra); try zero_case. Qed.
Lemma clip_UMIST (r : R) : r <= 0 -> sp_UMIST r = 0.
Proof. intros Hr. unfold sp_UMIST. sp; try (unfold Rdiv; nra); try zero_case. Qed.
Lemma clip_smart (r : R) : r <= 0 -> sp_smart r = 0.
Proof. intros Hr. unfold sp_smart. sp; try (unfold Rdiv; nra); try zero_case. Qed.
Lemma clip_VanLeer (r : R) : r <= 0 -> sp_VanLeer r = 0.
Proof. intros Hr. unfold sp_VanLeer. sp; try (unfold Rdiv; nra); try zero_case. Qed.

(* ---------- statements over the name dispatch ---------- *)
Open Scope string_scope.
Fixpoint lookup {A} (name : string) (t : list (string * A)) : option A :=
  match t with
  | [] => None
  | (n, v) :: t' => if String.eqb name n then Some v else lookup name t'
  end.

Ltac by_name H :=
  cbn [lookup sp_table clipped existsb] in H;
  repeat match type of H with
  | context [String.eqb ?n ?s] =>
      destruct (String.eqb_spec n s) as [->|_];
      [ | ]
  end.

Theorem published_dispatch eps name sp :
  0 < eps -> lookup name sp_table = Some sp -> forall r, FL_dispatch ROps name eps r = sp r.
Proof.
  intros Heps H r. cbn [lookup sp_table] in H.
  destruct (String.eqb_spec name "CHARM") as [->|_];
    [injection H as <-; change (FL_dispatch ROps "CHARM" eps r) with (FL_CHARM ROps eps r); apply pub_CHARM; exact Heps|].
  destruct (String.eqb_spec name "HCUS") as [->|_];
    [injection H as <-; change (FL_dispatch ROps "HCUS" eps r) with (FL_HCUS ROps eps r); apply pub_HCUS; exact Heps|].
  destruct (String.eqb_spec name "HQUICK") as [->|_];
    [injection H as <-; change (FL_dispatch ROps "HQUICK" eps r) with (FL_HQUICK ROps eps r); apply pub_HQUICK; exact Heps|].
  destruct (String.eqb_spec name "ospre") as [->|_];
    [injection H as <-; change (FL_dispatch ROps "ospre" eps r) with (FL_ospre ROps eps r); apply pub_ospre; exact Heps|].
  destruct (String.eqb_spec name "VanLeer") as [->|_];
    [injection H as <-; change (FL_dispatch ROps "VanLeer" eps r) with (FL_VanLeer ROps eps r); apply pub_VanLeer; exact Heps|].
  destruct (String.eqb_spec name "VanAlbada1") as [->|_];
    [injection H as <-; change (FL_dispatch ROps "VanAlbada1" eps r) with (FL_VanAlbada1 ROps eps r); apply pub_VanAlbada1; exact Heps|].
  destruct (String.eqb_spec name "VanAlbada2") as [->|_];
    [injection H as <-; change (FL_dispatch ROps "VanAlbada2" eps r) with (FL_VanAlbada2 ROps eps r); apply pub_VanAlbada2; exact Heps|].
  destruct (String.eqb_spec name "MinMod") as [->|_];
    [injection H as <-; change (FL_dispatch ROps "MinMod" eps r) with (FL_MinMod ROps eps r); apply pub_MinMod; exact Heps|].
  destruct (String.eqb_spec name "SUPERBEE") as [->|_];
    [injection H as <-; change (FL_dispatch ROps "SUPERBEE" eps r) with (FL_SUPERBEE ROps eps r); apply pub_SUPERBEE; exact Heps|].
  destruct (String.eqb_spec name "Osher") as [->|_];
    [injection H as <-; change (FL_dispatch ROps "Osher" eps r) with (FL_Osher ROps eps r); apply pub_Osher; exact Heps|].
  destruct (String.eqb_spec name "Sweby") as [->|_];
    [injection H as <-; change (FL_dispatch ROps "Sweby" eps r) with (FL_Sweby ROps eps r); apply pub_Sweby; exact Heps|].
  destruct (String.eqb_spec name "smart") as [->|_];
    [injection H as <-; change (FL_dispatch ROps "smart" eps r) with (FL_smart ROps eps r); apply pub_smart; exact Heps|].
  destruct (String.eqb_spec name "Koren") as [->|_];
    [injection H as <-; change (FL_dispatch ROps "Koren" eps r) with (FL_Koren ROps eps r); apply pub_Koren; exact Heps|].
  destruct (String.eqb_spec name "MUSCL") as [->|_];
    [injection H as <-; change (FL_dispatch ROps "MUSCL" eps r) with (FL_MUSCL ROps eps r); apply pub_MUSCL; exact Heps|].
  destruct (String.eqb_spec name "QUICK") as [->|_];
    [injection H as <-; change (FL_dispatch ROps "QUICK" eps r) with (FL_QUICK ROps eps r); apply pub_QUICK; exact Heps|].
  destruct (String.eqb_spec name "UMIST") as [->|_];
    [injection H as <-; change (FL_dispatch ROps "UMIST" eps r) with (FL_UMIST ROps eps r); apply pub_UMIST; exact Heps|].
  discriminate H.
Qed.

Theorem total_dispatch eps name r :
  0 < eps -> Forall (fun d => d <> 0) (FL_dens_dispatch ROps name eps r).
Proof.
  intros Heps. unfold FL_dens_dispatch.
  destruct (String.eqb name "CHARM"); [apply total_CHARM; exact Heps|].
  destruct (String.eqb name "HCUS"); [apply total_HCUS; exact Heps|].
  destruct (String.eqb name "HQUICK"); [apply total_HQUICK; exact Heps|].
  destruct (String.eqb name "ospre"); [apply total_ospre; exact Heps|].
  destruct (String.eqb name "VanLeer"); [apply total_VanLeer; exact Heps|].
  destruct (String.eqb name "VanAlbada1"); [apply total_VanAlbada1; exact Heps|].
  destruct (String.eqb name "VanAlbada2"); [apply total_VanAlbada2; exact Heps|].
  destruct (String.eqb name "MinMod"); [apply total_MinMod; exact Heps|].
  destruct (String.eqb name "SUPERBEE"); [apply total_SUPERBEE; exact Heps|].
  destruct (String.eqb name "Osher"); [apply total_Osher; exact Heps|].
  destruct (String.eqb name "Sweby"); [apply total_Sweby; exact Heps|].
  destruct (String.eqb name "smart"); [apply total_smart; exact Heps|].
  destruct (String.eqb name "Koren"); [apply total_Koren; exact Heps|].
  destruct (String.eqb name "MUSCL"); [apply total_MUSCL; exact Heps|].
  destruct (String.eqb name "QUICK"); [apply total_QUICK; exact Heps|].
  destruct (String.eqb name "UMIST"); [apply total_UMIST; exact Heps|].
  apply total_SUPERBEE; exact Heps.
Qed.

Theorem one_table name sp : lookup name sp_table = Some sp -> sp 1 = 1.
Proof.
  intros H. cbn [lookup sp_table] in H.
  destruct (String.eqb name "CHARM"); [injection H as <-; apply one_CHARM|].
  destruct (String.eqb name "HCUS"); [injection H as <-; apply one_HCUS|].
  destruct (String.eqb name "HQUICK"); [injection H as <-; apply one_HQUICK|].
  destruct (String.eqb name "ospre"); [injection H as <-; apply one_ospre|].
  destruct (String.eqb name "VanLeer"); [injection H as <-; apply one_VanLeer|].
  destruct (String.eqb name "VanAlbada1"); [injection H as <-; apply one_VanAlbada1|].
  destruct (String.eqb name "VanAlbada2"); [injection H as <-; apply one_VanAlbada2|].
  destruct (String.eqb name "MinMod"); [injection H as <-; apply one_MinMod|].
  destruct (String.eqb name "SUPERBEE"); [injection H as <-; apply one_SUPERBEE|].
  destruct (String.eqb name "Osher"); [injection H as <-; apply one_Osher|].
  destruct (String.eqb name "Sweby"); [injection H as <-; apply one_Sweby|].
  destruct (String.eqb name "smart"); [injection H as <-; apply one_smart|].
  destruct (String.eqb name "Koren"); [injection H as <-; apply one_Koren|].
  destruct (String.eqb name "MUSCL"); [injection H as <-; apply one_MUSCL|].
  destruct (String.eqb name "QUICK"); [injection H as <-; apply one_QUICK|].
  destruct (String.eqb name "UMIST"); [injection H as <-; apply one_UMIST|].
  discriminate H.
Qed.

Theorem range_table name sp r : lookup name sp_table = Some sp -> 0 < r -> 0 <= sp r <= Rmin (2 * r) 4.
Proof.
  intros H. cbn [lookup sp_table] in H.
  destruct (String.eqb name "CHARM"); [injection H as <-; apply range_CHARM|].
  destruct (String.eqb name "HCUS"); [injection H as <-; apply range_HCUS|].
  destruct (String.eqb name "HQUICK"); [injection H as <-; apply range_HQUICK|].
  destruct (String.eqb name "ospre"); [injection H as <-; apply range_ospre|].
  destruct (String.eqb name "VanLeer"); [injection H as <-; apply range_VanLeer|].
  destruct (String.eqb name "VanAlbada1"); [injection H as <-; apply range_VanAlbada1|].
  destruct (String.eqb name "VanAlbada2"); [injection H as <-; apply range_VanAlbada2|].
  destruct (String.eqb name "MinMod"); [injection H as <-; apply range_MinMod|].
  destruct (String.eqb name "SUPERBEE"); [injection H as <-; apply range_SUPERBEE|].
  destruct (String.eqb name "Osher"); [injection H as <-; apply range_Osher|].
  destruct (String.eqb name "Sweby"); [injection H as <-; apply range_Sweby|].
  destruct (String.eqb name "smart"); [injection H as <-; apply range_smart|].
  destruct (String.eqb name "Koren"); [injection H as <-; apply range_Koren|].
  destruct (String.eqb name "MUSCL"); [injection H as <-; apply range_MUSCL|].
  destruct (String.eqb name "QUICK"); [injection H as <-; apply range_QUICK|].
  destruct (String.eqb name "UMIST"); [injection H as <-; apply range_UMIST|].
  discriminate H.
Qed.

Theorem clip_table name sp r :
  In name clipped -> lookup name sp_table = Some sp -> r <= 0 -> sp r = 0.
Proof.
  intros Hin H. cbn [In clipped] in Hin.
  repeat (destruct Hin as [<-|Hin]; [cbn in H; injection H as <-; first [apply clip_MinMod|apply clip_SUPERBEE|apply clip_Osher|apply clip_Sweby|apply clip_Koren|apply clip_MUSCL|apply clip_QUICK|apply clip_UMIST|apply clip_smart|apply clip_VanLeer]|]).
  contradiction.
Qed.

(* unknown names fall back to SUPERBEE -- for every field *)
Theorem fallback_is_superbee (F : FieldOps) eps r : FL_fallback F eps r = FL_SUPERBEE F eps r.
Proof. reflexivity. Qed.

Lemma eqb_not_in name (l : list string) s : ~ In name l -> In s l -> String.eqb name s = false.
Proof.
  intros Hn Hs. destruct (String.eqb_spec name s) as [->|]; [contradiction|reflexivity].
Qed.

Theorem unknown_name_superbee (F : FieldOps) name eps r :
  ~ In name (FL_names) -> FL_dispatch F name eps r = FL_SUPERBEE F eps r.
Proof.
  intros Hn. unfold FL_dispatch.
  repeat match goal with
  | |- context [String.eqb name ?s] =>
      rewrite (eqb_not_in name FL_names s Hn) by (cbn; tauto)
  end.
  apply fallback_is_superbee.
Qed.

Theorem names_are_the_16 :
  forall n, In n FL_names <-> lookup n sp_table <> None.
Proof.
  intros n. split.
  - intros H. cbn [In FL_names] in H.
    repeat (destruct H as [<-|H]; [cbn; discriminate|]). contradiction.
  - intros H. cbn [lookup sp_table] in H. cbn [In FL_names].
    repeat match type of H with
    | context [String.eqb n ?s] =>
        let E := fresh "E" in
        destruct (String.eqb n s) eqn:E;
        [apply String.eqb_eq in E; rewrite E; repeat (try (left; reflexivity); right)|clear E]
    end.
    exfalso; apply H; reflexivity.
Qed.

(* _fsign never returns zero *)
Theorem fsign_nonzero eps1 x : 0 < eps1 -> fsign ROps eps1 x <> 0.
Proof.
  intros He. unfold fsign. rnorm. rcases; try lra; try nra.
Qed.
(* ... its magnitude never falls below the threshold: tiny NON-ZERO differences are clamped too, so a gradient ratio a / fsign x
   is bounded by |a| / eps1 (this is what keeps the ratio finite next to differences of order one) *)
Theorem fsign_lower_bound eps1 x : 0 < eps1 -> eps1 <= Rabs (fsign ROps eps1 x).
Proof.
  intros He. unfold fsign. rnorm. unfold Rabs. rcases; intros; repeat destruct (Rcase_abs _); try lra; try nra.
Qed.
Theorem fsign_same_sign eps1 x : 0 < eps1 -> 0 <= x * fsign ROps eps1 x.
Proof.
  intros He. unfold fsign. rnorm. unfold Rabs. rcases; intros; try lra; try nra.
Qed.
Theorem fsign_ratio_bounded eps1 a x : 0 < eps1 -> Rabs (a / fsign ROps eps1 x) <= Rabs a / eps1.
Proof.
  intros He. pose proof (fsign_lower_bound eps1 x He) as Hl.
  assert (Hn : fsign ROps eps1 x <> 0) by (intros E; rewrite E, Rabs_R0 in Hl; lra).
  unfold Rdiv. rewrite Rabs_mult, Rabs_Rinv by exact Hn.
  apply Rmult_le_compat_l; [apply Rabs_pos|].
  apply Rinv_le_contravar; [exact He|exact Hl].
Qed.
(* ... and is the identity away from the threshold *)
Theorem fsign_id eps1 x : 0 < eps1 -> eps1 <= Rabs x -> fsign ROps eps1 x = x.
Proof.
  intros He. unfold fsign. rnorm. unfold Rabs. rcases; intros; try lra; try nra.
Qed.
(* hence the guard commutes with a change of units g on every gradient that is above the threshold in BOTH unit systems *)
Theorem fsign_commutes_above_threshold eps1 g x : 0 < eps1 -> eps1 <= Rabs x -> eps1 <= Rabs (g * x) ->
  fsign ROps eps1 (g * x) = g * fsign ROps eps1 x.
Proof. intros He Hx Hgx. rewrite (fsign_id eps1 x He Hx). exact (fsign_id eps1 (g * x) He Hgx). Qed.

