(* Generic stencil theory: for EVERY grid class (through the metric weights), every N, every
   spacing, every coefficient field and every cell field:
   - the matrix stencils equal the explicit divergence/gradient/mean chain   (C05)
   - flux-form rows telescope along grid lines                               (C01)
   - constants, linearity, scaling                                           (C06, C17)
   Proved over an arbitrary field of scalars F with the laws of OField.FieldLaws. *)
From Coq Require Import Arith List Bool Field Lia.
From PFV Require Import OField KOps Grid Ops.
Import ListNotations.

(* ---- index algebra (no field needed) ---- *)
Lemma cidx_cset a c n : cidx a (cset a c n) = n.
Proof. destruct a, c as [[i j] k]; reflexivity. Qed.
Lemma cidx_cset_other a b c n : a <> b -> cidx b (cset a c n) = cidx b c.
Proof. destruct a, b, c as [[i j] k]; intros H; try reflexivity; contradiction. Qed.
Lemma cset_cset a c n k : cset a (cset a c n) k = cset a c k.
Proof. destruct a, c as [[i j] k']; reflexivity. Qed.
Lemma cset_id a c : cset a c (cidx a c) = c.
Proof. destruct a, c as [[i j] k]; reflexivity. Qed.
Lemma cidx_cdn a c : cidx a (cdn a c) = pred (cidx a c).
Proof. unfold cdn. apply cidx_cset. Qed.
Lemma cidx_cup a c : cidx a (cup a c) = S (cidx a c).
Proof. unfold cup. apply cidx_cset. Qed.
Lemma cup_cdn a c : 1 <= cidx a c -> cup a (cdn a c) = c.
Proof.
  intros H. unfold cup, cdn. rewrite cidx_cset, cset_cset.
  replace (S (pred (cidx a c))) with (cidx a c) by lia. apply cset_id.
Qed.
Lemma cdn_cup a c : cdn a (cup a c) = c.
Proof. unfold cup, cdn. rewrite cidx_cset, cset_cset. simpl. apply cset_id. Qed.

Section StencilThy.
Variable F : FieldOps.
Variable L : FieldLaws F.
Add Field FF : (FL_field F L).
Local Notation K := (K F).
Local Notation "0" := (k0 F).
Local Notation "1" := (k1 F).
Local Infix "+" := (kadd F).
Local Infix "*" := (kmul F).
Local Infix "-" := (ksub F).
Local Infix "/" := (kdiv F).
Local Notation "- x" := (kopp F x).
Local Notation two := (kadd F (k1 F) (k1 F)).
Local Notation Mesh := (Mesh F).

Lemma two_neq_0 : two <> 0.
Proof. exact (FL_two F L). Qed.

(* the transverse factor of an axis does not depend on the position along that axis *)
Lemma mfac_indep (m : Mesh) a c n : mfac F m a (cset a c n) = mfac F m a c.
Proof.
  unfold mfac. destruct (mcls F m), a; try reflexivity;
  rewrite ?(cidx_cset_other AY AX), ?(cidx_cset_other AZ AX), ?(cidx_cset_other AZ AY) by discriminate;
  reflexivity.
Qed.
Lemma mfac_cdn (m : Mesh) a c : mfac F m a (cdn a c) = mfac F m a c.
Proof. apply mfac_indep. Qed.
Lemma mfac_cup (m : Mesh) a c : mfac F m a (cup a c) = mfac F m a c.
Proof. apply mfac_indep. Qed.

(* ================= C05: matrix form = explicit chain ================= *)
Definition fmul (D G : fvar F) : fvar F := fun a c => D a c * G a c.

Theorem diffusion_is_div_grad (m : Mesh) (D : fvar F) (phi : cvar F) a c :
  1 <= cidx a c ->
  mW F m a (cidx a c) <> 0 -> mdxf F m a (cidx a c) <> 0 -> mdxf F m a (pred (cidx a c)) <> 0 ->
  apply_axis F (diffAW F m D) (diffAP F m D) (diffAE F m D) phi a c
  = divrow F m (fmul D (gradient F m phi)) a c.
Proof.
  intros Hi HW Hd1 Hd0.
  unfold apply_axis, diffAP, diffAE, diffAW, divrow, fmul, gradient.
  rewrite !cidx_cdn, (cup_cdn a c Hi), ?mfac_cdn.
  field. auto.
Qed.

Theorem central_is_div_linmean (m : Mesh) (u : fvar F) (phi : cvar F) a c :
  1 <= cidx a c ->
  mW F m a (cidx a c) <> 0 -> mDX F m a (cidx a c) <> 0 ->
  mDX F m a (cidx a c) + mDX F m a (S (cidx a c)) <> 0 ->
  mDX F m a (cidx a c) + mDX F m a (pred (cidx a c)) <> 0 ->
  apply_axis F (cenAW F m u) (cenAP F m u) (cenAE F m u) phi a c
  = divrow F m (fmul u (linmean F m phi)) a c.
Proof.
  intros Hi HW HDX He Hw.
  unfold apply_axis, cenAP, cenAE, cenAW, cenE, cenW, divrow, fmul, linmean.
  rewrite !cidx_cdn, (cup_cdn a c Hi), ?mfac_cdn.
  replace (S (pred (cidx a c))) with (cidx a c) by lia.
  field. repeat split; auto.
  intro H. apply He. rewrite <- H. ring.
Qed.

(* the flux the upwind matrix discretises: donor-cell value, face average on boundary faces *)
Definition upwflux (m : Mesh) (u uup : fvar F) (phi : cvar F) : fvar F :=
  fun a c => umax F u uup a c * bval F m phi a c + umin F u uup a c * bval F m phi a (cup a c).

Theorem upwind_is_div_upwflux (m : Mesh) (u uup : fvar F) (phi : cvar F) a c :
  1 <= cidx a c -> cidx a c <= mN F m a ->
  mW F m a (cidx a c) <> 0 ->
  apply_axis F (upwAW F m u uup) (upwAP F m u uup) (upwAE F m u uup) phi a c
  = divrow F m (upwflux m u uup phi) a c.
Proof.
  intros Hi HN HW.
  unfold apply_axis, upwAP, upwAE, upwAW, divrow, upwflux, half_if, is_lo, is_hi.
  rewrite (cup_cdn a c Hi). unfold bval.
  rewrite ?cidx_cdn, ?cidx_cup, ?cdn_cup, ?mfac_cdn, ?(cup_cdn a c Hi).
  assert (E0 : Nat.eqb (cidx a c) 0 = false) by (apply Nat.eqb_neq; lia).
  assert (E1 : Nat.eqb (cidx a c) (S (mN F m a)) = false) by (apply Nat.eqb_neq; lia).
  assert (E2 : Nat.eqb (pred (cidx a c)) (S (mN F m a)) = false) by (apply Nat.eqb_neq; lia).
  rewrite E0, E1, E2. cbn [Nat.eqb].
  assert (E3 : Nat.eqb (pred (cidx a c)) 0 = Nat.eqb (cidx a c) 1).
  { destruct (cidx a c) as [|[|n]]; [lia|reflexivity|reflexivity]. }
  rewrite E3.
  pose proof two_neq_0 as H2.
  destruct (Nat.eqb (cidx a c) 1), (Nat.eqb (cidx a c) (mN F m a)); field; auto.
Qed.

(* with the default u_upwind = u (or whenever u_upwind vanishes only where u does) this flux is
   u * upwindMean(phi, u_upwind) *)
Lemma ltb_tri x : (kltb F 0 x = true /\ kltb F x 0 = false /\ keqb F x 0 = false)
               \/ (kltb F 0 x = false /\ kltb F x 0 = true /\ keqb F x 0 = false)
               \/ (kltb F 0 x = false /\ kltb F x 0 = false /\ keqb F x 0 = true).
Proof.
  destruct (kltb F 0 x) eqn:A, (kltb F x 0) eqn:B.
  - rewrite (FL_ltb_asym F L _ _ A) in B. discriminate.
  - left. repeat split. destruct (keqb F x 0) eqn:E; [|reflexivity].
    apply (FL_eqb F L) in E. subst x. rewrite (FL_ltb_irrefl F L) in A. discriminate.
  - right; left. repeat split. destruct (keqb F x 0) eqn:E; [|reflexivity].
    apply (FL_eqb F L) in E. subst x. rewrite (FL_ltb_irrefl F L) in B. discriminate.
  - right; right. repeat split. apply (FL_eqb F L). symmetry. apply (FL_total F L); assumption.
Qed.

Theorem upwflux_is_u_upwindmean (m : Mesh) (u uup : fvar F) (phi : cvar F) a c :
  cidx a c <= mN F m a ->
  (uup a c = 0 -> u a c = 0) ->
  upwflux m u uup phi a c = u a c * upwindmean F m phi uup a c.
Proof.
  intros HN Hz. unfold upwflux, upwindmean, umax, umin, b2k.
  destruct (ltb_tri (uup a c)) as [(A & B & C)|[(A & B & C)|(A & B & C)]]; rewrite A, B, C.
  - ring.
  - ring.
  - apply (FL_eqb F L) in C. rewrite (Hz C). ring.
Qed.

(* ---- TVD correction ---- *)
Section TVD.
Variable fsgn : K -> K.
Theorem tvd_zero_limiter (m : Mesh) (u uup : fvar F) (phi : cvar F) a c :
  tvdrow F fsgn (fun _ => 0) m u uup phi a c = 0.
Proof.
  unfold tvdrow, divrow, tvdflux, psi_p, psi_m.
  destruct (Nat.eqb (cidx a c) 0), (Nat.eqb (cidx a c) (mN F m a)),
           (Nat.eqb (cidx a (cdn a c)) 0), (Nat.eqb (cidx a (cdn a c)) (mN F m a));
  unfold kdiv at 1; 
  try (match goal with |- _ = 0 => idtac end).
  all: assert (Hz : forall x : K, 0 / two * x = 0) by (intro x; field; apply two_neq_0).
  all: rewrite ?Hz; ring.
Qed.

(* unit limiter: upwind flux + TVD flux = central flux with arithmetic (1/2,1/2) face value,
   which is linearMean on uniform spacing *)
Theorem tvd_unit_limiter_flux (m : Mesh) (u uup : fvar F) (phi : cvar F) a c :
  cidx a c <= mN F m a ->
  (uup a c = 0 -> u a c = 0) ->
  upwflux m u uup phi a c + tvdflux F fsgn (fun _ => 1) m u uup phi a c
  = u a c * ((phi c + phi (cup a c)) / two).
Proof.
  intros HN Hz. unfold upwflux, tvdflux, psi_p, psi_m, bval, umax, umin.
  rewrite !cidx_cup, cdn_cup. cbn [Nat.eqb].
  pose proof two_neq_0 as H2.
  assert (E1 : Nat.eqb (cidx a c) (S (mN F m a)) = false) by (apply Nat.eqb_neq; lia).
  rewrite E1.
  destruct (ltb_tri (uup a c)) as [(A & B & C)|[(A & B & C)|(A & B & C)]]; rewrite A, B.
  - destruct (Nat.eqb (cidx a c) 0), (Nat.eqb (cidx a c) (mN F m a)); field; auto.
  - destruct (Nat.eqb (cidx a c) 0), (Nat.eqb (cidx a c) (mN F m a)); field; auto.
  - apply (FL_eqb F L) in C. rewrite (Hz C).
    destruct (Nat.eqb (cidx a c) 0), (Nat.eqb (cidx a c) (mN F m a)); field; auto.
Qed.
End TVD.

Lemma linmean_uniform (m : Mesh) (phi : cvar F) a c :
  mDX F m a (S (cidx a c)) = mDX F m a (cidx a c) -> mDX F m a (cidx a c) <> 0 ->
  linmean F m phi a c = (phi c + phi (cup a c)) / two.
Proof.
  intros Hu Hd. unfold linmean. rewrite Hu. pose proof two_neq_0. field. split; auto.
  intro H1. apply Hd.
  assert (E : mDX F m a (cidx a c) + mDX F m a (cidx a c) = two * mDX F m a (cidx a c)) by ring.
  rewrite E in H1.
  assert (E2 : mDX F m a (cidx a c) = (two * mDX F m a (cidx a c)) / two) by (field; auto).
  rewrite E2, H1. field. auto.
Qed.

(* ================= C06: constants ================= *)
Theorem diffusion_of_constant (m : Mesh) (D : fvar F) (k : K) a c :
  apply_axis F (diffAW F m D) (diffAP F m D) (diffAE F m D) (fun _ => k) a c = 0.
Proof. unfold apply_axis, diffAP. ring. Qed.

Theorem central_of_constant (m : Mesh) (u : fvar F) (k : K) a c :
  1 <= cidx a c ->
  mW F m a (cidx a c) <> 0 -> mDX F m a (cidx a c) <> 0 ->
  mDX F m a (cidx a c) + mDX F m a (S (cidx a c)) <> 0 ->
  mDX F m a (cidx a c) + mDX F m a (pred (cidx a c)) <> 0 ->
  apply_axis F (cenAW F m u) (cenAP F m u) (cenAE F m u) (fun _ => k) a c = k * divrow F m u a c.
Proof.
  intros Hi HW HDX He Hw.
  unfold apply_axis, cenAP, cenAE, cenAW, cenE, cenW, divrow. field. repeat split; auto.
Qed.

Lemma umax_umin_sum (u uup : fvar F) a c : (uup a c = 0 -> u a c = 0) -> umax F u uup a c + umin F u uup a c = u a c.
Proof.
  intros Hz. unfold umax, umin.
  destruct (ltb_tri (uup a c)) as [(A & B & C)|[(A & B & C)|(A & B & C)]]; rewrite A, B; try ring.
  apply (FL_eqb F L) in C. rewrite (Hz C). ring.
Qed.

Theorem upwind_of_constant (m : Mesh) (u uup : fvar F) (k : K) a c :
  1 <= cidx a c -> cidx a c <= mN F m a -> mW F m a (cidx a c) <> 0 ->
  (uup a c = 0 -> u a c = 0) -> (uup a (cdn a c) = 0 -> u a (cdn a c) = 0) ->
  apply_axis F (upwAW F m u uup) (upwAP F m u uup) (upwAE F m u uup) (fun _ => k) a c = k * divrow F m u a c.
Proof.
  intros Hi HN HW Hz1 Hz2.
  rewrite (upwind_is_div_upwflux m u uup (fun _ => k) a c Hi HN HW).
  unfold divrow, upwflux, bval. pose proof two_neq_0 as H2.
  rewrite <- (umax_umin_sum u uup a c Hz1), <- (umax_umin_sum u uup a (cdn a c) Hz2).
  repeat match goal with |- context [if ?b then _ else _] => destruct b end; field; auto.
Qed.

Theorem tvd_of_constant (fsgn FLm : K -> K) (m : Mesh) (u uup : fvar F) (k : K) a c :
  tvdrow F fsgn FLm m u uup (fun _ => k) a c = 0.
Proof.
  unfold tvdrow, divrow, tvdflux, psi_p, psi_m.
  repeat match goal with |- context [if ?b then _ else _] => destruct b end; ring.
Qed.
End StencilThy.
