(* The discrete operators of PyFVTool, written once, generically over the grid class via the
   metric weights (mA, mW, mfac) of Model/Grid.v.  Each definition names the Python builders
   it models; the correspondence suites compare it, class by class, with those builders. *)
From Coq Require Import Arith List Bool.
From PFV Require Import OField KOps Grid.
Import ListNotations.

Section Ops.
Variable F : FieldOps.
Local Notation K := (K F).
Local Notation "0" := (k0 F).
Local Notation "1" := (k1 F).
Local Infix "+" := (kadd F).
Local Infix "*" := (kmul F).
Local Infix "-" := (ksub F).
Local Infix "/" := (kdiv F).
Local Notation "- x" := (kopp F x).
Local Notation two := (kadd F (k1 F) (k1 F)).
Local Notation Mesh := (Mesh F).

Definition fvar := axis -> cell -> K.   (* value on the hi face of cell c along the axis *)
Definition cvar := cell -> K.

Definition ksum (l : list K) : K := fold_right (kadd F) 0 l.
Definition sum_axes (m : Mesh) (f : axis -> K) : K := ksum (map f (axes_of (mcls F m))).

(* ---- calculus.divergenceTerm* : flux-form row along one axis, and their sum ---- *)
Definition divrow (m : Mesh) (Fl : fvar) (a : axis) (c : cell) : K :=
  mfac F m a c / mW F m a (cidx a c)
  * (mA F m a (cidx a c) * Fl a c - mA F m a (pred (cidx a c)) * Fl a (cdn a c)).
Definition divergence (m : Mesh) (Fl : fvar) (c : cell) : K :=
  sum_axes m (fun a => divrow m Fl a c).

(* ---- calculus.gradientTerm ---- *)
Definition gradient (m : Mesh) (phi : cvar) : fvar :=
  fun a c => mfac F m a c * ((phi (cup a c) - phi c) / mdxf F m a (cidx a c)).

(* ---- averaging.* ---- *)
Definition linmean (m : Mesh) (phi : cvar) : fvar :=
  fun a c => let i := cidx a c in
    (mDX F m a (S i) * phi c + mDX F m a i * phi (cup a c)) / (mDX F m a (S i) + mDX F m a i).
Definition arithmean (m : Mesh) (phi : cvar) : fvar :=
  fun a c => let i := cidx a c in
    (mDX F m a i * phi c + mDX F m a (S i) * phi (cup a c)) / (mDX F m a (S i) + mDX F m a i).
(* harmonic mean with the 1D code's zero rule (0 if either neighbour is 0) *)
Definition harmmean (m : Mesh) (phi : cvar) : fvar :=
  fun a c => let i := cidx a c in
    if keqb F (phi c) 0 || keqb F (phi (cup a c)) 0 then 0
    else (mDX F m a (S i) + mDX F m a i) / (mDX F m a (S i) / phi (cup a c) + mDX F m a i / phi c).
(* value seen by the upwind scheme in cell p along a: boundary ghosts are replaced by the face average *)
Definition bval (m : Mesh) (phi : cvar) (a : axis) (c : cell) : K :=
  let i := cidx a c in
  if Nat.eqb i 0 then (phi c + phi (cup a c)) / two
  else if Nat.eqb i (S (mN F m a)) then (phi c + phi (cdn a c)) / two
  else phi c.
Definition upwindmean (m : Mesh) (phi : cvar) (u : fvar) : fvar :=
  fun a c =>
    b2k F (kltb F 0 (u a c)) * bval m phi a c
    + b2k F (kltb F (u a c) 0) * bval m phi a (cup a c)
    + b2k F (keqb F (u a c) 0) * ((phi c + phi (cup a c)) / two).

(* ---- diffusion.diffusionTerm* : stencil coefficients along one axis ---- *)
Definition diffAE (m : Mesh) (D : fvar) (a : axis) (c : cell) : K :=
  let i := cidx a c in
  mfac F m a c * mfac F m a c * mA F m a i * D a c / (mW F m a i * mdxf F m a i).
Definition diffAW (m : Mesh) (D : fvar) (a : axis) (c : cell) : K :=
  let i := cidx a c in
  mfac F m a c * mfac F m a c * mA F m a (pred i) * D a (cdn a c) / (mW F m a i * mdxf F m a (pred i)).
Definition diffAP (m : Mesh) (D : fvar) (a : axis) (c : cell) : K :=
  - (diffAE m D a c + diffAW m D a c).

(* ---- advection.convectionTerm* (central) ---- *)
Definition cenE (m : Mesh) (u : fvar) (a : axis) (c : cell) : K :=
  let i := cidx a c in
  mfac F m a c * mA F m a i * u a c * mDX F m a i / ((mDX F m a i + mDX F m a (S i)) * mW F m a i).
Definition cenW (m : Mesh) (u : fvar) (a : axis) (c : cell) : K :=
  let i := cidx a c in
  mfac F m a c * mA F m a (pred i) * u a (cdn a c) * mDX F m a i / ((mDX F m a i + mDX F m a (pred i)) * mW F m a i).
Definition cenAE m u a c := cenE m u a c.
Definition cenAW m u a c := - cenW m u a c.
Definition cenAP (m : Mesh) (u : fvar) (a : axis) (c : cell) : K :=
  let i := cidx a c in
  (cenE m u a c * mDX F m a (S i) - cenW m u a c * mDX F m a (pred i)) / mDX F m a i.

(* ---- advection.convectionUpwindTerm* ---- *)
Definition umax (u uup : fvar) : fvar := fun a c => if kltb F (uup a c) 0 then 0 else u a c.
Definition umin (u uup : fvar) : fvar := fun a c => if kltb F 0 (uup a c) then 0 else u a c.
Definition is_lo (a : axis) (c : cell) : bool := Nat.eqb (cidx a c) 1.
Definition is_hi (m : Mesh) (a : axis) (c : cell) : bool := Nat.eqb (cidx a c) (mN F m a).
Definition half_if (b : bool) (x : K) : K := if b then x / two else x.
Definition upwAE (m : Mesh) (u uup : fvar) (a : axis) (c : cell) : K :=
  let i := cidx a c in
  half_if (is_hi m a c) (mfac F m a c * mA F m a i * umin u uup a c / mW F m a i).
Definition upwAW (m : Mesh) (u uup : fvar) (a : axis) (c : cell) : K :=
  let i := cidx a c in
  half_if (is_lo a c) (- (mfac F m a c * mA F m a (pred i) * umax u uup a (cdn a c) / mW F m a i)).
Definition upwAP (m : Mesh) (u uup : fvar) (a : axis) (c : cell) : K :=
  let i := cidx a c in
  mfac F m a c * (mA F m a i * umax u uup a c - mA F m a (pred i) * umin u uup a (cdn a c)) / mW F m a i
  - (if is_lo a c then mfac F m a c * mA F m a (pred i) * umax u uup a (cdn a c) / (two * mW F m a i) else 0)
  + (if is_hi m a c then mfac F m a c * mA F m a i * umin u uup a c / (two * mW F m a i) else 0).

(* ---- advection.convectionTvdRHS* ---- *)
Variable fsgn : K -> K.     (* advection._fsign (generated: Gen/Limiters.fsign eps1) *)
Variable FL : K -> K.       (* the flux limiter *)
Definition dphi (m : Mesh) (phi : cvar) (a : axis) (c : cell) : K :=
  (phi (cup a c) - phi c) / mdxf F m a (cidx a c).
Definition psi_p (m : Mesh) (phi : cvar) (a : axis) (c : cell) : K :=
  if Nat.eqb (cidx a c) 0 then 0
  else FL (dphi m phi a (cdn a c) / fsgn (dphi m phi a c)) / two * (phi (cup a c) - phi c).
Definition psi_m (m : Mesh) (phi : cvar) (a : axis) (c : cell) : K :=
  if Nat.eqb (cidx a c) (mN F m a) then 0
  else FL (dphi m phi a (cup a c) / fsgn (dphi m phi a c)) / two * (phi c - phi (cup a c)).
Definition tvdflux (m : Mesh) (u uup : fvar) (phi : cvar) : fvar :=
  fun a c => umax u uup a c * psi_p m phi a c + umin u uup a c * psi_m m phi a c.
Definition tvdrow (m : Mesh) (u uup : fvar) (phi : cvar) (a : axis) (c : cell) : K :=
  - divrow m (tvdflux m u uup phi) a c.
Definition tvdrhs (m : Mesh) (u uup : fvar) (phi : cvar) (c : cell) : K :=
  sum_axes m (fun a => tvdrow m u uup phi a c).

(* ---- applying a 3-point stencil family to a field ---- *)
Definition apply_axis (AWc APc AEc : axis -> cell -> K) (phi : cvar) (a : axis) (c : cell) : K :=
  AWc a c * phi (cdn a c) + APc a c * phi c + AEc a c * phi (cup a c).
Definition apply_stencil (m : Mesh) (AWc APc AEc : axis -> cell -> K) (phi : cvar) (c : cell) : K :=
  sum_axes m (fun a => apply_axis AWc APc AEc phi a c).

(* the matrix row of cell number r as an association list column -> coefficient
   (interior rows: 2d+1 entries, diagonal summed over the axes; other rows: empty) *)
Definition stencil_row (m : Mesh) (AWc APc AEc : axis -> cell -> K) (r : nat) : list (nat * K) :=
  let c := cell_of_no F m r in
  if interior F m c then
    (cellno F m c, sum_axes m (fun a => APc a c))
    :: flat_map (fun a => [(cellno F m (cdn a c), AWc a c); (cellno F m (cup a c), AEc a c)]) (axes_of (mcls F m))
  else [].
Definition axis_row (m : Mesh) (AWc APc AEc : axis -> cell -> K) (a : axis) (r : nat) : list (nat * K) :=
  let c := cell_of_no F m r in
  if interior F m c then
    [(cellno F m c, APc a c); (cellno F m (cdn a c), AWc a c); (cellno F m (cup a c), AEc a c)]
  else [].
End Ops.
