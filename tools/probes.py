"""Direct evaluation of a property's observable on the real implementation (the 'search' of DESIGN 2.5).
Each probe returns the number of evaluations; violations are registered on ctx with a concrete replay."""
import random
import numpy as np
import gen
from common import rel, volumes, interior_slices, full_shape

TOL = 1e-9


def fmul(pf, mesh, A, B):
    return pf.FaceVariable(mesh, A._xvalue * B._xvalue, A._yvalue * B._yvalue if A._yvalue.size else np.array([]),
                           A._zvalue * B._zvalue if A._zvalue.size else np.array([]))


def lab(cname, fs, **kw):
    d = {"cls": cname, "faces": [list(map(float, f)) for f in fs]}
    for k, v in kw.items():
        d[k] = v.tolist() if isinstance(v, np.ndarray) else ([a.tolist() for a in v] if isinstance(v, tuple) else v)
    return d


def cases(ctx, pf, tag, reps_q=4, reps_t=25, uniform=False, nmin=1, nmax_q=3, nmax_t=5, classes=None):
    rng = random.Random(f"{tag}-{ctx.seed}")
    reps = reps_q if ctx.tier == "quick" else reps_t
    for cname in (classes or gen.CLASSES):
        for k in range(reps):
            fs = gen.mesh_case(rng, cname, nmax=(nmax_q if ctx.tier == "quick" else nmax_t), uniform=uniform, nmin=nmin)
            yield rng, cname, fs, gen.build_mesh(pf, cname, fs)


def interior_of(mesh, v):
    return np.asarray(v).reshape(full_shape(mesh))[interior_slices(len(mesh.dims))]


def probe_c05(ctx, pf):
    n = 0
    for rng, cname, fs, mesh in cases(ctx, pf, "c05"):
        ph = gen.cell_array(rng, mesh)
        phi = pf.CellVariable(mesh, ph)
        v = phi._value.ravel()
        Da = gen.face_arrays(rng, mesh, lo=0.0, hi=3.0)
        ua = gen.face_arrays(rng, mesh)
        D = pf.FaceVariable(mesh, *Da); u = pf.FaceVariable(mesh, *ua)
        wa = tuple(np.where(a == 0, 0.0, np.sign(np.cos(7 * a + 1))) if a.size else a for a in ua)
        w = pf.FaceVariable(mesh, *wa)
        with np.errstate(all="ignore"):
            checks = [
                ("diffusionTerm vs divergenceTerm(D*gradientTerm)", pf.diffusionTerm(D) @ v,
                 pf.divergenceTerm(fmul(pf, mesh, D, pf.gradientTerm(phi)))),
                ("convectionTerm vs divergenceTerm(u*linearMean)", pf.convectionTerm(u) @ v,
                 pf.divergenceTerm(fmul(pf, mesh, u, pf.linearMean(phi)))),
                ("convectionUpwindTerm vs divergenceTerm(u*upwindMean)", pf.convectionUpwindTerm(u) @ v,
                 pf.divergenceTerm(fmul(pf, mesh, u, pf.upwindMean(phi, u)))),
                ("convectionUpwindTerm(u,u_upwind) vs divergenceTerm(u*upwindMean(phi,u_upwind))",
                 pf.convectionUpwindTerm(u, w) @ v, pf.divergenceTerm(fmul(pf, mesh, u, pf.upwindMean(phi, w)))),
                ("TVD correction with zero limiter", pf.convectionTVDupwindRHSTerm(u, phi, lambda r: 0.0 * r),
                 np.zeros(v.size)),
            ]
        for what, a, b in checks:
            n += 1
            e = rel(interior_of(mesh, a), interior_of(mesh, b))
            if not e <= TOL:
                ctx.violation(f"c05:{cname}:{what}", f"{cname}: {what}: max relative deviation {e:.3g}",
                              lab(cname, fs, D=Da, u=ua, u_upwind=wa, phi_with_ghosts=phi._value, what=what))
    # unit limiter on uniform grids
    for rng, cname, fs, mesh in cases(ctx, pf, "c05u", uniform=True):
        ph = gen.cell_array(rng, mesh)
        phi = pf.CellVariable(mesh, ph); v = phi._value.ravel()
        ua = gen.face_arrays(rng, mesh); u = pf.FaceVariable(mesh, *ua)
        with np.errstate(all="ignore"):
            a = pf.convectionUpwindTerm(u) @ v - pf.convectionTVDupwindRHSTerm(u, phi, lambda r: 1.0 + 0.0 * r)
            b = pf.convectionTerm(u) @ v
        n += 1
        e = rel(interior_of(mesh, a), interior_of(mesh, b))
        if not e <= TOL:
            ctx.violation(f"c05:{cname}:unit-limiter", f"{cname}: upwind - TVD(unit limiter) != central on a uniform grid: {e:.3g}",
                          lab(cname, fs, u=ua, phi_with_ghosts=phi._value))
    # known finding: u_upwind exactly zero on a face where u is not
    m = pf.Grid1D(np.array([0., 1., 2., 3., 4.]))
    u = pf.FaceVariable(m, 1.0)
    w = pf.FaceVariable(m, np.array([1., 1., 0., 1., 1.]), np.array([]), np.array([]))
    phi = pf.CellVariable(m, np.array([1., 2., 4., 8., 16., 32.]))
    a = (pf.convectionUpwindTerm(u, w) @ phi._value)[1:-1]
    b = pf.divergenceTerm(fmul(pf, m, u, pf.upwindMean(phi, w)))[1:-1]
    n += 1
    if rel(a, b) > TOL:
        ctx.violation("c05:zero_u_upwind", "convectionUpwindTerm(u, u_upwind) counts a face flux twice where u_upwind == 0 but u != 0",
                      {"cls": "Grid1D", "faces": [[0, 1, 2, 3, 4]], "u": 1.0, "u_upwind": [1, 1, 0, 1, 1],
                       "phi_with_ghosts": [1, 2, 4, 8, 16, 32], "matrix_form": a.tolist(), "chain": b.tolist()})
    return n


def probe_c06(ctx, pf):
    n = 0
    for rng, cname, fs, mesh in cases(ctx, pf, "c06"):
        cval = rng.choice([1.0, -2.5, 3.0, 0.75])
        v = np.full(int(np.prod(full_shape(mesh))), cval)
        phi = pf.CellVariable(mesh, v.reshape(full_shape(mesh)))
        Da = gen.face_arrays(rng, mesh, lo=0.0, hi=3.0); ua = gen.face_arrays(rng, mesh)
        D = pf.FaceVariable(mesh, *Da); u = pf.FaceVariable(mesh, *ua)
        FL = pf.fluxLimiter(rng.choice(["SUPERBEE", "Koren", "VanLeer", "CHARM"]))
        with np.errstate(all="ignore"):
            divu = cval * pf.divergenceTerm(u)
            checks = [("diffusionTerm of a constant", pf.diffusionTerm(D) @ v, 0 * v),
                      ("convectionTerm of a constant", pf.convectionTerm(u) @ v, divu),
                      ("convectionUpwindTerm of a constant", pf.convectionUpwindTerm(u) @ v, divu),
                      ("TVD-corrected advection of a constant",
                       pf.convectionUpwindTerm(u) @ v - pf.convectionTVDupwindRHSTerm(u, phi, FL), divu)]
        for what, a, b in checks:
            n += 1
            e = rel(interior_of(mesh, a), interior_of(mesh, b))
            if not e <= TOL:
                ctx.violation(f"c06:{cname}:{what}", f"{cname}: {what} is not c*div(u): deviation {e:.3g}",
                              lab(cname, fs, D=Da, u=ua, c=cval, what=what))
        # sources act cell-locally: beta*phi = gamma alone gives gamma/beta
        beta = pf.CellVariable(mesh, np.abs(gen.cell_array(rng, mesh)) + 0.5)
        gamma = pf.CellVariable(mesh, gen.cell_array(rng, mesh))
        x = pf.CellVariable(mesh, 0.0)
        try:
            pf.solvePDE(x, [pf.linearSourceTerm(beta), pf.constantSourceTerm(gamma)])
            got = x.value; want = gamma.value / beta.value
            n += 1
            if rel(got, want) > TOL:
                ctx.violation(f"c06:{cname}:source", f"{cname}: beta*phi=gamma alone does not give gamma/beta",
                              lab(cname, fs, beta=beta._value, gamma=gamma._value))
        except Exception as ex:
            ctx.violation(f"c06:{cname}:source-raise", f"{cname}: solvePDE with sources only raised {type(ex).__name__}: {ex}", lab(cname, fs))
    return n


def inner_columns(mesh):
    """flat indices of cells at least 2 away from every boundary along each axis"""
    dims = [int(k) for k in mesh.dims]
    if any(k < 3 for k in dims):
        return []
    shape = full_shape(mesh)
    G = np.arange(int(np.prod(shape))).reshape(shape)
    return G[tuple(slice(2, -2) for _ in dims)].ravel().tolist()


def probe_c01(ctx, pf):
    """interior faces cancel: for fields supported away from the boundary the V-weighted sum of every
    flux-form term vanishes; closed systems keep domainIntegral under implicit and explicit steps"""
    n = 0
    for rng, cname, fs, mesh in cases(ctx, pf, "c01", nmin=3, nmax_q=4, nmax_t=6):
        cols = inner_columns(mesh)
        if not cols:
            continue
        V = volumes(pf, mesh, cname)
        shape = full_shape(mesh); d = len(shape)
        ph = np.zeros(int(np.prod(shape)))
        for cidx in cols:
            ph[cidx] = gen.dy(rng, -2, 2, 4, 0.0) or 1.0
        phi = pf.CellVariable(mesh, ph.reshape(shape)); v = phi._value.ravel()
        Da = gen.face_arrays(rng, mesh, lo=0.0, hi=3.0); ua = gen.face_arrays(rng, mesh)
        D = pf.FaceVariable(mesh, *Da); u = pf.FaceVariable(mesh, *ua)
        FL = pf.fluxLimiter(rng.choice(["SUPERBEE", "Koren", "VanLeer", "MinMod"]))
        with np.errstate(all="ignore"):
            terms = [("diffusionTerm", pf.diffusionTerm(D) @ v), ("convectionTerm", pf.convectionTerm(u) @ v),
                     ("convectionUpwindTerm", pf.convectionUpwindTerm(u) @ v),
                     ("divergenceTerm(D*gradientTerm)", pf.divergenceTerm(fmul(pf, mesh, D, pf.gradientTerm(phi))))]
            if all(int(k) >= 5 for k in mesh.dims):
                # TVD stencil is two cells wide: use a field supported 3 cells away from the boundary
                ph2 = np.zeros(shape); ph2[tuple(slice(3, -3) for _ in shape)] = 1.5
                phi2 = pf.CellVariable(mesh, ph2)
                terms.append(("convectionTVDupwindRHSTerm", pf.convectionTVDupwindRHSTerm(u, phi2, FL)))
        for what, t in terms:
            n += 1
            tot = float(np.sum(V * interior_of(mesh, t)))
            scale = float(np.sum(np.abs(V * interior_of(mesh, t)))) + 1e-300
            if abs(tot) > 1e-9 * scale + 1e-12:
                ctx.violation(f"c01:{cname}:{what}",
                              f"{cname}: {what}: interior face fluxes do not cancel (volume-weighted sum {tot:.6g}, scale {scale:.3g})",
                              lab(cname, fs, D=Da, u=ua, phi_with_ghosts=phi._value, what=what))
    return n
