(* C12 — Time stepping: steady states are fixed points; identities behind dt->0 and dt->inf; explicit step. *)
From Coq Require Import Arith List.
From PFV Require Import OField KOps Grid Ops Boundary Solver StencilThy SolverThy.

Theorem C12_backward_euler_row : forall (F : FieldOps) (L : FieldLaws F) (m : Mesh F) (bc : BCs F) (sp : list (term F))
    alpha (dt : F) old x c,
  dt <> k0 F -> is_solution F m bc (TTrans F alpha dt old :: sp) x -> interior F m c = true ->
  kadd F (kdiv F (kmul F (alpha c) (ksub F (x c) (old c))) dt) (sys_lhs F m sp x c) = sys_rhs F m sp c.
Proof. exact backward_euler_row. Qed.
Print Assumptions C12_backward_euler_row.

Theorem C12_steady_is_fixed_point : forall (F : FieldOps) (L : FieldLaws F) (m : Mesh F) (bc : BCs F) (sp : list (term F))
    alpha (dt : F) x,
  dt <> k0 F -> is_solution F m bc sp x -> is_solution F m bc (TTrans F alpha dt x :: sp) x.
Proof. exact steady_is_fixed_point. Qed.
Print Assumptions C12_steady_is_fixed_point.

Theorem C12_fixed_point_is_steady : forall (F : FieldOps) (L : FieldLaws F) (m : Mesh F) (bc : BCs F) (sp : list (term F))
    alpha (dt : F) x,
  dt <> k0 F -> is_solution F m bc (TTrans F alpha dt x :: sp) x -> is_solution F m bc sp x.
Proof. exact fixed_point_is_steady. Qed.
Print Assumptions C12_fixed_point_is_steady.

(* new - old = (dt/alpha)(b - S new): tends to 0 with dt for bounded solutions, and S new - b = -(alpha/dt)(new-old)
   tends to 0 as dt -> infinity *)
Theorem C12_increment_identity : forall (F : FieldOps) (L : FieldLaws F) (m : Mesh F) (bc : BCs F) (sp : list (term F))
    alpha (dt : F) old x c,
  dt <> k0 F -> alpha c <> k0 F -> is_solution F m bc (TTrans F alpha dt old :: sp) x -> interior F m c = true ->
  ksub F (x c) (old c) = kmul F (kdiv F dt (alpha c)) (ksub F (sys_rhs F m sp c) (sys_lhs F m sp x c)).
Proof. exact increment_identity. Qed.
Print Assumptions C12_increment_identity.

Theorem C12_explicit_interior : forall (F : FieldOps) (m : Mesh F) (bc : BCs F) old (dt : F) rhs c,
  interior F m c = true -> explicit_step F m bc old dt rhs c = kadd F (old c) (kmul F dt (rhs c)).
Proof. exact explicit_step_interior. Qed.
Print Assumptions C12_explicit_interior.
Theorem C12_explicit_boundary : forall (F : FieldOps) (m : Mesh F) (bc : BCs F) old (dt : F) rhs g a hi,
  interior F m g = false -> ghost_axis F m g = Some (a, hi) ->
  explicit_step F m bc old dt rhs g = ghost_value F m bc (fun c => kadd F (old c) (kmul F dt (rhs c))) a hi g.
Proof. exact explicit_step_boundary. Qed.
Print Assumptions C12_explicit_boundary.

From Coq Require Import Reals.
From PFV Require Import Boundary Solver StencilThy ConservThy MaxPrincipleThy MaxPrincipleModel ComparisonThy.

(* ---- the limits, with explicit rates, on every grid class and dimension (Theory/ComparisonThy.v): spatial operator
   S = -diffusionTerm(D) + convectionUpwindTerm(u) + linearSourceTerm(beta), D >= 0, u discretely divergence-free, over R ---- *)
Section C12b.
Import ListNotations.
Local Open Scope R_scope.
Variable m : Mesh ROps.
Variable D u : fvar ROps.
Variable cells : list cell.
Hypothesis Hne : cells <> [].
Hypothesis Hcells : forall c a, In c cells -> In a (active_axes ROps m) ->
  (1 <= cidx a c <= mN ROps m a)%nat /\ signs_ok m D c a.
Hypothesis Hdiv : forall c, In c cells -> rsuml (fun a => divrow ROps m u a c) (active_axes ROps m) = 0.

(* dt -> infinity: the step is within  W*A/(A + dt*B)  of the steady solution (W >= |old - steady|, alpha <= A, beta >= B > 0) *)
Theorem C12_step_to_steady : forall (alpha beta s old x y : cvar ROps) (dt W A B : R),
  0 < dt -> 0 <= W -> 0 < B ->
  (forall c, In c cells -> 0 < alpha c <= A /\ B <= beta c) ->
  (forall c, In c cells -> be_row m D u alpha beta s old dt x c) ->
  (forall c, In c cells -> steady_row m D u beta s y c) ->
  (forall c, In c cells -> Rabs (old c - y c) <= W) ->
  (forall c a, In c cells -> In a (active_axes ROps m) ->
     nb_homog cells (fun c => x c - y c) c (cdn a c) /\ nb_homog cells (fun c => x c - y c) c (cup a c)) ->
  forall c, In c cells -> Rabs (x c - y c) <= W * A / (A + dt * B).
Proof. exact (step_to_steady m D u cells Hne Hcells Hdiv). Qed.
(* dt -> 0: the step is within  dt*P/a0  of the old field (P >= |steady residual of the old field|, alpha >= a0 > 0) *)
Theorem C12_step_to_old : forall (alpha beta s old x : cvar ROps) (dt P a0 : R),
  0 < dt -> 0 <= P -> 0 < a0 ->
  (forall c, In c cells -> a0 <= alpha c /\ 0 <= beta c) ->
  (forall c, In c cells -> be_row m D u alpha beta s old dt x c) ->
  (forall c, In c cells -> Rabs (s c - Srow m D u beta old c) <= P) ->
  (forall c a, In c cells -> In a (active_axes ROps m) ->
     nb_homog cells (fun c => x c - old c) c (cdn a c) /\ nb_homog cells (fun c => x c - old c) c (cup a c)) ->
  forall c, In c cells -> Rabs (x c - old c) <= dt * P / a0.
Proof. exact (step_to_old m D u cells Hne Hcells Hdiv). Qed.
(* implicit vs explicit step: O(dt^2) *)
Theorem C12_implicit_vs_explicit : forall (alpha beta s old xi xe w : cvar ROps) (dt Q a0 : R),
  0 < dt -> 0 <= Q -> 0 < a0 ->
  (forall c, In c cells -> a0 <= alpha c /\ 0 <= beta c) ->
  (forall c, In c cells -> be_row m D u alpha beta s old dt xi c) ->
  (forall c, In c cells -> alpha c * w c = s c - Srow m D u beta old c) ->
  (forall c, xe c = old c + dt * w c) ->
  (forall c, In c cells -> Rabs (Srow m D u beta w c) <= Q) ->
  (forall c a, In c cells -> In a (active_axes ROps m) ->
     nb_homog cells (fun c => xi c - xe c) c (cdn a c) /\ nb_homog cells (fun c => xi c - xe c) c (cup a c)) ->
  forall c, In c cells -> Rabs (xi c - xe c) <= dt * dt * Q / a0.
Proof. exact (implicit_vs_explicit m D u cells Hne Hcells Hdiv). Qed.
End C12b.
Print Assumptions C12_step_to_steady.
Print Assumptions C12_step_to_old.
Print Assumptions C12_implicit_vs_explicit.
(* the rates vanish in the limits *)
Theorem C12_rate_to_steady_vanishes : forall W A B : R, (0 <= W)%R -> (0 < A)%R -> (0 < B)%R ->
  forall eps, (0 < eps)%R -> exists T, (0 < T)%R /\ forall dt, (T < dt)%R -> (W * A / (A + dt * B) < eps)%R.
Proof. exact rate_to_steady_vanishes. Qed.
Theorem C12_rate_to_old_vanishes : forall P a0 : R, (0 <= P)%R -> (0 < a0)%R ->
  forall eps, (0 < eps)%R -> exists d, (0 < d)%R /\ forall dt, (0 < dt < d)%R -> (dt * P / a0 < eps)%R.
Proof. exact rate_to_old_vanishes. Qed.
Print Assumptions C12_rate_to_steady_vanishes.
(* the row hypotheses are the interior equations of is_solution for the documented term lists *)
Theorem C12_rows_from_is_solution : forall (m : Mesh ROps) (bc : BCs ROps) (D u : fvar ROps) (x alpha beta s old : cvar ROps) (dt : R) c,
  dt <> 0%R ->
  is_solution ROps m bc (TTrans ROps alpha dt old :: TDiff ROps (-1)%R D :: TUpw ROps 1%R u u :: TLin ROps 1%R beta :: TConst ROps 1%R s :: nil) x ->
  Grid.interior ROps m c = true ->
  be_row m D u alpha beta s old dt x c.
Proof. exact is_solution_be_row. Qed.
Theorem C12_steady_rows_from_is_solution : forall (m : Mesh ROps) (bc : BCs ROps) (D u : fvar ROps) (y beta s : cvar ROps) c,
  is_solution ROps m bc (TDiff ROps (-1)%R D :: TUpw ROps 1%R u u :: TLin ROps 1%R beta :: TConst ROps 1%R s :: nil) y ->
  Grid.interior ROps m c = true ->
  steady_row m D u beta s y c.
Proof. exact is_solution_steady_row. Qed.
Print Assumptions C12_rows_from_is_solution.

(* the dt -> infinity limit for solutions of the assembled systems, hypotheses on the data only (Theory/ClosureThy.v) *)
From PFV Require Import ClosureThy.
Theorem C12_solution_step_to_steady : forall (m : Mesh ROps) (bc : BCs ROps) (D u : fvar ROps),
  interior_cells ROps m <> nil ->
  (forall c a, In c (interior_cells ROps m) -> In a (active_axes ROps m) -> (1 <= cidx a c <= mN ROps m a)%nat /\ signs_ok m D c a) ->
  (forall c, In c (interior_cells ROps m) -> rsuml (fun a => divrow ROps m u a c) (active_axes ROps m) = 0%R) ->
  bc_sign_ok m bc ->
  forall (alpha beta s old x y : cvar ROps) (dt W A B : R),
  (0 < dt)%R -> (0 <= W)%R -> (0 < B)%R ->
  (forall c, In c (interior_cells ROps m) -> (0 < alpha c <= A)%R /\ (B <= beta c)%R) ->
  is_solution ROps m bc (tlist D u alpha beta s old dt) x ->
  is_solution ROps m bc (TDiff ROps (-1)%R D :: TUpw ROps 1%R u u :: TLin ROps 1%R beta :: TConst ROps 1%R s :: nil) y ->
  (forall c, In c (interior_cells ROps m) -> (Rabs (old c - y c) <= W)%R) ->
  forall c, In c (interior_cells ROps m) -> (Rabs (x c - y c) <= W * A / (A + dt * B))%R.
Proof. exact solution_step_to_steady. Qed.
Print Assumptions C12_solution_step_to_steady.
