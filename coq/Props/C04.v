(* C04 — solvePDE solves exactly the system its term list and BCs define, in place.
   is_solution (Model/Solver.v): term rows on interior cells only, boundary rows on the others; the suite
   `solve` evaluates this model system at the real solver's answer for random term lists. *)
From Coq Require Import Arith List Permutation.
From PFV Require Import OField KOps Grid Ops Boundary Solver StencilThy SolverThy.

Theorem C04_order_irrelevant : forall (F : FieldOps) (L : FieldLaws F) (m : Mesh F) (bc : BCs F) (ts ts' : list (term F)) (x : cvar F),
  Permutation ts ts' -> is_solution F m bc ts x -> is_solution F m bc ts' x.
Proof. exact solution_perm. Qed.
Print Assumptions C04_order_irrelevant.

Theorem C04_linear_in_unknown : forall (F : FieldOps) (L : FieldLaws F) (m : Mesh F) (ts : list (term F)) (k : F) (x y : cvar F) c,
  sys_lhs F m ts (lincomb F k x y) c = kadd F (kmul F k (sys_lhs F m ts x c)) (sys_lhs F m ts y c).
Proof. exact sys_lhs_lin. Qed.
Print Assumptions C04_linear_in_unknown.

Theorem C04_superposition : forall (F : FieldOps) (L : FieldLaws F) (m : Mesh F) (bc : BCs F) (ts : list (term F)) (k : F)
    (x y : cvar F) (r1 r2 b1 b2 : cell -> F),
  (forall c, interior F m c = true -> sys_lhs F m ts x c = r1 c) ->
  (forall c, interior F m c = true -> sys_lhs F m ts y c = r2 c) ->
  (forall g, interior F m g = false -> bc_lhs F m bc x g = b1 g) ->
  (forall g, interior F m g = false -> bc_lhs F m bc y g = b2 g) ->
  (forall c, interior F m c = true -> sys_lhs F m ts (lincomb F k x y) c = kadd F (kmul F k (r1 c)) (r2 c)) /\
  (forall g, interior F m g = false -> bc_lhs F m bc (lincomb F k x y) g = kadd F (kmul F k (b1 g)) (b2 g)).
Proof. exact superposition. Qed.
Print Assumptions C04_superposition.

(* terms never contribute to boundary equations: the boundary part of is_solution does not mention ts *)
Theorem C04_terms_interior_only : forall (F : FieldOps) (m : Mesh F) (bc : BCs F) (ts ts' : list (term F)) (x : cvar F),
  is_solution F m bc ts x ->
  forall g, interior F m g = false -> in_range F m g -> bc_lhs F m bc x g = bc_rhs F m bc g.
Proof. intros F m bc ts ts' x [_ H] g Hg Hr. exact (H g Hg Hr). Qed.
Print Assumptions C04_terms_interior_only.
