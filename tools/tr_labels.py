#!/usr/bin/env python3
"""Fail-closed translator: label accessors of face.FaceVariable, coordinate properties of mesh.CellProp and
the coordlabels dictionaries of the nine grid constructors  ->  coq/Gen/Labels.v (finite tables)."""
import ast, sys, os

CLS = {"Grid1D": "G1", "CylindricalGrid1D": "C1", "SphericalGrid1D": "S1", "Grid2D": "G2", "CylindricalGrid2D": "C2",
       "PolarGrid2D": "P2", "Grid3D": "G3", "CylindricalGrid3D": "C3", "SphericalGrid3D": "S3"}
ORDER = ["G1", "C1", "S1", "G2", "C2", "P2", "G3", "C3", "S3"]
SLOT = {"_xvalue": 0, "_yvalue": 1, "_zvalue": 2, "_x": 0, "_y": 1, "_z": 2}
LABELS = ["x", "y", "z", "r", "theta", "phi"]


class TranslateError(Exception):
    pass


def type_test(t):
    """type(self.domain) is X  -> 'X'"""
    if (isinstance(t, ast.Compare) and len(t.ops) == 1 and isinstance(t.ops[0], ast.Is)
            and isinstance(t.left, ast.Call) and isinstance(t.left.func, ast.Name) and t.left.func.id == "type"
            and len(t.left.args) == 1 and isinstance(t.left.args[0], ast.Attribute) and t.left.args[0].attr == "domain"
            and isinstance(t.comparators[0], ast.Name) and t.comparators[0].id in CLS):
        return CLS[t.comparators[0].id]
    raise TranslateError("unsupported class test " + ast.dump(t)[:200])


def classes_of(test):
    if isinstance(test, ast.BoolOp) and isinstance(test.op, ast.Or):
        return [type_test(v) for v in test.values]
    return [type_test(test)]


def action_of(body, setter):
    if len(body) != 1:
        raise TranslateError("branch body must be a single statement")
    st = body[0]
    if isinstance(st, ast.Raise) and isinstance(st.exc, ast.Call) and isinstance(st.exc.func, ast.Name):
        n = st.exc.func.id
        return {"AttributeError": "AttrErr", "NotImplementedError": "NotImplErr"}.get(n, "OtherErr")
    if not setter and isinstance(st, ast.Return) and isinstance(st.value, ast.Attribute) \
            and isinstance(st.value.value, ast.Name) and st.value.value.id == "self" and st.value.attr in SLOT:
        return f"Slot {SLOT[st.value.attr]}"
    if setter and isinstance(st, ast.Assign) and len(st.targets) == 1 and isinstance(st.targets[0], ast.Attribute) \
            and isinstance(st.targets[0].value, ast.Name) and st.targets[0].value.id == "self" \
            and st.targets[0].attr in SLOT and isinstance(st.value, ast.Name) and st.value.id == "value":
        return f"Slot {SLOT[st.targets[0].attr]}"
    raise TranslateError("unsupported branch body " + ast.dump(st)[:200])


def chain(fd, setter):
    body = [s for s in fd.body if not (isinstance(s, ast.Expr) and isinstance(s.value, ast.Constant))]
    if len(body) != 1 or not isinstance(body[0], ast.If):
        raise TranslateError(f"{fd.name}: expected a single if-chain")
    table = {}
    node = body[0]
    while True:
        act = action_of(node.body, setter)
        for c in classes_of(node.test):
            if c not in table:
                table[c] = act
        if len(node.orelse) == 1 and isinstance(node.orelse[0], ast.If):
            node = node.orelse[0]
            continue
        default = action_of(node.orelse, setter) if node.orelse else "OtherErr"
        break
    return [table.get(c, default) for c in ORDER]


def face_tables(repo):
    tree = ast.parse(open(os.path.join(repo, "src/pyfvtool/face.py")).read())
    fvc = [n for n in tree.body if isinstance(n, ast.ClassDef) and n.name == "FaceVariable"]
    if len(fvc) != 1:
        raise TranslateError("FaceVariable not found")
    get, st = {}, {}
    for fd in fvc[0].body:
        if not isinstance(fd, ast.FunctionDef) or not fd.name.endswith("value") or fd.name.startswith("_"):
            continue
        lab = fd.name[:-5]
        decs = fd.decorator_list
        if len(decs) != 1:
            continue
        d = decs[0]
        if isinstance(d, ast.Name) and d.id == "property":
            get[lab] = chain(fd, False)
        elif isinstance(d, ast.Attribute) and d.attr == "setter":
            st[lab] = chain(fd, True)
    for l in LABELS:
        if l not in get or l not in st:
            raise TranslateError(f"accessor {l}value (get/set) not found")
    return get, st


def dict_of(node):
    if not isinstance(node, ast.Dict):
        raise TranslateError("coordlabels must be a dict literal")
    out = []
    for k, v in zip(node.keys, node.values):
        if not (isinstance(k, ast.Constant) and isinstance(v, ast.Constant) and v.value in SLOT):
            raise TranslateError("coordlabels entries must be string literals")
        out.append((k.value, SLOT[v.value]))
    return out


def mesh_tables(repo):
    tree = ast.parse(open(os.path.join(repo, "src/pyfvtool/mesh.py")).read())
    classes = {n.name: n for n in tree.body if isinstance(n, ast.ClassDef)}
    defaults = {}
    for cn, c in classes.items():
        for fd in c.body:
            if isinstance(fd, ast.FunctionDef) and fd.name.startswith("_mesh_") and fd.name.endswith("_param"):
                kws = dict(zip([a.arg for a in fd.args.kwonlyargs], fd.args.kw_defaults))
                if "coordlabels" not in kws or kws["coordlabels"] is None:
                    raise TranslateError(f"{fd.name}: coordlabels default not found")
                defaults[fd.name] = dict_of(kws["coordlabels"])
    coord = {}
    for py, cq in CLS.items():
        c = classes.get(py)
        if c is None:
            raise TranslateError(f"class {py} not found")
        inits = [fd for fd in c.body if isinstance(fd, ast.FunctionDef) and fd.name == "__init__" and fd.args.vararg is not None]
        if len(inits) != 1:
            raise TranslateError(f"{py}.__init__(*args) not found")
        calls = [n for n in ast.walk(inits[0]) if isinstance(n, ast.Call) and isinstance(n.func, ast.Attribute)
                 and n.func.attr in defaults]
        if len(calls) != 1:
            raise TranslateError(f"{py}: expected exactly one _mesh_*_param call")
        kw = [k for k in calls[0].keywords if k.arg == "coordlabels"]
        coord[cq] = dict_of(kw[0].value) if kw else defaults[calls[0].func.attr]
    # CellProp properties
    cp = classes.get("CellProp")
    if cp is None:
        raise TranslateError("CellProp not found")
    allowed = {}
    for fd in cp.body:
        if isinstance(fd, ast.FunctionDef) and fd.name in LABELS and fd.decorator_list \
                and isinstance(fd.decorator_list[0], ast.Name) and fd.decorator_list[0].id == "property":
            body = [s for s in fd.body if not (isinstance(s, ast.Expr) and isinstance(s.value, ast.Constant))]
            if len(body) != 1 or not isinstance(body[0], ast.If):
                raise TranslateError(f"CellProp.{fd.name}: unexpected shape")
            outer = body[0]
            t = outer.test
            if not (isinstance(t, ast.Compare) and isinstance(t.left, ast.Constant) and t.left.value == fd.name
                    and isinstance(t.ops[0], ast.In)):
                raise TranslateError(f"CellProp.{fd.name}: expected \"'{fd.name}' in self.coordlabels\"")
            if len(outer.orelse) != 1 or action_of(outer.orelse, False) != "AttrErr":
                raise TranslateError(f"CellProp.{fd.name}: missing AttributeError branch")
            slots = []
            node = outer.body[0] if len(outer.body) == 1 else None
            while isinstance(node, ast.If):
                tt = node.test
                if not (isinstance(tt, ast.Compare) and isinstance(tt.ops[0], ast.Eq) and isinstance(tt.comparators[0], ast.Constant)
                        and tt.comparators[0].value in SLOT and isinstance(tt.left, ast.Subscript)):
                    raise TranslateError(f"CellProp.{fd.name}: unexpected inner test")
                act = action_of(node.body, False)
                want = SLOT[tt.comparators[0].value]
                if act != f"Slot {want}":
                    raise TranslateError(f"CellProp.{fd.name}: label maps '{tt.comparators[0].value}' to a different array")
                slots.append(want)
                if len(node.orelse) == 1 and isinstance(node.orelse[0], ast.If):
                    node = node.orelse[0]
                else:
                    if action_of(node.orelse, False) != "AttrErr":
                        raise TranslateError(f"CellProp.{fd.name}: inner else must raise AttributeError")
                    node = None
            allowed[fd.name] = slots
        elif isinstance(fd, ast.FunctionDef) and fd.decorator_list and isinstance(fd.decorator_list[0], ast.Attribute) \
                and fd.decorator_list[0].attr == "setter":
            raise TranslateError(f"CellProp.{fd.name} has a setter (coordinates are documented read-only)")
    for l in LABELS:
        if l not in allowed:
            raise TranslateError(f"CellProp.{l} not found")
    return coord, allowed


def exec_tables(repo):
    """the same four tables obtained by EXECUTING the accessors on every grid class (three sizes each): which stored array a
    getter returns / a setter replaces (by object identity), or which exception is raised"""
    sys.path.insert(0, os.path.join(repo, "src"))
    try:
        import numpy as np
        import pyfvtool as pf
    except Exception as ex:
        raise TranslateError(f"cannot import pyfvtool from {repo}/src: {type(ex).__name__}: {ex}")
    ARGS = {"G1": lambda n: (n, 1.0), "C1": lambda n: (n, 1.0), "S1": lambda n: (n, 1.0),
            "G2": lambda n: (n, n + 1, 1.0, 2.0), "C2": lambda n: (n, n + 1, 1.0, 2.0), "P2": lambda n: (n, n + 1, 1.0, 2.0),
            "G3": lambda n: (n, n + 1, n + 2, 1.0, 2.0, 3.0), "C3": lambda n: (n, n + 1, n + 2, 1.0, 2.0, 3.0),
            "S3": lambda n: (n, n + 1, n + 2, 1.0, 2.0, 3.0)}
    PY = {v: k for k, v in CLS.items()}
    def outcome(f):
        try:
            return ("ok", f())
        except AttributeError:
            return ("AttrErr", None)
        except NotImplementedError:
            return ("NotImplErr", None)
        except Exception:
            return ("OtherErr", None)
    per_size = []
    for n in (1, 2, 3):
        get = {l: [] for l in LABELS}; st = {l: [] for l in LABELS}; coord = {}; allowed = {l: set() for l in LABELS}
        for cq in ORDER:
            mesh = getattr(pf, PY[cq])(*ARGS[cq](n))
            for l in LABELS:
                fv = pf.FaceVariable(mesh, 1.0)
                slots = [fv._xvalue, fv._yvalue, fv._zvalue]
                k, v = outcome(lambda: getattr(fv, l + "value"))
                if k == "ok":
                    hit = [i for i, a in enumerate(slots) if v is a]
                    k = f"Slot {hit[0]}" if len(hit) == 1 else "OtherErr"
                get[l].append(k)
                fv = pf.FaceVariable(mesh, 1.0)
                sentinel = np.full(3, 7.0)
                k, _ = outcome(lambda: setattr(fv, l + "value", sentinel))
                if k == "ok":
                    hit = [i for i, a in enumerate((fv._xvalue, fv._yvalue, fv._zvalue)) if a is sentinel]
                    k = f"Slot {hit[0]}" if len(hit) == 1 else "OtherErr"
                st[l].append(k)
            cp = mesh.cellcenters
            labs = getattr(cp, "coordlabels", None)
            if not isinstance(labs, dict) or not all(v in SLOT for v in labs.values()):
                raise TranslateError(f"{PY[cq]}: cellcenters.coordlabels is not a dict of labels to _x/_y/_z")
            coord[cq] = [(k, SLOT[v]) for k, v in labs.items()]
            for l in LABELS:
                k, v = outcome(lambda: getattr(cp, l))
                if k == "ok":
                    hit = [i for i, a in enumerate((cp._x, cp._y, cp._z)) if v is a]
                    if len(hit) != 1:
                        raise TranslateError(f"{PY[cq]}: cellcenters.{l} is none of the stored arrays")
                    if dict(coord[cq]).get(l) != hit[0]:
                        raise TranslateError(f"{PY[cq]}: cellcenters.{l} disagrees with coordlabels")
                    allowed[l].add(hit[0])
                elif k != "AttrErr" or l in dict(coord[cq]):
                    raise TranslateError(f"{PY[cq]}: cellcenters.{l} -> {k}")
                prop = getattr(type(cp), l, None)
                if not isinstance(prop, property) or prop.fset is not None:
                    raise TranslateError(f"CellProp.{l} is not a read-only property")
        per_size.append((get, st, coord, {l: sorted(allowed[l]) for l in LABELS}))
    if any(t != per_size[0] for t in per_size[1:]):
        raise TranslateError("label behaviour depends on the grid size")
    return per_size[0]


def translate(repo):
    derivation = "the source text (AST of the if-chains and dict literals), cross-checked by executing every accessor on every grid class"
    ex = exec_tables(repo)
    try:
        get, st = face_tables(repo)
        coord, allowed = mesh_tables(repo)
        if (get, st, coord, {l: sorted(v) for l, v in allowed.items()}) != (ex[0], ex[1], ex[2], ex[3]):
            raise TranslateError("tables read from the source text and tables observed by execution differ")
    except TranslateError as e:
        if "differ" in str(e):
            raise
        # the source is organised differently (helper functions, lookup tables ...): fall back to the observed tables
        get, st, coord, allowed = ex
        derivation = "EXECUTION of every accessor on every grid class, three sizes each (the source text is not in the if-chain form: " + str(e)[:120] + ")"
    o = []
    w = o.append
    w("(* GENERATED by tools/tr_labels.py from src/pyfvtool/face.py and src/pyfvtool/mesh.py. DO NOT EDIT.")
    w("   derived from " + derivation.replace("*)", "* )") + " *)")
    w("From Coq Require Import String List Arith.")
    w("From PFV Require Import Grid.")
    w("Import ListNotations.\nOpen Scope string_scope.")
    w("Inductive action := Slot (n : nat) | AttrErr | NotImplErr | OtherErr.")
    w("Definition class_index (g : gclass) : nat := match g with G1 => 0 | C1 => 1 | S1 => 2 | G2 => 3 | C2 => 4 | P2 => 5 | G3 => 6 | C3 => 7 | S3 => 8 end.")
    def tab(name, t):
        w(f"Definition {name} : list (string * list action) := [")
        w(";\n".join(f'  ("{l}", [{"; ".join(t[l])}])' for l in LABELS))
        w("].")
    tab("face_get_table", get)
    tab("face_set_table", st)
    w("Definition coord_table : list (list (string * nat)) := [")
    w(";\n".join("  [" + "; ".join(f'("{k}", {v})' for k, v in coord[c]) + "]" for c in ORDER))
    w("].")
    w("Definition cellprop_allowed : list (string * list nat) := [")
    w(";\n".join(f'  ("{l}", [{"; ".join(map(str, allowed[l]))}])' for l in LABELS))
    w("].")
    return "\n".join(o) + "\n"


if __name__ == "__main__":
    repo = sys.argv[1] if len(sys.argv) > 1 else "/repo"
    dst = sys.argv[2] if len(sys.argv) > 2 else None
    try:
        txt = translate(repo)
    except TranslateError as e:
        print("TRANSLATE-ERROR:", e)
        sys.exit(2)
    if dst:
        old = open(dst).read() if os.path.exists(dst) else None
        if old != txt:
            open(dst, "w").write(txt)
    else:
        sys.stdout.write(txt)
