(* C01, closed systems: the boundary fluxes vanish for no-flux walls with zero wall-normal velocity and for periodic axes
   (diffusion and central advection), so ANY NUMBER of implicit or explicit steps leaves the alpha-weighted integral unchanged.
   The hypotheses are statements about the solution's ghost cells that the boundary rows of is_solution impose
   (no-flux: ghost = adjacent cell, C07_noflux_ghost; periodic: ghost = opposite end cell, C03_periodic_wrap). *)
From Coq Require Import Arith List Bool Field Lia.
From PFV Require Import OField KOps Sums Grid Ops Boundary Solver StencilThy ConservThy MeasureThy TermsThy SolverThy BalanceThy GeometryThy.
Import ListNotations.

Section Closed.
Variable F : FieldOps.
Variable L : FieldLaws F.
Add Field FFclosed : (FL_field F L).
Local Notation K := (K F).
Local Notation "0" := (k0 F).
Local Infix "+" := (kadd F).
Local Infix "*" := (kmul F).
Local Infix "-" := (ksub F).
Local Infix "/" := (kdiv F).
Local Notation Mesh := (Mesh F).

Variable m : Mesh.
Variable V : cell -> K.
Variable T : axis -> cell -> K.
Local Notation BF := (boundary_flux F m T).
Local Notation SC := (sum_cells F m).
Local Notation N := (mN F m).

(* the contributions of the first and the last face of every grid line are equal (both zero, or periodic images) *)
Definition faces_cancel (Fl : fvar F) : Prop :=
  forall a c, In a (active_axes F m) -> mA F m a (N a) * Fl a (cset a c (N a)) = mA F m a 0 * Fl a (cset a c 0).

Lemma ksum_zero (l : list axis) (f : axis -> K) : (forall a, In a l -> f a = 0) -> ksum F (map f l) = 0.
Proof.
  induction l as [|a l IH]; intros H; cbn [map ksum fold_right]; [reflexivity|].
  unfold ksum in IH. rewrite IH by (intros b Hb; apply H; right; exact Hb). rewrite (H a (or_introl eq_refl)). ring.
Qed.

Theorem boundary_flux_cancels (Fl : fvar F) : faces_cancel Fl -> BF Fl = 0.
Proof.
  intros H. unfold boundary_flux. apply ksum_zero. intros a Ha.
  assert (Z : forall c, bflux F m Fl T a c = 0).
  { intros c. unfold bflux. rewrite (H a c Ha). ring. }
  unfold sum_lines. destruct a;
    (rewrite (sum3_ext F _ _ _ _ _ _ _ (fun _ => 0)) by (intros; apply Z)); apply (sum3_zero F L).
Qed.

(* ---- no-flux walls: ghost value = adjacent cell value on every boundary face; velocity zero on the boundary faces ---- *)
Definition noflux_closure (x : cvar F) : Prop :=
  forall a c, In a (active_axes F m) ->
    x (cset a c 0) = x (cset a c 1) /\ x (cset a c (S (N a))) = x (cset a c (N a)).
Definition wall_velocity_zero (u : fvar F) : Prop :=
  forall a c, In a (active_axes F m) -> u a (cset a c 0) = 0 /\ u a (cset a c (N a)) = 0.

Lemma cup_cset a c n : cup a (cset a c n) = cset a c (S n).
Proof. unfold cup. rewrite cidx_cset, cset_cset. reflexivity. Qed.

Lemma noflux_diffusion_faces (D : fvar F) (x : cvar F) : noflux_closure x -> faces_cancel (fmul F D (gradient F m x)).
Proof.
  intros H a c Ha. destruct (H a c Ha) as [H0 HN].
  unfold fmul, gradient. rewrite !cup_cset, !cidx_cset. rewrite HN, <- H0.
  rewrite !(Fdiv_def (FL_field F L)). ring.
Qed.
Lemma wall_central_faces (u : fvar F) (x : cvar F) : wall_velocity_zero u -> faces_cancel (fmul F u (linmean F m x)).
Proof. intros H a c Ha. destruct (H a c Ha) as [H0 HN]. unfold fmul. rewrite H0, HN. ring. Qed.
Lemma wall_upwind_faces (u : fvar F) (x : cvar F) : wall_velocity_zero u -> faces_cancel (upwflux F m u u x).
Proof.
  intros H a c Ha. destruct (H a c Ha) as [H0 HN]. unfold upwflux, umax, umin. rewrite H0, HN.
  destruct (kltb F 0 0); ring.
Qed.

(* ---- periodic axes: the ghost cells are the images of the opposite end cells; coefficients, end-cell sizes and face
   weights are periodic too (equal end-cell sizes: otherwise see the known finding c03:periodic_nonuniform) ---- *)
Definition periodic_closure (x : cvar F) : Prop :=
  forall a c, In a (active_axes F m) ->
    x (cset a c 0) = x (cset a c (N a)) /\ x (cset a c (S (N a))) = x (cset a c 1).
Definition periodic_coeff (D : fvar F) : Prop :=
  forall a c, In a (active_axes F m) -> D a (cset a c 0) = D a (cset a c (N a)).
Definition periodic_metric : Prop :=
  forall a, In a (active_axes F m) ->
    mA F m a 0 = mA F m a (N a) /\ mdxf F m a 0 = mdxf F m a (N a) /\ mDX F m a 1 = mDX F m a (N a).

Lemma mfac_cset a c n k : mfac F m a (cset a c n) = mfac F m a (cset a c k).
Proof. rewrite (mfac_indep F m a c n), (mfac_indep F m a c k). reflexivity. Qed.

Lemma periodic_diffusion_faces (D : fvar F) (x : cvar F) :
  periodic_metric -> periodic_closure x -> periodic_coeff D -> faces_cancel (fmul F D (gradient F m x)).
Proof.
  intros HMt H HD a c Ha. destruct (H a c Ha) as [H0 HN]. destruct (HMt a Ha) as (EA & Ed & _).
  unfold fmul, gradient. rewrite !cup_cset, !cidx_cset.
  rewrite HN, H0, (HD a c Ha), EA, Ed, (mfac_cset a c 0 (N a)). reflexivity.
Qed.

Lemma periodic_central_faces (u : fvar F) (x : cvar F) :
  (forall a, In a (active_axes F m) -> 1 <= N a) ->
  periodic_metric -> periodic_closure x -> periodic_coeff u -> faces_cancel (fmul F u (linmean F m x)).
Proof.
  intros HN1 HMt H Hu a c Ha. destruct (H a c Ha) as [H0 HN]. destruct (HMt a Ha) as (EA & _ & E1).
  destruct (GeometryThy.ghost_sizes_repeat F (max F m a) (HN1 a Ha)) as [G0 GN].
  fold (mDX F m a 0) (mDX F m a 1) in G0. fold (mN F m a) in GN. fold (mDX F m a (S (N a))) (mDX F m a (N a)) in GN.
  unfold fmul, linmean. rewrite !cup_cset, !cidx_cset.
  rewrite HN, H0, (Hu a c Ha), EA, GN, G0, E1. reflexivity.
Qed.
Lemma zero_upwind_faces (x : cvar F) : faces_cancel (upwflux F m (fun _ _ => 0) (fun _ _ => 0) x).
Proof. intros a c Ha. unfold upwflux, umax, umin. destruct (kltb F 0 0); ring. Qed.
End Closed.

(* ---- any number of implicit steps ---- *)
Section Steps.
Variable F : FieldOps.
Variable L : FieldLaws F.
Local Notation K := (K F).
Variable m : Mesh F.
Variable V : cell -> K.
Variable T : axis -> cell -> K.
Hypothesis HM : forall a, In a (active_axes F m) -> measure_ok F m V T a.
Hypothesis Hok : stencil_ok F m.
Variable bc : BCs F.
Variable alpha : cvar F.
Variable dts : nat -> K.                      (* the time step of step k *)
Variable sD sC sU : K.
Variable D u : fvar F.
Variable xs : nat -> cvar F.                  (* xs 0 = initial field, xs (S k) = result of step k *)
Hypothesis Hdt : forall k, dts k <> k0 F.
Hypothesis Hstep : forall k,
  is_solution F m bc [TTrans F alpha (dts k) (xs k); TDiff F sD D; TCen F sC u; TUpw F sU u u] (xs (S k)).

(* no-flux walls, zero wall-normal velocity *)
Theorem noflux_steps_conserve :
  (forall k, noflux_closure F m (xs (S k))) -> wall_velocity_zero F m u ->
  forall k, sum_cells F m (fun c => kmul F (V c) (kmul F (alpha c) (xs k c)))
          = sum_cells F m (fun c => kmul F (V c) (kmul F (alpha c) (xs 0 c))).
Proof.
  intros Hnf Hu. induction k as [|k IH]; [reflexivity|].
  rewrite <- IH.
  apply (implicit_step_closed F L m V T HM Hok bc alpha (dts k) (xs k) (xs (S k)) sD sC sU D u u u (Hdt k) (Hstep k)).
  - apply (boundary_flux_cancels F L), (noflux_diffusion_faces F L), Hnf.
  - apply (boundary_flux_cancels F L), (wall_central_faces F L), Hu.
  - apply (boundary_flux_cancels F L), (wall_upwind_faces F L), Hu.
Qed.
End Steps.

(* periodic axes, diffusion + central advection (upwind advection along a periodic axis: known finding c01:upwind_periodic) *)
Section PeriodicSteps.
Variable F : FieldOps.
Variable L : FieldLaws F.
Local Notation K := (K F).
Variable m : Mesh F.
Variable V : cell -> K.
Variable T : axis -> cell -> K.
Hypothesis HM : forall a, In a (active_axes F m) -> measure_ok F m V T a.
Hypothesis Hok : stencil_ok F m.
Hypothesis HN1 : forall a, In a (active_axes F m) -> 1 <= mN F m a.
Variable bc : BCs F.
Variable alpha : cvar F.
Variable dts : nat -> K.
Variable sD sC sU : K.
Variable D u : fvar F.
Variable xs : nat -> cvar F.
Hypothesis Hdt : forall k, dts k <> k0 F.
Hypothesis Hstep : forall k,
  is_solution F m bc [TTrans F alpha (dts k) (xs k); TDiff F sD D; TCen F sC u; TUpw F sU (fun _ _ => k0 F) (fun _ _ => k0 F)] (xs (S k)).

Theorem periodic_steps_conserve :
  periodic_metric F m -> (forall k, periodic_closure F m (xs (S k))) -> periodic_coeff F m D -> periodic_coeff F m u ->
  forall k, sum_cells F m (fun c => kmul F (V c) (kmul F (alpha c) (xs k c)))
          = sum_cells F m (fun c => kmul F (V c) (kmul F (alpha c) (xs 0 c))).
Proof.
  intros HMt Hx HD Hu. induction k as [|k IH]; [reflexivity|].
  rewrite <- IH.
  apply (implicit_step_closed F L m V T HM Hok bc alpha (dts k) (xs k) (xs (S k)) sD sC sU D u _ _ (Hdt k) (Hstep k)).
  - apply (boundary_flux_cancels F L). apply periodic_diffusion_faces; auto.
  - apply (boundary_flux_cancels F L). apply periodic_central_faces; auto.
  - apply (boundary_flux_cancels F L). apply zero_upwind_faces; auto.
Qed.
End PeriodicSteps.

(* ---- any number of explicit steps with the flux-form right-hand side  -div( sC*u*linearMean(x) + sD*D*grad(x) ) ---- *)
Section ExplicitSteps.
Variable F : FieldOps.
Variable L : FieldLaws F.
Add Field FFclosed2 : (FL_field F L).
Local Notation K := (K F).
Variable m : Mesh F.
Variable V : cell -> K.
Variable T : axis -> cell -> K.
Hypothesis HM : forall a, In a (active_axes F m) -> measure_ok F m V T a.

Lemma faces_cancel_lin (p q : K) (f g : fvar F) :
  faces_cancel F m f -> faces_cancel F m g -> faces_cancel F m (fun a c => kadd F (kmul F p (f a c)) (kmul F q (g a c))).
Proof.
  intros Hf Hg a c Ha. pose proof (Hf a c Ha) as E1. pose proof (Hg a c Ha) as E2.
  transitivity (kadd F (kmul F p (kmul F (mA F m a (mN F m a)) (f a (cset a c (mN F m a)))))
                       (kmul F q (kmul F (mA F m a (mN F m a)) (g a (cset a c (mN F m a)))))); [ring|].
  rewrite E1, E2. ring.
Qed.

Variable bc : BCs F.
Variable dts : nat -> K.
Variable sD sC : K.
Variable D u : fvar F.
Variable xs : nat -> cvar F.
Definition flux_of (x : cvar F) : fvar F :=
  fun a c => kadd F (kmul F sC (fmul F u (linmean F m x) a c)) (kmul F sD (fmul F D (gradient F m x) a c)).
Hypothesis Hstep : forall k,
  xs (S k) = explicit_step F m bc (xs k) (dts k) (fun c => kopp F (divergence F m (flux_of (xs k)) c)).

Theorem noflux_explicit_steps_conserve :
  (forall k, noflux_closure F m (xs k)) -> wall_velocity_zero F m u ->
  forall k, sum_cells F m (fun c => kmul F (V c) (xs k c)) = sum_cells F m (fun c => kmul F (V c) (xs 0 c)).
Proof.
  intros Hnf Hu. induction k as [|k IH]; [reflexivity|].
  rewrite <- IH, (Hstep k), (explicit_step_balance F L m V T HM bc (xs k) (dts k) (flux_of (xs k))).
  rewrite (boundary_flux_cancels F L m T (flux_of (xs k))); [ring|].
  unfold flux_of. apply faces_cancel_lin.
  - apply (wall_central_faces F L), Hu.
  - apply (noflux_diffusion_faces F L), Hnf.
Qed.
End ExplicitSteps.
