(* Derived operations over a FieldOps record (used by generated and hand-written models),
   and their meaning at the R instance. *)
From Coq Require Import ZArith QArith Qcanon Reals Bool Lra.
From PFV Require Import OField.

Section KOps.
Variable F : FieldOps.
Definition b2k (b : bool) : F := if b then k1 F else k0 F.
Definition kabs (x : F) : F := if kltb F x (k0 F) then kopp F x else x.
Definition kmin (x y : F) : F := if kleb F x y then x else y.
Definition kmax (x y : F) : F := if kleb F x y then y else x.
Definition ksign (x : F) : F :=
  if kltb F (k0 F) x then k1 F else if kltb F x (k0 F) then kopp F (k1 F) else k0 F.

Fixpoint kofpos (p : positive) : F :=
  match p with
  | xH => k1 F
  | xO q => let h := kofpos q in kadd F h h
  | xI q => let h := kofpos q in kadd F (k1 F) (kadd F h h)
  end.
Definition kofZ (z : Z) : F :=
  match z with Z0 => k0 F | Zpos p => kofpos p | Zneg p => kopp F (kofpos p) end.
Definition kofQ (n : Z) (d : positive) : F := kdiv F (kofZ n) (kofpos d).
Definition kofnat (n : nat) : F := kofZ (Z.of_nat n).
End KOps.

(* ---- meaning at R ---- *)
Lemma kofpos_R p : kofpos ROps p = IPR p.
Proof.
  induction p as [q IH|q IH|]; cbn [kofpos].
  - rewrite IH. change (kadd ROps) with Rplus. change (k1 ROps) with 1%R.
    unfold IPR. destruct q; cbn [IPR_2]; unfold IPR in *; cbn [IPR_2] in *; try lra.
  - rewrite IH. change (kadd ROps) with Rplus.
    unfold IPR. destruct q; cbn [IPR_2]; unfold IPR in *; cbn [IPR_2] in *; try lra.
  - reflexivity.
Qed.
Lemma kofZ_R z : kofZ ROps z = IZR z.
Proof. destruct z; cbn [kofZ]; unfold IZR; rewrite ?kofpos_R; reflexivity. Qed.
Lemma kofQ_R n d : kofQ ROps n d = (IZR n / IZR (Zpos d))%R.
Proof. unfold kofQ. rewrite kofZ_R, kofpos_R. reflexivity. Qed.

Lemma kabs_R x : kabs ROps x = Rabs x.
Proof.
  unfold kabs, Rabs. cbn. unfold R_ltb.
  destruct (Rlt_dec x 0), (Rcase_abs x); try reflexivity; lra.
Qed.
Lemma kmin_R x y : kmin ROps x y = Rmin x y.
Proof. unfold kmin, Rmin. cbn. unfold R_leb. destruct (Rle_dec x y); reflexivity. Qed.
Lemma kmax_R x y : kmax ROps x y = Rmax x y.
Proof. unfold kmax, Rmax. cbn. unfold R_leb. destruct (Rle_dec x y); reflexivity. Qed.
